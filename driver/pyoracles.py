"""CPython cross-validators: independent implementations from the standard library judge the
harness's own reference oracles (and, where dumped, the SUT) on deterministic samples.
A disagreement between a Rust reference and CPython is a HARNESS ERROR, never a violation."""
import os
import re
import time


def _res(evaluations, distinct, rule, samples, extra=None, harness_errors=None, violations=None):
    return {"evaluations": evaluations, "distinct_nontrivial": distinct, "rule": rule, "samples": samples,
            "extra": extra or {}, "violations": violations or [], "inconclusive": [],
            "harness_errors": harness_errors or [], "assumptions": [], "_engine": "cpython", "_wall": 0.0,
            "_stderr_tail": ""}


def c05_xcheck(pid, tier, seed, work):
    t = time.time()
    path = os.path.join(work, "xcheck", "C05.tsv")
    errs = []
    n = 0
    distinct = set()
    samples = []
    if not os.path.exists(path):
        return _res(0, 0, "", [], harness_errors=["no cross-check file from hv c05"])
    for line in open(path):
        ph, th, e = line.rstrip("\n").split("\t")
        p = bytes.fromhex(ph).decode()
        s = bytes.fromhex(th).decode()
        rx = "".join(".*" if c == "*" else re.escape(c) for c in p)
        got = re.fullmatch(rx, s, flags=re.S) is not None
        n += 1
        distinct.add((p, s))
        if len(samples) < 2:
            samples.append({"pattern": p, "text": s, "re.fullmatch": got, "reference_dp": e == "1"})
        if got != (e == "1"):
            errs.append("reference DP disagrees with re.fullmatch on pattern=%r text=%r" % (p, s))
    os.remove(path)
    r = _res(n, len(distinct), "reference DP matcher vs CPython re.fullmatch on %d sampled pairs" % n, samples,
             extra={"xcheck_pairs": n}, harness_errors=errs[:5])
    r["_wall"] = time.time() - t
    return r


def c18_xcheck(pid, tier, seed, work):
    """CPython judges both the SUT outputs and the Rust references dumped by `hv c18`."""
    import base64
    import binascii
    import datetime
    import email.utils
    import hashlib
    import urllib.parse
    t = time.time()
    path = os.path.join(work, "xcheck", "C18.tsv")
    if not os.path.exists(path):
        return _res(0, 0, "", [], harness_errors=["no cross-check file from hv c18"])
    errs = []      # reference vs CPython: harness errors
    viols = {}     # SUT vs CPython
    n = 0
    counts = {}
    distinct = set()
    samples = []
    epoch = datetime.datetime(1970, 1, 1, tzinfo=datetime.timezone.utc)

    def fmt(ts):
        return email.utils.format_datetime(epoch + datetime.timedelta(seconds=ts), usegmt=True)

    def v(sig, what, ex):
        if sig not in viols:
            viols[sig] = {"sig": sig, "what": what, "count": 0, "example": ex, "replay": []}
        viols[sig]["count"] += 1

    def py_b64d(s):
        try:
            txt = s.decode("ascii")
        except UnicodeDecodeError:
            return None
        if len(txt) % 4 != 0:
            return None
        try:
            return base64.b64decode(txt, validate=True)
        except (binascii.Error, ValueError):
            return None

    for line in open(path):
        f = line.rstrip("\n").split("\t")
        k = f[0]
        n += 1
        counts[k] = counts.get(k, 0) + 1
        distinct.add((k, f[1]))
        if k == "sha1":
            m = bytes.fromhex(f[1])
            h = hashlib.sha1(m).hexdigest()
            if f[3] != h:
                errs.append("reference SHA-1 disagrees with hashlib on a %d-byte message" % len(m))
            if f[2] != h:
                v("C18/sha1:wrong-digest", "SHA-1 differs from hashlib.sha1 on a %d-byte message" % len(m), {"input_hex": f[1][:200], "got": f[2], "hashlib": h})
        elif k == "b64e":
            m = bytes.fromhex(f[1])
            e = base64.b64encode(m).decode()
            if f[3] != e:
                errs.append("reference Base64 disagrees with base64.b64encode on %s" % f[1])
            if f[2] != e:
                v("C18/base64-encode:wrong", "Base64 differs from base64.b64encode", {"input_hex": f[1], "got": f[2], "cpython": e})
        elif k == "b64d":
            s = bytes.fromhex(f[1])
            py = py_b64d(s)
            ref_ok = f[3].startswith("ok:")
            # CPython (validate=True) also discards non-canonical trailing bits silently, like the reference
            if (py is not None) != ref_ok or (ref_ok and py.hex() != f[3][3:]):
                # one documented difference: CPython accepts excess padding such as 'AA==' only at the end; same as reference
                errs.append("reference Base64 decoder disagrees with base64.b64decode(validate=True) on %r: ref=%s py=%r" % (s, f[3], py))
        elif k == "pcte":
            m = bytes.fromhex(f[1])
            e = urllib.parse.quote_from_bytes(m, safe="")
            if f[2] != e:
                v("C18/percent-encode:wrong", "percent-encoding differs from urllib.parse.quote(safe='')", {"input_hex": f[1], "got": f[2], "cpython": e})
        elif k == "pctd":
            s = bytes.fromhex(f[1])
            if f[3].startswith("ok:"):
                e = urllib.parse.unquote_to_bytes(s)
                if e.hex() != f[3][3:]:
                    errs.append("reference percent-decoder disagrees with urllib.parse.unquote_to_bytes on %r" % s)
        elif k == "date":
            ts = int(f[1])
            e = fmt(ts)
            if f[3] != e:
                errs.append("reference IMF-fixdate disagrees with email.utils.format_datetime on %d: %s vs %s" % (ts, f[3], e))
            if f[2] != e:
                v("C18/date:wrong", "HTTP date differs from email.utils.format_datetime", {"timestamp": ts, "got": f[2], "cpython": e})
        elif k == "blk_date":
            lo, hi, sod = int(f[1]), int(f[2]), int(f[3])
            h = hashlib.sha1()
            d = epoch + datetime.timedelta(days=lo, seconds=sod)
            one = datetime.timedelta(days=1)
            for i in range(lo, hi):
                h.update(email.utils.format_datetime(d, usegmt=True).encode() + b"\n")
                if i + 1 < hi:  # the last block ends on 9999-12-31: stepping past it would leave datetime's range
                    d += one
            n += hi - lo
            counts["dates_in_blocks"] = counts.get("dates_in_blocks", 0) + hi - lo
            if h.hexdigest() != f[4]:
                v("C18/date:wrong", "block digest of HTTP dates for days %d..%d at second %d differs from CPython" % (lo, hi, sod), {"block": [lo, hi, sod]})
        elif k == "blk_b64e3":
            a = int(f[1])
            h = hashlib.sha1()
            for b in range(256):
                h.update(b"".join(base64.b64encode(bytes((a, b, c))) for c in range(256)))
            n += 65536
            counts["b64_groups_in_blocks"] = counts.get("b64_groups_in_blocks", 0) + 65536
            if h.hexdigest() != f[2]:
                v("C18/base64-encode:wrong", "block digest of Base64 of all 3-byte groups with first byte %d differs from CPython" % a, {"first_byte": a})
        if len(samples) < 3 and k in ("date", "b64d", "sha1") and not any(x["kind"] == k for x in samples):
            samples.append({"kind": k, "fields": [x[:80] for x in f[1:]]})
    os.remove(path)
    extra = {"xcheck_lines_%s" % k: c for k, c in counts.items()}
    r = _res(n, len(distinct), "CPython hashlib/base64/urllib.parse/datetime+email.utils recompute every dumped case (%d lines; thorough adds SHA-1 block digests over all days and all 2^24 Base64 groups)" % n,
             samples, extra=extra, harness_errors=errs[:5], violations=list(viols.values()))
    r["_wall"] = time.time() - t
    return r


def c13_xcheck(pid, tier, seed, work):
    """CPython json.loads judges the reference recogniser (accept/reject and value) on the dumped sample.
    Whitelisted differences: CPython accepts unpaired surrogate escapes and has no depth limit of 256;
    such cases are not dumped (flags) or cannot occur in the sample (depth)."""
    import json as pj
    t = time.time()
    path = os.path.join(work, "xcheck", "C13.tsv")
    if not os.path.exists(path):
        return _res(0, 0, "", [], harness_errors=["no cross-check file from hv c13"])

    def bad_const(x):
        raise ValueError("constant " + x)

    def loads(s):
        return pj.loads(s, parse_constant=bad_const, parse_int=float, object_pairs_hook=lambda kv: ("obj", kv))

    errs = []
    n = acc = 0
    distinct = set()
    samples = []
    for line in open(path):
        th, verdict, ch = line.rstrip("\n").split("\t")
        text = bytes.fromhex(th).decode("utf-8")
        n += 1
        distinct.add(th)
        try:
            v = loads(text)
            ok = True
        except (ValueError, RecursionError):
            ok = False
        # json.loads strips no BOM and accepts only JSON whitespace: same as RFC 8259
        if ok != (verdict == "ok"):
            errs.append("recogniser says %s, json.loads says %s for %r" % (verdict, "ok" if ok else "err", text[:80]))
            continue
        if ok:
            acc += 1
            want = loads(bytes.fromhex(ch).decode())
            if v != want and not (v != v):
                errs.append("recogniser value differs from json.loads for %r" % text[:80])
        if len(samples) < 3 and ok and len(text) > 6:
            samples.append({"text": text[:100], "json.loads": "accept", "recogniser": verdict})
    os.remove(path)
    r = _res(n, len(distinct), "reference recogniser vs CPython json.loads(parse_constant raising) on %d dumped texts (verdict and value)" % n,
             samples, extra={"xcheck_texts": n, "xcheck_accepted": acc}, harness_errors=errs[:5])
    r["_wall"] = time.time() - t
    return r


def _miri(args, flags, timeout):
    import subprocess
    env = dict(os.environ)
    env.update({"CARGO_NET_OFFLINE": "true", "CARGO_TARGET_DIR": "/verif/.work/target-miri",
                "MIRIFLAGS": "-Zmiri-ignore-leaks -Zmiri-disable-isolation " + flags})
    cmd = ["cargo", "+nightly", "miri", "run", "--offline", "-q", "-p", "hvm", "--"] + args
    try:
        p = subprocess.run(cmd, cwd="/verif/hv", env=env, stdout=subprocess.PIPE, stderr=subprocess.PIPE, timeout=timeout)
        return p.returncode, p.stdout.decode("utf-8", "replace"), p.stderr.decode("utf-8", "replace")
    except subprocess.TimeoutExpired as e:
        return -999, (e.stdout or b"").decode("utf-8", "replace"), (e.stderr or b"").decode("utf-8", "replace")


def c08_miri(pid, tier, seed, work):
    """Small pool scenarios interpreted by Miri under its seeded scheduler: deadlock is reported as a fact
    (all threads blocked), data races / UB in the exercised std primitives are reported as errors."""
    from concurrent.futures import ThreadPoolExecutor
    t = time.time()
    thorough = tier == "thorough"
    nseeds = 96 if thorough else 16
    base = (seed * 1000) % 1000000
    # (workers, tasks, lifecycle script index, preemption rate)
    configs = [
        (2, "rprz", 0, "0.1"), (3, "rpqz", 1, "0.1"), (1, "ppr", 2, "0.5"), (2, "pry", 3, "0.01"), (2, "rprp", 6, "0.1"),
    ]
    if thorough:
        configs += [(1, "pprp", 0, "0.5"), (3, "qrsp", 2, "0.1"), (2, "rrrr", 1, "0.5"), (3, "pppp", 0, "0.1"),
                    (2, "", 5, "0.1"), (1, "", 4, "0.1"), (3, "zpzp", 3, "0.5"), (2, "qq", 2, "0.01"), (3, "prpr", 7, "0.1"), (1, "pp", 6, "0.5")]

    def one(cfg):
        n, tasks, script, rate = cfg
        args = ["c08", "--n", str(n), "--tasks", tasks, "--script", str(script)]
        flags = "-Zmiri-many-seeds=%d..%d -Zmiri-preemption-rate=%s" % (base, base + nseeds, rate)
        return cfg, _miri(args, flags, 3000 if thorough else 600)

    evaluations = 0
    fps = set()
    viols = {}
    errs = []
    inconclusive = []
    samples = []
    events = 0
    with ThreadPoolExecutor(max_workers=3) as ex:
        results = list(ex.map(one, configs))
    for cfg, (rc, out, err) in results:
        n, tasks, script, rate = cfg
        lines = [l for l in out.split("\n") if l.startswith("HVM c08 ")]
        evaluations += len(lines)
        for l in lines:
            kv = dict(x.split("=", 1) for x in l.split(" ")[2:] if "=" in x)
            fps.add((n, tasks, script, kv.get("fp")))
            events += int(kv.get("events", "0"))
            if kv.get("viol"):
                for v in kv["viol"].split("|"):
                    sig, what = v.split("~", 1)
                    e = viols.setdefault(sig, {"sig": sig, "what": "[miri] " + what.replace("_", " "), "count": 0,
                                               "example": {"config": list(cfg), "trace": kv.get("trace")}, "replay": []})
                    e["count"] += 1
            if len(samples) < 2:
                samples.append({"config": {"workers": n, "tasks": tasks, "script": script, "preemption_rate": rate},
                                "trace": kv.get("trace", "")[:200]})
        if rc == -999:
            inconclusive.append("miri timed out on config %r" % (cfg,))
        elif rc != 0:
            kind = None
            if "deadlock" in err:
                kind = "deadlock"
            elif "Data race detected" in err or "data race" in err.lower():
                kind = "data-race"
            elif "Undefined Behavior" in err:
                kind = "undefined-behavior"
            elif "panicked at" in err and "hv-task-panic" not in err:
                kind = "panic"
            if kind:
                sig = "C08/miri:%s" % kind
                snippet = "\n".join([l for l in err.split("\n") if l.strip() and not l.startswith("Trying seed")][:14])
                e = viols.setdefault(sig, {"sig": sig, "what": "Miri reports %s on the thread pool (config %r)" % (kind, cfg), "count": 0,
                                           "example": {"config": list(cfg), "stderr": snippet[:1500]}, "replay": []})
                e["count"] += 1
            else:
                errs.append("miri run failed (rc=%s) for %r: %s" % (rc, cfg, err[-400:]))
    # pure-function sweep: no UB / panic in interpreted calls of the matcher, Base64, SHA-1 and frame codec
    rc, out, err = _miri(["pure", "--count", "400" if thorough else "120", "--seed", str(seed)], "", 1200)
    pure_calls = 0
    for l in out.split("\n"):
        if l.startswith("HVM pure calls="):
            pure_calls = int(l.split("=")[1])
    if rc != 0:
        if "Undefined Behavior" in err or "panicked" in err:
            viols["C08/miri:pure-functions"] = {"sig": "C08/miri:pure-functions", "what": "Miri reports UB or a panic in the pure-function sweep", "count": 1, "example": {"stderr": err[-1200:]}, "replay": []}
        else:
            errs.append("miri pure sweep failed: %s" % err[-300:])
    r = _res(evaluations, len(fps), "Miri (seeded scheduler, %d seeds per config, preemption rates 0.01/0.1/0.5, failpoints as yield points) on %d small pool scenarios (1..3 workers, up to 4 tasks, all lifecycle scripts); distinct = distinct (scenario, event sequence)" % (nseeds, len(configs)),
             samples, extra={"miri_scenario_runs": evaluations, "miri_task_events": events, "miri_distinct_interleavings": len(fps), "miri_pure_function_calls": pure_calls},
             harness_errors=errs[:4], violations=list(viols.values()))
    r["inconclusive"] = inconclusive
    r["assumptions"] = ["Miri explores one schedule per seed; a clean run covers those schedules only"]
    r["_wall"] = time.time() - t
    return r


def c14_programs(pid, tier, seed, work):
    import c14gen
    return c14gen.run(pid, tier, seed, work)

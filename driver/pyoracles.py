"""CPython cross-validators: independent implementations from the standard library judge the
harness's own reference oracles (and, where dumped, the SUT) on deterministic samples.
A disagreement between a Rust reference and CPython is a HARNESS ERROR, never a violation."""
import os
import re
import time


def _res(evaluations, distinct, rule, samples, extra=None, harness_errors=None, violations=None):
    return {"evaluations": evaluations, "distinct_nontrivial": distinct, "rule": rule, "samples": samples,
            "extra": extra or {}, "violations": violations or [], "inconclusive": [],
            "harness_errors": harness_errors or [], "assumptions": [], "_engine": "cpython", "_wall": 0.0,
            "_stderr_tail": ""}


def c05_xcheck(pid, tier, seed, work):
    t = time.time()
    path = os.path.join(work, "xcheck", "C05.tsv")
    errs = []
    n = 0
    distinct = set()
    samples = []
    if not os.path.exists(path):
        return _res(0, 0, "", [], harness_errors=["no cross-check file from hv c05"])
    for line in open(path):
        ph, th, e = line.rstrip("\n").split("\t")
        p = bytes.fromhex(ph).decode()
        s = bytes.fromhex(th).decode()
        rx = "".join(".*" if c == "*" else re.escape(c) for c in p)
        got = re.fullmatch(rx, s, flags=re.S) is not None
        n += 1
        distinct.add((p, s))
        if len(samples) < 2:
            samples.append({"pattern": p, "text": s, "re.fullmatch": got, "reference_dp": e == "1"})
        if got != (e == "1"):
            errs.append("reference DP disagrees with re.fullmatch on pattern=%r text=%r" % (p, s))
    os.remove(path)
    r = _res(n, len(distinct), "reference DP matcher vs CPython re.fullmatch on %d sampled pairs" % n, samples,
             extra={"xcheck_pairs": n}, harness_errors=errs[:5])
    r["_wall"] = time.time() - t
    return r

"""Driver: build, run engines, classify against KNOWN_FINDINGS.json, write evidence, print verdict."""
import fcntl
import json
import os
import re
import subprocess
import sys
import time

ROOT = os.path.dirname(os.path.dirname(os.path.abspath(__file__)))
WORK = os.path.join(ROOT, ".work")
TARGET = os.path.join(WORK, "target")
TARGET_MIRI = os.path.join(WORK, "target-miri")
HV = os.path.join(ROOT, "hv")
EVID = os.path.join(ROOT, "evidence")
REPLAYS = os.path.join(ROOT, "replays")

ENV = dict(os.environ)
ENV.update({"CARGO_NET_OFFLINE": "true", "CARGO_TARGET_DIR": TARGET, "RUST_BACKTRACE": "0"})

import props  # noqa: E402  (property table)
import pyoracles  # noqa: E402


def log(*a):
    print(*a, file=sys.stderr, flush=True)


def build(binname):
    """Rebuild a harness binary from /repo's current working tree (path dependencies)."""
    os.makedirs(WORK, exist_ok=True)
    with open(os.path.join(WORK, "build.lock"), "w") as lk:
        fcntl.flock(lk, fcntl.LOCK_EX)
        if binname == "hvm":
            return None  # built by `cargo miri run`
        if binname == "server":
            cmd = ["cargo", "build", "--offline", "--release", "-p", "humphrey_server",
                   "--manifest-path", "/repo/Cargo.toml", "--target-dir", os.path.join(WORK, "target-repo")]
            cwd = "/repo"
        else:
            cmd = ["cargo", "build", "--offline", "--profile", "verif", "-p", binname]
            cwd = HV
        t = time.time()
        p = subprocess.run(cmd, cwd=cwd, env=ENV, stdout=subprocess.PIPE, stderr=subprocess.STDOUT, text=True)
        if p.returncode != 0:
            log("\n".join(l for l in p.stdout.split("\n") if l.startswith("error") or "-->" in l and "/verif/" in l)[-4000:])
            # not a verdict on the property: exit 3 (inconclusive), never 1
            print("HARNESS-ERROR build of %s failed (inconclusive: nothing was observed)" % binname)
            sys.exit(3)
        log("[build %s %.1fs]" % (binname, time.time() - t))
    if binname == "server":
        return os.path.join(WORK, "target-repo", "release", "humphrey")
    return os.path.join(TARGET, "verif", binname)


def run_engine(pid, eng, tier, seed, extra_args=None, replay=False):
    """Run one engine; returns its result dict."""
    name = eng["bin"]
    out = os.path.join(WORK, "out", "%s-%s-%d.json" % (pid, eng.get("tag", name), os.getpid()))
    os.makedirs(os.path.dirname(out), exist_ok=True)
    if os.path.exists(out):
        os.remove(out)
    timeout = eng.get("timeout", {"quick": 600, "thorough": 7200})[tier]
    if name == "py":
        return getattr(pyoracles, eng["fn"])(pid, tier, seed, WORK)
    if name == "hvm":
        cmd = ["cargo", "+nightly", "miri", "run", "--offline", "--profile", "dev", "-p", "hvm"]
        env = dict(ENV)
        env["CARGO_TARGET_DIR"] = TARGET_MIRI
        flags = eng.get("miriflags", "") + " -Zmiri-disable-isolation"
        env["MIRIFLAGS"] = flags.strip()
        args = list(eng["args"]) + ["--tier", tier, "--seed", str(seed), "--out", out]
        if extra_args:
            args = list(extra_args) + ["--out", out]
        cmd += ["--"] + args
        cwd = HV
    else:
        exe = build(name)
        for dep in eng.get("needs", []):
            build(dep)
        args = list(eng["args"]) + ["--tier", tier, "--seed", str(seed), "--out", out, "--work", WORK]
        if extra_args:
            args = list(extra_args) + ["--out", out, "--work", WORK]
        cmd = [exe] + args
        env = ENV
        cwd = ROOT
    t = time.time()
    try:
        p = subprocess.run(cmd, cwd=cwd, env=env, stdout=subprocess.PIPE, stderr=subprocess.PIPE, timeout=timeout)
        rc = p.returncode
        err = p.stderr.decode("utf-8", "replace")
    except subprocess.TimeoutExpired as e:
        rc = -999
        err = (e.stderr or b"").decode("utf-8", "replace")
    wall = time.time() - t
    if os.path.exists(out):
        with open(out) as f:
            res = json.load(f)
        os.remove(out)
    else:
        res = {"evaluations": 0, "distinct_nontrivial": 0, "rule": "", "samples": [], "extra": {}, "violations": [],
               "inconclusive": [], "assumptions": [],
               "harness_errors": ["engine %s produced no result (rc=%s, %.0fs): %s" % (name, rc, wall, err[-1500:])]}
        # The engine hosts the code under test in-process. If it was killed by a panic/abort whose location is in the
        # repository's own sources (and not in the harness), the death itself is an observation about that code:
        # report it as a violation keyed on the panic location. Any other death stays a harness error (inconclusive).
        died = rc != 0 and rc != -999
        locs = re.findall(r"panicked at (?:/repo/)((?:humphrey[a-z-]*)/src/[^\s:]+):(\d+)", err)
        harness_locs = re.findall(r"panicked at (/verif/|hv/|sync/src|common/src|tok/src|shared/)", err)
        if died and locs:
            first = locs[0]
            msg_lines = [l for l in err.split("\n") if l.strip()]
            res["violations"] = [{
                "sig": "%s/engine-died:panic@%s:%s" % (pid, first[0], first[1]),
                "what": "the process hosting the code under test died (rc=%s) after a panic inside the repository's own code at %s:%s (%d repository panic location(s) in its stderr%s)" % (rc, first[0], first[1], len(locs), "; harness frames panicked too" if harness_locs else ""),
                "count": 1,
                "example": {"stderr_tail": "\n".join(msg_lines[-12:])[-1500:], "rc": rc},
                "replay": list(cmd[1:]),
            }]
    res["_engine"] = eng.get("tag", name)
    res["_wall"] = wall
    res["_stderr_tail"] = err[-800:]
    return res


def load_known():
    with open(os.path.join(ROOT, "KNOWN_FINDINGS.json")) as f:
        return json.load(f)["findings"]


def slug(s):
    return re.sub(r"[^A-Za-z0-9_.@-]+", "_", s)[:80]


def main(argv):
    if not argv or argv[0] in ("-h", "--help"):
        print(__doc__)
        return 2
    if argv[0] == "--setup":
        build("hv")
        build("hvt")
        build("server")
        return 0
    pid = argv[0]
    if pid not in props.PROPS:
        log("unknown property", pid)
        return 2
    spec = props.PROPS[pid]
    seed = int(os.environ.get("VERIF_SEED", "1") or "1")
    replay_file = None
    if len(argv) >= 3 and argv[1] == "--replay":
        replay_file = argv[2]
        tier = "quick"
    else:
        tier = argv[1] if len(argv) > 1 else os.environ.get("VERIF_TIER", "quick")
    if tier not in ("quick", "thorough"):
        log("tier must be quick|thorough")
        return 2

    t0 = time.time()
    results = []
    if replay_file:
        with open(replay_file) as f:
            rp = json.load(f)
        eng = next(e for e in spec["engines"] if e.get("tag", e["bin"]) == rp["engine"])
        results.append(run_engine(pid, eng, tier, rp.get("seed", seed), extra_args=rp["argv"], replay=True))
    else:
        for eng in spec["engines"]:
            if tier not in eng.get("tiers", ("quick", "thorough")):
                continue
            results.append(run_engine(pid, eng, tier, seed))
    wall = time.time() - t0

    known = [k for k in load_known() if k["property"] == pid]
    known_active = {k["signature"]: k for k in known if k["status"] == "known"}

    evaluations = sum(r.get("evaluations", 0) for r in results)
    distinct = sum(r.get("distinct_nontrivial", 0) for r in results)
    samples = []
    extra = {}
    assumptions = list(spec.get("assumptions", []))
    rules = []
    inconclusive = []
    harness_errors = []
    exhaustive = None
    viols = []
    for r in results:
        tag = r["_engine"]
        for s in r.get("samples", [])[:6]:
            samples.append({"engine": tag, "case": s})
        for k, v in r.get("extra", {}).items():
            extra["%s.%s" % (tag, k) if len(results) > 1 else k] = v
        for a in r.get("assumptions", []):
            if a not in assumptions:
                assumptions.append(a)
        if r.get("rule"):
            rules.append(("[%s] " % tag if len(results) > 1 else "") + r["rule"])
        if "exhaustive" in r:
            exhaustive = r["exhaustive"] if exhaustive is None else (exhaustive and r["exhaustive"])
        inconclusive += ["[%s] %s" % (tag, x) for x in r.get("inconclusive", [])]
        harness_errors += ["[%s] %s" % (tag, x) for x in r.get("harness_errors", [])]
        for v in r.get("violations", []):
            v["_engine"] = tag
            v["_seed"] = seed
            viols.append(v)
        extra["wall_s.%s" % tag] = round(r["_wall"], 2)

    # minimum observation thresholds: fewer events than this is "inconclusive", never "held"
    if not replay_file:
        for key, mn in spec.get("min", {}).get(tier, {}).items():
            if key == "evaluations":
                have = evaluations
            elif key == "distinct_nontrivial":
                have = distinct
            else:
                have = sum(v for k, v in extra.items() if (k == key or k.endswith("." + key)) and isinstance(v, (int, float)))
            if have < mn:
                inconclusive.append("observed %s=%s < required minimum %s" % (key, have, mn))

    unlisted = []
    listed = []
    for v in viols:
        if v["sig"] in known_active:
            listed.append(v)
        else:
            unlisted.append(v)

    os.makedirs(REPLAYS, exist_ok=True)
    agg = {}
    for v in listed:
        agg[v["sig"]] = agg.get(v["sig"], 0) + v["count"]
    for sig, cnt in agg.items():
        print("KNOWN-FINDING: property=%s %s [%s] (%d occurrence(s) this run)" % (pid, known_active[sig]["what"], sig, cnt))
    rc = 0
    for v in unlisted:
        path = os.path.join(REPLAYS, "%s-%s-seed%d.json" % (pid, slug(v["sig"]), seed))
        with open(path, "w") as f:
            json.dump({"property": pid, "sig": v["sig"], "what": v["what"], "engine": v["_engine"], "seed": seed,
                       "argv": v.get("replay", []), "example": v.get("example"), "count": v["count"]}, f, indent=1)
        print("VIOLATION property=%s replay=%s" % (pid, path))
        print("  signature=%s count=%d: %s" % (v["sig"], v["count"], v["what"]))
        rc = 1
    if harness_errors:
        for h in harness_errors[:10]:
            print("HARNESS-ERROR property=%s %s" % (pid, h))
        if rc == 0:
            rc = 3
    if inconclusive and rc == 0:
        for w in inconclusive[:10]:
            print("INCONCLUSIVE property=%s reason=%s" % (pid, w))
        rc = 3

    verdict = {0: "held on what was observed", 1: "violated", 3: "inconclusive"}[rc]
    if not replay_file:
        coverage = {
            "evaluations": evaluations,
            "distinct_nontrivial": distinct,
            "rule": " || ".join(rules),
            "samples": samples[:12],
        }
        if exhaustive is not None:
            coverage["exhaustive"] = exhaustive
        coverage.update(extra)
        coverage["known_findings_reported"] = [{"sig": v["sig"], "count": v["count"]} for v in listed]
        coverage["unlisted_violations"] = [{"sig": v["sig"], "count": v["count"], "what": v["what"]} for v in unlisted]
        coverage["inconclusive_reasons"] = inconclusive[:20]
        coverage["verdict"] = verdict
        ev = {
            "property_id": pid,
            "tier": tier,
            "seed": seed,
            "level": spec["level"],
            "coverage": coverage,
            "assumptions": assumptions,
            "wall_s": round(wall, 2),
            "violations": len(unlisted),
        }
        os.makedirs(EVID, exist_ok=True)
        with open(os.path.join(EVID, "%s.json" % pid), "w") as f:
            json.dump(ev, f, indent=1, sort_keys=False)
            f.write("\n")
    print("%s property=%s tier=%s seed=%d evaluations=%d distinct_nontrivial=%d wall=%.1fs -> %s" % (
        "RESULT", pid, tier, seed, evaluations, distinct, wall, verdict))
    return rc

"""C14: generated Rust programs exercising derive(FromJson, IntoJson), json_map! and json!.

Macro expansion is code generation, so the executions to observe are those of generated programs compiled
against the working tree. Each program carries its own monitors (soft assertions that count and report)
and prints a summary line; this module generates the programs, builds and runs them, and aggregates.
"""
import json
import os
import random
import re
import shutil
import subprocess
import time

INT_TYPES = {
    "u8": (0, 255), "i8": (-128, 127), "u16": (0, 65535), "i16": (-32768, 32767),
    "u32": (0, 2**32 - 1), "i32": (-2**31, 2**31 - 1),
    "u64": (0, 2**53), "i64": (-2**53, 2**53), "usize": (0, 2**53), "isize": (-2**53, 2**53),
    "u128": (0, 2**53), "i128": (-2**53, 2**53),
}
RENAMES = ["plain", "with space", "qu\"ote", "back\\slash", "sl/ash", "ünï€", "日本", "😀", "a.b", "a:b", "{x}", "[y]", "tab\there",
           "", "new\nline", "null", "true", "0", " lead", "trail "]


def rust_str(s):
    out = []
    for ch in s:
        o = ord(ch)
        if ch == '"':
            out.append('\\"')
        elif ch == "\\":
            out.append("\\\\")
        elif 0x20 <= o < 0x7f:
            out.append(ch)
        else:
            out.append("\\u{%x}" % o)
    return '"' + "".join(out) + '"'


def json_text_str(s):
    return json.dumps(s, ensure_ascii=True)


class Gen:
    def __init__(self, rng):
        self.r = rng
        self.types = []   # list of dict(name, kind, fields/variants)

    # ---------------------------------------------------------------- types
    def field_type(self, depth=0):
        r = self.r
        k = r.random()
        if k < 0.10:
            return ("bool",)
        if k < 0.40:
            return ("int", r.choice(list(INT_TYPES)))
        if k < 0.50:
            return ("f64",)
        if k < 0.55:
            return ("f32",)
        if k < 0.70:
            return ("string",)
        if k < 0.80 and depth < 2:
            inner = self.field_type(depth + 1)
            if inner[0] == "option":
                inner = ("string",)
            return ("option", inner)
        if k < 0.90 and depth < 2:
            return ("vec", self.field_type(depth + 1))
        if self.types:
            return ("named", r.randrange(len(self.types)))
        return ("string",)

    def rust_type(self, t):
        k = t[0]
        if k == "bool":
            return "bool"
        if k == "int":
            return t[1]
        if k in ("f64", "f32"):
            return k
        if k == "string":
            return "String"
        if k == "option":
            return "Option<%s>" % self.rust_type(t[1])
        if k == "vec":
            return "Vec<%s>" % self.rust_type(t[1])
        return self.types[t[1]]["name"]

    def gen_types(self):
        r = self.r
        n = r.randint(1, 6)
        for i in range(n):
            kind = r.choice(["struct", "struct", "tuple", "enum", "map"])
            name = "T%d" % i
            if kind in ("struct", "map"):
                nf = r.randint(1, 8)
                keys = r.sample(RENAMES, nf)
                fields = []
                for j in range(nf):
                    rename = keys[j] if (kind == "map" or r.random() < 0.5) else None
                    fields.append({"ident": "f%d" % j, "type": self.field_type(), "rename": rename})
                self.types.append({"name": name, "kind": kind, "fields": fields})
            elif kind == "tuple":
                nf = r.randint(1, 6)
                self.types.append({"name": name, "kind": kind, "fields": [{"type": self.field_type()} for _ in range(nf)]})
            else:
                nv = r.randint(1, 8)
                keys = r.sample(RENAMES, nv)
                self.types.append({"name": name, "kind": kind, "variants": [{"ident": "V%d" % j, "rename": keys[j] if r.random() < 0.5 else None} for j in range(nv)]})
        # boundary arities in every program: derive code often special-cases a single field / variant
        base = len(self.types)
        self.types.append({"name": "T%d" % base, "kind": "tuple", "fields": [{"type": self.field_type()}]})
        self.types.append({"name": "T%d" % (base + 1), "kind": "struct", "fields": [{"ident": "f0", "type": self.field_type(), "rename": r.choice([None, r.choice(RENAMES)])}]})
        self.types.append({"name": "T%d" % (base + 2), "kind": "enum", "variants": [{"ident": "V0", "rename": r.choice([None, r.choice(RENAMES)])}]})
        self.types.append({"name": "T%d" % (base + 3), "kind": "map", "fields": [{"ident": "f0", "type": self.field_type(), "rename": r.choice(RENAMES)}]})
        # renames that differ only in leading / trailing white space, next to their trimmed siblings
        edge = [" lead", "lead", "trail ", "trail", "\ttab", "tab", " ", "", "nbsp\u00a0", "nbsp", "\nnl\n", "nl"]
        self.types.append({"name": "T%d" % (base + 4), "kind": "enum", "cover_all": True, "variants": [{"ident": "V%d" % j, "rename": edge[j]} for j in range(len(edge))]})
        # a struct all of whose fields are optional, and holders of an OPTIONAL such struct (None must stay None)
        self.types.append({"name": "T%d" % (base + 5), "kind": "struct", "fields": [{"ident": "f0", "type": ("option", ("bool",)), "rename": None}, {"ident": "f1", "type": ("option", ("string",)), "rename": r.choice([None, "o p t"])}]})
        self.types.append({"name": "T%d" % (base + 6), "kind": "struct", "cover_none": True, "fields": [{"ident": "f0", "type": ("option", ("named", base + 5)), "rename": None}, {"ident": "f1", "type": ("vec", ("option", ("named", base + 5))), "rename": None}]})
        self.types.append({"name": "T%d" % (base + 7), "kind": "tuple", "cover_none": True, "fields": [{"type": ("option", ("named", base + 5))}, {"type": ("option", ("named", base + 4))}]})
        # an enum in which only SOME variants are renamed (the decision is per variant), one rename equal to a sibling's identifier
        self.types.append({"name": "T%d" % (base + 8), "kind": "enum", "cover_all": True, "variants": [{"ident": "V0", "rename": "y"}, {"ident": "V1", "rename": None}, {"ident": "V2", "rename": "V1x"}, {"ident": "V3", "rename": None}]})
        # member names that differ only in letter case are different members
        self.types.append({"name": "T%d" % (base + 9), "kind": "struct", "cover_case": True, "fields": [{"ident": "f0", "type": ("int", "i32"), "rename": "id"}, {"ident": "f1", "type": ("int", "i32"), "rename": "ID"}, {"ident": "f2", "type": ("option", ("int", "i32")), "rename": "Id"}, {"ident": "f3", "type": ("string",), "rename": "x"}, {"ident": "f4", "type": ("string",), "rename": "X"}]})
        self.types.append({"name": "T%d" % (base + 10), "kind": "map", "cover_case": True, "fields": [{"ident": "f0", "type": ("int", "i32"), "rename": "key"}, {"ident": "f1", "type": ("int", "i32"), "rename": "KEY"}]})

        # JSON names that are the Rust identifiers of the OTHER fields (the mapping is by declared name only)
        self.types.append({"name": "T%d" % (base + 11), "kind": "map", "cover_swap": True, "fields": [{"ident": "f0", "type": ("int", "i32"), "rename": "f1"}, {"ident": "f1", "type": ("int", "i32"), "rename": "f0"}]})
        self.types.append({"name": "T%d" % (base + 12), "kind": "struct", "cover_swap": True, "fields": [{"ident": "f0", "type": ("int", "i32"), "rename": "f1"}, {"ident": "f1", "type": ("int", "i32"), "rename": "f0"}, {"ident": "f2", "type": ("int", "i32"), "rename": None}]})

    def decl(self, t):
        if t["kind"] in ("struct", "map"):
            derive = "#[derive(FromJson, IntoJson, PartialEq, Debug, Clone)]" if t["kind"] == "struct" else "#[derive(PartialEq, Debug, Clone)]"
            lines = [derive, "struct %s {" % t["name"]]
            for f in t["fields"]:
                if t["kind"] == "struct" and f["rename"] is not None:
                    lines.append("    #[rename = %s]" % rust_str(f["rename"]))
                lines.append("    %s: %s," % (f["ident"], self.rust_type(f["type"])))
            lines.append("}")
            if t["kind"] == "map":
                lines.append("json_map! { %s, %s }" % (t["name"], ", ".join("%s => %s" % (f["ident"], rust_str(f["rename"])) for f in t["fields"])))
            return "\n".join(lines)
        if t["kind"] == "tuple":
            return "#[derive(FromJson, IntoJson, PartialEq, Debug, Clone)]\nstruct %s(%s);" % (t["name"], ", ".join(self.rust_type(f["type"]) for f in t["fields"]))
        lines = ["#[derive(FromJson, IntoJson, PartialEq, Debug, Clone)]", "enum %s {" % t["name"]]
        for v in t["variants"]:
            if v["rename"] is not None:
                lines.append("    #[rename = %s]" % rust_str(v["rename"]))
            lines.append("    %s," % v["ident"])
        lines.append("}")
        return "\n".join(lines)

    # ---------------------------------------------------------------- values: (rust constructor, expected Value constructor)
    def gen_string(self):
        r = self.r
        n = r.choice([0, 1, 2, 5, 12])
        pool = "abcXYZ019 \t\n\"\\/{}[]:,éü€日😀\x00\x1f\x7f"
        return "".join(r.choice(pool) for _ in range(n))

    def value(self, t, wide=False):
        r = self.r
        k = t[0]
        if k == "bool":
            b = r.random() < 0.5
            return ("true" if b else "false", "Value::Bool(%s)" % ("true" if b else "false"))
        if k == "int":
            lo, hi = INT_TYPES[t[1]]
            if wide:
                full = {"u64": (0, 2**64 - 1), "i64": (-2**63, 2**63 - 1), "u128": (0, 2**128 - 1), "i128": (-2**127, 2**127 - 1), "usize": (0, 2**64 - 1), "isize": (-2**63, 2**63 - 1)}
                lo, hi = full.get(t[1], (lo, hi))
            v = r.choice([lo, hi, 0, 1, r.randint(lo, hi), r.randint(lo, hi)])
            lit = "%d_%s" % (v, t[1]) if v >= 0 else "(%d_%s)" % (v, t[1])
            return (lit, "Value::Number(%s as f64)" % lit)
        if k == "f64":
            v = r.choice([0.0, -0.0, 1.5, -2.25, 1e300, 5e-324, 2.2250738585072014e-308, 1.7976931348623157e308, 0.1, r.uniform(-1e6, 1e6), r.random() * 10 ** r.randint(-300, 300)])
            lit = "%s_f64" % repr(float(v))
            if lit.startswith("-"):
                lit = "(%s)" % lit
            return (lit, "Value::Number(%s)" % lit)
        if k == "f32":
            v = r.choice([0.0, 1.5, -2.25, 0.5, 1024.0, 3.0e10, r.randint(-1000, 1000) / 8.0])
            lit = "%s_f32" % repr(float(v))
            if lit.startswith("-"):
                lit = "(%s)" % lit
            return (lit, "Value::Number(%s as f64)" % lit)
        if k == "string":
            s = self.gen_string()
            return ("%s.to_string()" % rust_str(s), "Value::String(%s.to_string())" % rust_str(s))
        if k == "option":
            if r.random() < 0.35:
                return ("None", "Value::Null")
            a, b = self.value(t[1], wide)
            return ("Some(%s)" % a, b)
        if k == "vec":
            n = r.choice([0, 1, 2, 4])
            items = [self.value(t[1], wide) for _ in range(n)]
            return ("vec![%s]" % ", ".join(i[0] for i in items) if n else "Vec::<%s>::new()" % self.rust_type(t[1]), "Value::Array(vec![%s])" % ", ".join(i[1] for i in items))
        return self.type_value(self.types[t[1]], wide)

    def type_value(self, t, wide=False):
        if t["kind"] in ("struct", "map"):
            vals = [(f, self.value(f["type"], wide)) for f in t["fields"]]
            ctor = "%s { %s }" % (t["name"], ", ".join("%s: %s" % (f["ident"], v[0]) for f, v in vals))
            exp = "Value::Object(vec![%s])" % ", ".join("(%s.to_string(), %s)" % (rust_str(f["rename"] if f["rename"] is not None else f["ident"]), v[1]) for f, v in vals)
            return (ctor, exp)
        if t["kind"] == "tuple":
            vals = [self.value(f["type"], wide) for f in t["fields"]]
            return ("%s(%s)" % (t["name"], ", ".join(v[0] for v in vals)), "Value::Array(vec![%s])" % ", ".join(v[1] for v in vals))
        v = self.r.choice(t["variants"])
        return ("%s::%s" % (t["name"], v["ident"]), "Value::String(%s.to_string())" % rust_str(v["rename"] if v["rename"] is not None else v["ident"]))

    # ---------------------------------------------------------------- json! literals: (macro tokens, JSON text)
    def literal(self, depth, budget):
        r = self.r
        k = r.random()
        if depth >= 6 or budget[0] <= 0 or k < 0.45:
            budget[0] -= 1
            c = r.random()
            if c < 0.22:
                return ("null", "null")
            if c < 0.34:
                b = r.random() < 0.5
                return ("true" if b else "false", "true" if b else "false")
            if c < 0.50:
                n = r.choice([0, 1, -1, 42, 65535, -70000, 2**31])
                return (str(n) if abs(n) < 2**31 else "%d_i64" % n, str(n))
            if c < 0.58:
                return ("1.5", "1.5")
            if c < 0.74:
                s = self.gen_string()
                return (rust_str(s), json_text_str(s))
            if c < 0.82:
                return ("1 + 2", "3")
            if c < 0.88:
                s = self.gen_string()
                return ("%s.to_string()" % rust_str(s), json_text_str(s))
            if c < 0.92:
                return ("Some(7)", "7")
            if c < 0.96:
                return ("Option::<i32>::None", "null")
            return ("vec![1, 2, 3]", "[1,2,3]")
        if k < 0.75:
            n = r.choice([0, 1, 2, 3, 5, 9])
            items = [self.literal(depth + 1, budget) for _ in range(n)]
            trail = "," if n and r.random() < 0.3 else ""
            return ("[%s%s]" % (", ".join(i[0] for i in items), trail), "[%s]" % ",".join(i[1] for i in items))
        n = r.choice([0, 1, 2, 3, 5])
        items = [(self.gen_string() or "k", self.literal(depth + 1, budget)) for _ in range(n)]
        trail = "," if n and r.random() < 0.3 else ""

        def key_tokens(k_):
            # a key is one token tree: a string literal, or an expression - a constant, a variable, a parenthesised
            # expression (seeded C14-K); HV_KEY_CONST / hv_key_var are declared by the program around every literal
            c = r.random()
            if c < 0.70:
                return rust_str(k_), k_
            if c < 0.80:
                return "HV_KEY_CONST", HV_KEY_CONST
            if c < 0.90:
                return "hv_key_var", HV_KEY_VAR
            return "(format!(\"{}{}\", %s, 1 + 1))" % rust_str(k_), k_ + "2"
        keyed = [(key_tokens(k_), v) for k_, v in items]
        return ("{%s%s}" % (", ".join("%s: %s" % (kt[0], v[0]) for kt, v in keyed), trail), "{%s}" % ",".join("%s:%s" % (json_text_str(kt[1]), v[1]) for kt, v in keyed))


HV_KEY_CONST = "key const"
HV_KEY_VAR = "key\"var"

PRELUDE = '''// generated by /verif/driver/c14gen.py - do not edit
#![allow(dead_code, unused_imports, clippy::all)]
use humphrey_json::prelude::*;
use humphrey_json::Value;

static mut CHECKS: u64 = 0;
static mut FAILS: u64 = 0;

const HV_KEY_CONST: &str = "key const";

#[derive(FromJson, IntoJson, PartialEq, Debug, Clone)]
struct HvRow {
    id: u32,
    tags: Vec<String>,
}

#[derive(FromJson, IntoJson, PartialEq, Debug, Clone)]
struct HvTable {
    rows: Vec<HvRow>,
    grid: Vec<Vec<i32>>,
    gaps: Vec<Option<Vec<bool>>>,
}

/// Documents with many empty containers, through the typed mapping and the text (seeded C14-L).
fn tables() {
    for n in [0usize, 1, 2, 100, 253, 254, 255, 256, 257, 300, 1000] {
        for filled in [false, true] {
            let t = HvTable {
                rows: (0..n).map(|i| HvRow { id: i as u32, tags: if filled && i % 3 == 0 { vec!["t".to_string()] } else { vec![] } }).collect(),
                grid: (0..n).map(|i| if filled && i % 5 == 0 { vec![i as i32] } else { vec![] }).collect(),
                gaps: (0..n / 2).map(|i| if i % 2 == 0 { Some(vec![]) } else { None }).collect(),
            };
            let j = t.to_json();
            let expected = Value::Object(vec![
                ("rows".to_string(), Value::Array(t.rows.iter().map(|r| Value::Object(vec![("id".to_string(), Value::Number(r.id as f64)), ("tags".to_string(), Value::Array(r.tags.iter().map(|s| Value::String(s.clone())).collect()))])).collect())),
                ("grid".to_string(), Value::Array(t.grid.iter().map(|g| Value::Array(g.iter().map(|x| Value::Number(*x as f64)).collect())).collect())),
                ("gaps".to_string(), Value::Array(t.gaps.iter().map(|g| match g { Some(v) => Value::Array(v.iter().map(|b| Value::Bool(*b)).collect()), None => Value::Null }).collect())),
            ]);
            check(j == expected, "shape:table", &format!("table of {} rows (filled: {}): shape differs", n, filled));
            check(HvTable::from_json(&j).ok().as_ref() == Some(&t), "roundtrip-value:table", &format!("table of {} rows (filled: {}): from_json(to_json(t)) != t", n, filled));
            let s = humphrey_json::to_string(&t);
            check(humphrey_json::from_str::<HvTable, _>(&s).ok().as_ref() == Some(&t), "roundtrip-text:table", &format!("table of {} rows (filled: {}), {} bytes of text with {} empty arrays: from_str(to_string(t)) = {:?}", n, filled, s.len(), s.matches("[]").count(), humphrey_json::from_str::<HvTable, _>(&s).err()));
            let p = humphrey_json::to_string_pretty(&t);
            check(humphrey_json::from_str::<HvTable, _>(&p).ok().as_ref() == Some(&t), "roundtrip-pretty:table", &format!("table of {} rows (filled: {}): from_str(to_string_pretty(t)) != t", n, filled));
        }
    }
}

fn check(ok: bool, class: &str, detail: &str) {
    unsafe {
        CHECKS += 1;
        if !ok {
            FAILS += 1;
            if FAILS <= 40 {
                println!("HV14-FAIL\\t{}\\t{}", class, detail.replace('\\n', " ").chars().take(300).collect::<String>());
            }
        }
    }
}
'''


def gen_program(seed, index, nvalues, nliterals, wide=False):
    rng = random.Random(seed * 1000003 + index)
    g = Gen(rng)
    g.gen_types()
    out = [PRELUDE]
    for t in g.types:
        out.append(g.decl(t))
        out.append("")
    out.append("fn main() {")
    out.append("    tables();")
    nv = 0
    # coverage values first: every variant of the enums marked cover_all, and all-None values of the holders
    forced = []
    for t in g.types:
        if t.get("cover_all"):
            for v in t["variants"]:
                forced.append((t, ("%s::%s" % (t["name"], v["ident"]), "Value::String(%s.to_string())" % rust_str(v["rename"] if v["rename"] is not None else v["ident"]))))
        if t.get("cover_none") and t["kind"] == "struct":
            inner = g.types[t["fields"][0]["type"][1][1]]
            some_empty = "%s { f0: None, f1: None }" % inner["name"]
            k1 = rust_str(inner["fields"][1]["rename"] if inner["fields"][1]["rename"] is not None else "f1")
            exp_empty = "Value::Object(vec![(\"f0\".to_string(), Value::Null), (%s.to_string(), Value::Null)])" % k1
            forced.append((t, ("%s { f0: None, f1: vec![None, Some(%s), None] }" % (t["name"], some_empty), "Value::Object(vec![(\"f0\".to_string(), Value::Null), (\"f1\".to_string(), Value::Array(vec![Value::Null, %s, Value::Null]))])" % exp_empty)))
        if t.get("cover_case"):
            if len(t["fields"]) == 5:
                forced.append((t, ("%s { f0: 7, f1: 4242, f2: None, f3: \"lower\".to_string(), f4: \"UPPER\".to_string() }" % t["name"], "Value::Object(vec![(\"id\".to_string(), Value::Number(7.0)), (\"ID\".to_string(), Value::Number(4242.0)), (\"Id\".to_string(), Value::Null), (\"x\".to_string(), Value::String(\"lower\".to_string())), (\"X\".to_string(), Value::String(\"UPPER\".to_string()))])")))
            else:
                forced.append((t, ("%s { f0: 1, f1: 2 }" % t["name"], "Value::Object(vec![(\"key\".to_string(), Value::Number(1.0)), (\"KEY\".to_string(), Value::Number(2.0))])")))
        if t.get("cover_swap"):
            if len(t["fields"]) == 2:
                forced.append((t, ("%s { f0: 1, f1: 2 }" % t["name"], "Value::Object(vec![(\"f1\".to_string(), Value::Number(1.0)), (\"f0\".to_string(), Value::Number(2.0))])")))
        if t.get("cover_none") and t["kind"] == "tuple":
            forced.append((t, ("%s(None, None)" % t["name"], "Value::Array(vec![Value::Null, Value::Null])")))
    for vi in range(nvalues + len(forced)):
        if vi < len(forced):
            t, (ctor, exp) = forced[vi]
        else:
            t = rng.choice(g.types)
            ctor, exp = g.type_value(t, wide)
        tn = t["name"]
        out.append("    {")
        out.append("        let v: %s = %s;" % (tn, ctor))
        out.append("        let expected: Value = %s;" % exp)
        out.append("        let j = v.to_json();")
        cls = ("int-beyond-2^53:" if wide else "") + t["kind"]
        out.append("        check(j == expected, \"%sshape:%s\", &format!(\"{:?} gave {:?}, documented shape is {:?}\", v, j, expected));" % ("", cls))
        out.append("        check(%s::from_json(&j).ok().as_ref() == Some(&v), \"roundtrip-value:%s\", &format!(\"from_json(to_json({:?})) = {:?}\", v, %s::from_json(&j)));" % (tn, cls, tn))
        out.append("        let s = humphrey_json::to_string(&v);")
        out.append("        check(humphrey_json::from_str::<%s, _>(&s).ok().as_ref() == Some(&v), \"roundtrip-text:%s\", &format!(\"from_str({}) != {:?}\", s, v));" % (tn, cls))
        out.append("        let p = humphrey_json::to_string_pretty(&v);")
        out.append("        check(humphrey_json::from_str::<%s, _>(&p).ok().as_ref() == Some(&v), \"roundtrip-pretty:%s\", &format!(\"from_str(pretty) != {:?}\", v));" % (tn, cls))
        out.append("    }")
        nv += 1
    nl = 0
    for li in range(nliterals):
        budget = [40]
        tok, text = g.literal(0, budget)
        out.append("    {")
        out.append("        let hv_key_var = String::from(%s);" % rust_str(HV_KEY_VAR))
        out.append("        let _ = &hv_key_var;")
        out.append("        let lit: Value = json!(%s);" % tok)
        out.append("        let parsed = Value::parse(%s);" % rust_str(text))
        out.append("        check(parsed.as_ref().ok() == Some(&lit), \"json-macro\", &format!(\"json!({}) = {:?} but the text parses to {:?}\", %s, lit, parsed));" % rust_str(tok[:120]))
        out.append("    }")
        nl += 1
    out.append("    unsafe { println!(\"HV14-SUMMARY\\tchecks={}\\tfails={}\\tvalues=%d\\tliterals=%d\\ttypes=%d\", CHECKS, FAILS); }" % (nv, nl, len(g.types)))
    out.append("    unsafe { if FAILS > 0 { std::process::exit(1); } }")
    out.append("}")
    desc = {"types": [{"name": t["name"], "kind": t["kind"], "fields": len(t.get("fields", t.get("variants", [])))} for t in g.types], "values": nv, "literals": nl}
    return "\n".join(out) + "\n", desc


def run(pid, tier, seed, work):
    t0 = time.time()
    thorough = tier == "thorough"
    nprog = 48 if thorough else 4
    nvalues = 250
    nliterals = 150
    crate = os.path.join(work, "c14", "gen")
    shutil.rmtree(crate, ignore_errors=True)
    os.makedirs(os.path.join(crate, "src", "bin"))
    with open(os.path.join(crate, "Cargo.toml"), "w") as f:
        f.write('[package]\nname = "c14gen"\nversion = "0.0.0"\nedition = "2021"\n\n[dependencies]\nhumphrey_json = { path = "/repo/humphrey-json" }\n\n[workspace]\n\n[profile.dev]\ndebug = false\nopt-level = 0\nincremental = false\n')
    shutil.copy("/repo/Cargo.lock", os.path.join(crate, "Cargo.lock"))
    descs = {}
    for i in range(nprog):
        src, desc = gen_program(seed, i, nvalues, nliterals)
        with open(os.path.join(crate, "src", "bin", "p%d.rs" % i), "w") as f:
            f.write(src)
        descs["p%d" % i] = desc
    # the documented limitation probe: full-range 64/128-bit integers
    src, desc = gen_program(seed, 9999, 60, 0, wide=True)
    with open(os.path.join(crate, "src", "bin", "wide.rs"), "w") as f:
        f.write(src)
    env = dict(os.environ)
    env.update({"CARGO_NET_OFFLINE": "true", "CARGO_TARGET_DIR": os.path.join(work, "target-c14")})
    b = subprocess.run(["cargo", "build", "--offline", "--keep-going", "--bins"], cwd=crate, env=env, stdout=subprocess.PIPE, stderr=subprocess.PIPE, text=True)
    viols = {}
    herrs = []

    def add(sig, what, ex):
        e = viols.setdefault(sig, {"sig": sig, "what": what, "count": 0, "example": ex, "replay": []})
        e["count"] += 1

    checks = fails = values = literals = programs = 0
    distinct = 0
    samples = []
    bins = ["p%d" % i for i in range(nprog)] + ["wide"]
    for name in bins:
        exe = os.path.join(work, "target-c14", "debug", name)
        if not os.path.exists(exe) or (b.returncode != 0 and ("src/bin/%s.rs" % name) in b.stderr and "error" in b.stderr):
            # does the error originate in a macro of the library (a valid program rejected) or in the generator's own code?
            m = re.search(r"(error(\[E\d+\])?: [^\n]*\n(?:[^\n]*\n){0,12}?[^\n]*src/bin/%s\.rs[^\n]*\n(?:[^\n]*\n){0,12})" % name, b.stderr)
            snippet = m.group(1) if m else b.stderr[-1500:]
            if "json!" in snippet or "json_map!" in snippet or "derive" in snippet or "humphrey_json" in snippet:
                add("C14/valid-program-rejected", "a generated program inside the documented grammar does not compile (error inside a humphrey_json macro expansion)", {"program": name, "compiler": snippet[:1500]})
            else:
                herrs.append("generated program %s does not compile (generator fault?): %s" % (name, snippet[:600]))
            continue
        p = subprocess.run([exe], stdout=subprocess.PIPE, stderr=subprocess.PIPE, text=True, timeout=300)
        programs += 1
        summary = None
        for line in p.stdout.split("\n"):
            if line.startswith("HV14-FAIL\t"):
                _, cls, detail = (line.split("\t", 2) + ["", ""])[:3]
                if name == "wide" or cls.split(":")[0].startswith("int-beyond") or "int-beyond-2^53" in cls:
                    add("C14/int-beyond-2^53-via-f64", "64/128-bit integers beyond 2^53 do not survive the conversion to JSON and back (Value::Number is an f64)", {"program": name, "class": cls, "detail": detail})
                elif cls == "json-macro":
                    sig = "C14/json-array-null-drops-rest" if "null" in detail.split(" = ")[0] else "C14/json-macro-differs-from-text"
                    add(sig, "a json! literal evaluates to a different value than parsing the equivalent JSON text", {"program": name, "detail": detail})
                else:
                    add("C14/%s" % cls, "typed JSON mapping: %s" % cls, {"program": name, "detail": detail})
            elif line.startswith("HV14-SUMMARY"):
                summary = dict(kv.split("=") for kv in line.split("\t")[1:])
        if summary is None:
            if p.returncode != 0:
                add("C14/generated-program-crashed", "a generated program crashed (exit %s): %s" % (p.returncode, p.stderr[-300:]), {"program": name, "stderr": p.stderr[-800:]})
            else:
                herrs.append("program %s printed no summary" % name)
            continue
        if name != "wide":
            checks += int(summary["checks"])
            fails += int(summary["fails"])
            values += int(summary["values"])
            literals += int(summary["literals"])
            distinct += int(summary["values"]) + int(summary["literals"])
            if len(samples) < 2:
                samples.append({"program": name, "types": descs[name]["types"], "values": descs[name]["values"], "literals": descs[name]["literals"]})
        else:
            checks += int(summary["checks"])
    shutil.rmtree(crate, ignore_errors=True)
    res = {"evaluations": checks, "distinct_nontrivial": distinct,
           "rule": "generated Rust programs (1..6 types each: named structs 1..8 fields, tuple structs 1..6 fields, unit enums 1..8 variants, via derive and via json_map!; field types bool, all integer widths, f32, f64, String, Option<T>, Vec<T>, nested generated types; rename strings with blanks, quotes, backslashes, non-ASCII, JSON-special characters, empty) with 250 random values each: JSON shape vs an independently constructed Value, from_json(to_json(v)) == v, from_str(to_string(v)) == v, pretty round trip; 150 generated json! literals each (null/arrays/objects/expressions in every position incl. object keys given as constants, variables and parenthesised expressions, trailing commas, depth <= 6, <= 40 elements) vs Value::parse of the equivalent text; in every program also tables of 0..1000 rows whose vectors are empty or sparsely filled (up to ~2500 empty arrays per document) through shape, value, text and pretty round trips; plus one probe program with full-range 64/128-bit integers. evaluations = assertions executed inside the programs; distinct = values + literals",
           "samples": samples,
           "extra": {"programs_run": programs, "assertions_executed": checks, "assertion_failures": fails, "values_checked": values, "json_literals_checked": literals},
           "violations": list(viols.values()), "inconclusive": [], "harness_errors": herrs[:4],
           "assumptions": ["integers are drawn with |v| <= 2^53 for the verdict (Value::Number is an f64); the full-range probe documents the limitation as a known finding", "Option<Option<T>> is not generated (None and Some(None) both map to null by construction)"],
           "_engine": "programs", "_wall": time.time() - t0, "_stderr_tail": b.stderr[-300:]}
    return res

#!/usr/bin/env python3
"""Regenerate /verif/MANIFEST.json from driver/props.py (single source of truth)."""
import json
import os
import subprocess
import sys

HERE = os.path.dirname(os.path.abspath(__file__))
sys.path.insert(0, HERE)
import props  # noqa: E402

ROOT = os.path.dirname(HERE)
ALL = ["C%02d" % i for i in range(1, 21)]


def main():
    hooks = subprocess.run(["git", "-C", "/repo", "log", "--format=%H %s", "--grep=^verif hook"], stdout=subprocess.PIPE, text=True).stdout.split("\n")
    hook_commits = [h.split(" ")[0] for h in hooks if h.strip()]
    checks = []
    for pid in ALL:
        if pid not in props.PROPS:
            continue
        s = props.PROPS[pid]
        c = {
            "property_id": pid,
            "quick_cmd": "./run %s quick" % pid,
            "thorough_cmd": "./run %s thorough" % pid,
            "evidence_file": "/verif/evidence/%s.json" % pid,
            "replay_cmd_template": "./run %s --replay {path}" % pid,
            "engine": "+".join(e.get("tag", e["bin"]) for e in s["engines"]),
            "level_claimed": {"category": s["level"], "text": s["level_text"], "design_ref": s.get("design_ref", "DESIGN.md section 4, " + pid)},
            "level_note": s["level_note"],
            "technique": s["technique"],
        }
        checks.append(c)
    na = [{"property_id": p, "reason": props.NOT_CLAIMED.get(p, "check not built yet in this session; no claim is made")} for p in ALL if p not in props.PROPS]
    m = {
        "version": 1,
        "setup_cmd": "./run --setup",
        "hooks": {
            "guard": "cargo feature `verif` (crates humphrey and humphrey_ws), off by default",
            "enable": "harness crates under /verif/hv depend on /repo/humphrey and /repo/humphrey-ws by path with features=[\"verif\"]",
            "baseline_off_cmd": "cd /repo && cargo test --workspace --no-fail-fast --offline",
            "source_commits": hook_commits,
            "add_only": True,
        },
        "engines": [
            {"name": "hv", "path": "/verif/hv/sync", "serves_properties": [p for p in ALL if p in props.PROPS and any(e["bin"] == "hv" for e in props.PROPS[p]["engines"])], "kind_free_text": "Rust harness binary linking the threaded build of the working tree; generators, monitors, reference oracles"},
            {"name": "hvt", "path": "/verif/hv/tok", "serves_properties": [p for p in ALL if p in props.PROPS and any(e["bin"] == "hvt" for e in props.PROPS[p]["engines"])], "kind_free_text": "tokio twin of hv (humphrey built with feature tokio)"},
            {"name": "hvm", "path": "/verif/hv/miri", "serves_properties": [p for p in ALL if p in props.PROPS and any(e["bin"] == "hvm" for e in props.PROPS[p]["engines"])], "kind_free_text": "socket-free scenarios interpreted by Miri (seeded schedules, deadlock/UB/data-race detection)"},
            {"name": "cpython", "path": "/verif/driver/pyoracles.py", "serves_properties": [p for p in ALL if p in props.PROPS and any(e["bin"] == "py" for e in props.PROPS[p]["engines"])], "kind_free_text": "CPython stdlib cross-validators for the harness's reference oracles"},
        ],
        "checks": checks,
        "not_applicable": na,
        "notes": "Technique family: runtime monitoring. Every check runs the real code of /repo's working tree (rebuilt on every invocation) under generated workloads while monitors observe; verdicts are violated / held on what was observed / inconclusive (exit 3). Known findings: /verif/KNOWN_FINDINGS.json.",
    }
    with open(os.path.join(ROOT, "MANIFEST.json"), "w") as f:
        json.dump(m, f, indent=1)
        f.write("\n")
    try:
        import jsonschema
        jsonschema.validate(m, json.load(open("/root/.vp/MANIFEST.schema.json")))
        print("MANIFEST.json valid;", len(checks), "checks,", len(na), "not claimed")
    except ImportError:
        print("MANIFEST.json written (jsonschema not importable here)")


if __name__ == "__main__":
    main()

"""Property table: which engines decide which property, claimed level, observation minima."""

PROPS = {
    "C05": {
        "level": "exploration",
        "engines": [
            {"bin": "hv", "args": ["c05"]},
            {"bin": "py", "fn": "c05_xcheck", "tag": "cpython"},
        ],
        "min": {"quick": {"evaluations": 1_500_000, "nontrivial_matching": 100_000},
                "thorough": {"evaluations": 20_000_000}},
        "assumptions": [],
        "level_text": "Every (pattern, text) pair of the property's finite spaces is executed against the real matcher and compared with a DP reference (complete enumeration, so exhaustive for those spaces), plus seeded random long pairs; observed, not proved, beyond those spaces.",
        "level_note": "Trusted: the DP reference matcher (cross-validated each run against CPython re.fullmatch on ~25k pairs).",
        "technique": "runtime monitoring: reference-model oracle over bounded-exhaustive + random inputs",
    },
}

PROPS["C18"] = {
    "level": "exploration",
    "engines": [
        {"bin": "hv", "args": ["c18"]},
        {"bin": "py", "fn": "c18_xcheck", "tag": "cpython"},
    ],
    "min": {"quick": {"evaluations": 40_000_000, "date_cases": 5_000_000, "b64_decode_cases": 17_000_000},
            "thorough": {"evaluations": 45_000_000}},
    "assumptions": [],
    "level_text": "The four primitives are executed on the property's complete finite spaces (all byte pairs, all 2^24 Base64 groups, all 65^4 decode groups, all short percent strings, every day 1970-9999) and on random long inputs; every output is compared with an independent reference and a dumped sample (thorough: block digests of the complete date and Base64 spaces) with CPython.",
    "level_note": "Trusted: the Rust reference implementations in hvcommon (validated each run against CPython hashlib/base64/urllib.parse/datetime); RFC 4648 3.5 lets a decoder accept or reject non-canonical trailing bits, so both are allowed.",
    "technique": "runtime monitoring: differential oracle (independent reference + CPython) over bounded-exhaustive inputs",
}

PROPS["C13"] = {
    "level": "exploration",
    "engines": [
        {"bin": "hv", "args": ["c13"]},
        {"bin": "py", "fn": "c13_xcheck", "tag": "cpython"},
    ],
    "min": {"quick": {"evaluations": 1_500_000, "mutants_invalid": 10_000, "serialised_values": 10_000},
            "thorough": {"evaluations": 20_000_000}},
    "assumptions": [],
    "level_text": "Value::parse is executed on complete short-string spaces over three alphabets (characters, tokens, number symbols), boundary texts, nesting around the limit, generated documents and all their single-edit mutants; serialize/serialize_pretty on generated values over all of Unicode and the finite f64 range. Every verdict and value is compared with an independent RFC 8259 recogniser.",
    "level_note": "Trusted: the reference recogniser (cross-validated each run against CPython json.loads on a dumped sample, verdict and value); unpaired-surrogate escapes and numbers beyond f64 range are not judged.",
    "technique": "runtime monitoring: differential oracle (RFC 8259 recogniser) over bounded-exhaustive, mutated and generated inputs",
}

PROPS["C02"] = {
    "level": "exploration",
    "engines": [
        {"bin": "hv", "args": ["c02"]},
        {"bin": "hvt", "args": ["c02"]},
    ],
    "min": {"quick": {"requests": 2_500, "parses": 300_000, "requests_over_20_fields": 100, "requests_with_xff": 300, "timed_parses_faithful": 10, "aborted_parses_before_a_well_formed_one": 100_000},
            "thorough": {"requests": 50_000}},
    "assumptions": [],
    "level_text": "Generated well-formed requests are parsed by the real parser under every read plan (whole, bytewise, every split point, random multi-split) and compared field by field with the generating model; the serialisation is judged by a strict reference reader and re-parsed.",
    "level_note": "Trusted: the request generator/model (hvcommon::reqgen) and the strict HTTP reference reader (hvcommon::httpref).",
    "technique": "runtime monitoring: model-based oracle over generated inputs x read-segmentation plans, metamorphic round-trip",
}

PROPS["C03"] = {
    "level": "fault_enumeration",
    "engines": [
        {"bin": "hv", "args": ["c03"]},
        {"bin": "hvt", "args": ["c03"]},
    ],
    "min": {"quick": {"evaluations": 300_000, "truncation_cases": 3_000},
            "thorough": {"evaluations": 3_000_000}},
    "assumptions": [],
    "level_text": "Every parser is called on enumerated short strings over its protocol alphabet, every truncation of every seed message, structure-aware mutants (boundary/huge length fields, removed/doubled delimiters, multi-byte and invalid UTF-8 at every slicing position, deep nesting) and random bytes, inside isolated worker processes watched for panic (site), abort/stack overflow (signal), spinning, CPU exhaustion and allocation beyond a multiple of the bytes supplied.",
    "level_note": "Trusted: the kernel's process isolation, the harness's counting allocator and timers. The tokio request parser has its own enumeration twin (hvt c03).",
    "technique": "runtime monitoring: fault enumeration in isolated worker processes with panic/abort/CPU/allocation monitors",
}

PROPS["C10"] = {
    "level": "exploration",
    "engines": [
        {"bin": "hv", "args": ["c10"]},
    ],
    "min": {"quick": {"grid_frames": 4224, "header_cases": 131072, "decodes": 200_000},
            "thorough": {"grid_frames": 4224, "random_frames": 5000}},
    "assumptions": [],
    "level_text": "The crate's real frame serialiser and decoder (through the cfg-guarded wrapper) are executed on the complete grid of header-field combinations and length classes and on all 65536 two-byte headers; serialised bytes are compared with an independent RFC 6455 encoder and decoding is repeated under every split point of short frames and random splits of long ones.",
    "level_note": "Trusted: the reference codec in hvcommon::wsref; the hook is a thin data wrapper calling Frame::from_stream / From<Frame> for Vec<u8>.",
    "technique": "runtime monitoring: differential oracle (reference RFC 6455 codec) over a complete field grid x read-segmentation plans",
}

PROPS["C07"] = {
    "level": "exploration",
    "engines": [
        {"bin": "hv", "args": ["c07"]},
    ],
    "min": {"quick": {"serialised": 1500, "response_parses": 100_000, "client_exchanges": 300, "redirect_chains": 100, "exhaustive_chunkings": 190},
            "thorough": {"serialised": 30_000, "client_exchanges": 5000}},
    "assumptions": [],
    "level_text": "Responses built through the public API are serialised and judged by a strict HTTP reference reader; reference-generated server messages (every status code, Content-Length and chunked in all small chunkings) are parsed by the real response parser under exhaustive read plans; the real client is run against scripted loopback servers including redirect chains, with both the client's return value and the server's record checked.",
    "level_note": "Trusted: hvcommon::httpref / respgen and the scripted server. Port 80 of per-process 127.77.x.y addresses is used because the client's URL parser cannot name a port.",
    "technique": "runtime monitoring: reference-reader oracle on serialised bytes, model-based oracle on parser/client results, server-side event log",
}

PROPS["C06"] = {
    "level": "exploration",
    "engines": [
        {"bin": "hv", "args": ["c06"]},
        {"bin": "hvt", "args": ["c06"], "tag": "tokio"},
    ],
    "min": {"quick": {"named_pipe_requests": 200, "evaluations": 50_000, "files_served_intact": 1000, "redirects_301": 50, "availability_requests": 1000, "over_the_wire_files_intact": 30, "over_the_wire_host_alternations_served_from_own_directory": 30},
            "thorough": {"named_pipe_requests": 200, "evaluations": 1_000_000}},
    "assumptions": [],
    "level_text": "The three real handlers (threaded runtime) and the tokio runtime's serve_dir / serve_as_file_path are called in-process on generated directory trees with uniquely tagged file contents (a few bytes to 5 MiB) and canary files outside the root and named pipes inside it, for every file's own path and for all compositions of traversal/encoding segments to depth 3 (4 thorough); each response is judged by the confinement rule and by an independent resolver of the documented lookup rules.",
    "level_note": "Trusted: the harness's resolver (uses the file system as judge) and MIME table; no symlinks.",
    "technique": "runtime monitoring: canary/tag confinement monitor + reference-resolver oracle over bounded-exhaustive request paths",
}

PROPS["C17"] = {
    "level": "exploration",
    "engines": [
        {"bin": "hv", "args": ["c17"]},
    ],
    "min": {"quick": {"tokens_in_randomness_monitor": 4000, "signouts_through_a_route_handler_effective": 6, "sequences": 150, "operations": 3000, "token_probes": 6_000, "route_requests": 500, "sessions_expired_at_birth": 100},
            "thorough": {"tokens_in_randomness_monitor": 4000, "signouts_through_a_route_handler_effective": 6, "sequences": 2400}},
    "assumptions": [],
    "level_text": "Random operation sequences are executed on the real AuthProvider while a reference model is stepped alongside; every return value is compared and every token ever issued (and, when the user set changes, every password x uid) is probed after each step; the authenticated-route clause is observed on a real App over loopback (also with a handler that itself uses the provider), and the population of issued tokens is checked statistically for the variety 256 random bits give.",
    "level_note": "Trusted: the reference model in c17.rs. Expiry is made logical (lifetime 0 vs 3600 s), so no wall-clock decision is involved.",
    "technique": "runtime monitoring: model-based history checking with full-state probes after every operation",
}

PROPS["C16"] = {
    "level": "exploration",
    "engines": [
        {"bin": "hv", "args": ["c16"], "needs": ["server"]},
    ],
    "min": {"quick": {"requests_served_after_a_failed_read": 4, "exhaustive_sequences": 3_900_000, "concurrent_histories": 200, "concurrent_hits_checked": 1000, "handler_requests": 100, "real_sleeps": 2, "multi_host_answers_own_file": 150, "second_directory_route_answers_own_file": 150, "frequent_hit_requests_after_the_time_limit": 4},
            "thorough": {"requests_served_after_a_failed_read": 4, "exhaustive_sequences": 90_000_000}},
    "assumptions": [],
    "level_text": "Every operation sequence of length 4 (5 thorough; 6 thorough for the tightest configuration) over 3 keys x 2 hosts x 3 sizes is executed on the real Cache for 12 limit configurations with a shadow-map monitor probing all keys after every operation; long random sequences, concurrent histories through the RwLock (per-key interval check) and the two real handlers over changing files complete the picture.",
    "level_note": "Trusted: the shadow map and interval checker in c16.rs; the one-second cache clock bounds what can be said about staleness (limit + 1 s).",
    "technique": "runtime monitoring: shadow-state monitor over bounded-exhaustive operation sequences; offline interval (linearizability-style) check of concurrent histories",
}

PROPS["C15"] = {
    "level": "exploration",
    "engines": [
        {"bin": "hv", "args": ["c15"]},
    ],
    "min": {"quick": {"configs_with_an_included_file_over_64KiB": 80, "models": 450, "configs_loaded": 1300, "configs_with_includes": 200, "mutants": 3000, "syntax_errors_located": 1000},
            "thorough": {"configs_with_an_included_file_over_64KiB": 80, "models": 13_000}},
    "assumptions": [],
    "level_text": "Configurations are rendered from a model in several layouts (incl. include splitting) and loaded by the real parser; the resulting Config is compared field by field with the model, and every single-fault mutant must be rejected, syntax faults with the file name and line the generator knows.",
    "level_note": "Trusted: the model-to-expected-Config mapping in c15.rs (defaults table from the documentation).",
    "technique": "runtime monitoring: model-based oracle over generated configurations, metamorphic layouts, single-fault mutation with located-error check",
}

PROPS["C08"] = {
    "level": "exploration",
    "engines": [
        {"bin": "hv", "args": ["c08"]},
        {"bin": "py", "fn": "c08_miri", "tag": "miri"},
    ],
    "min": {"quick": {"scenario_runs": 800, "task_events_observed": 5000, "distinct_interleavings": 200, "lifecycle_scripts_seen": 9, "panic_subsets_of_4_tasks_seen": 16, "miri_scenario_runs": 60, "scenario_runs_with_monitor": 100, "monitor_events.overload": 50},
            "thorough": {"scenario_runs": 15_000, "distinct_interleavings": 2000}},
    "assumptions": [],
    "level_text": "Many executions of the real ThreadPool (process per scenario under seeded failpoint delay plans; small scenarios additionally under Miri's seeded scheduler) are observed through a task event log and the process's thread table; the number of distinct interleavings actually seen is reported. This is sampling of schedules with a sound oracle, not the systematic preemption-bounded enumeration the property's quantifier names.",
    "level_note": "Trusted: the event-log oracle in hv/shared/pool_scenario.rs, /proc thread table, Miri's deadlock and data-race detection. Failpoints only add delays between critical sections.",
    "technique": "runtime monitoring: event-log checker (exactly-once, overlap bound, N-party barrier) under failpoint-perturbed schedules; Miri interpreter for deadlock/data-race detection",
}

PROPS["C01"] = {
    "level": "exploration",
    "engines": [
        {"bin": "hv", "args": ["c01"]},
        {"bin": "hvt", "args": ["c01"]},
    ],
    "min": {"quick": {"idle_from_start_answered_408_and_closed": 4, "responses_judged": 1000, "keep_alive_continuations": 100, "closes_observed": 50, "malformed_answered_400": 20, "idle_answered_408": 4, "handler_logs_matched": 300, "panic_connections_closed": 10, "half_close_endings_silent": 50, "zero_request_connections_silent": 10, "big_responses_intact": 8, "queued_connections_answered": 6},
            "thorough": {"idle_from_start_answered_408_and_closed": 4, "responses_judged": 20_000}},
    "assumptions": [],
    "level_text": "Generated request scripts are played over real TCP connections against real Apps (threaded and tokio) under several segmentations, lock-step and pipelined; every byte received is parsed by a strict HTTP reference reader and compared with a reference model of the expected response sequence and connection disposition, and the handler-side log is compared with what was sent.",
    "level_note": "Trusted: hvcommon::httplab (model, player) and httpref; loopback TCP; generous logical deadlines whose expiry is inconclusive.",
    "technique": "runtime monitoring: client-side wire monitor + handler-side event log vs reference model, under segmentation/pipelining workloads",
}

PROPS["C20"] = {
    "level": "exploration",
    "engines": [
        {"bin": "hv", "args": ["c20"]},
        {"bin": "hvt", "args": ["c20"]},
    ],
    "min": {"quick": {"rejecting_condition_returns_and_rebinds_ok": 5, "fd_exhaustion_survived_and_serving": 10, "fd_exhaustion_signal_in_shortage_returns": 1, "fd_shortages_driven": 14, "served_after_resets_in_the_accept_queue": 40, "connections_reset_before_accept": 30, "scenarios": 180, "returns_observed": 180, "rebinds_ok": 180, "in_flight_responses_complete": 150},
            "thorough": {"rejecting_condition_returns_and_rebinds_ok": 5, "fd_exhaustion_survived_and_serving": 1, "scenarios": 1400}},
    "assumptions": [],
    "level_text": "Real Apps are started on loopback, put into generated traffic states (idle, half-sent, running handlers, large responses, WebSockets, occupied pools), signalled at varied instants with delays injected at the accept-loop failpoints, and observed: time until run returns, re-bind of the port, completeness of every in-flight response whose handler had started before the signal; plus connection conditions that are slow or reject everything, and transient descriptor exhaustion, once or several times in a row (run must not return before the signal, the server serves again, and a signal sent inside a shortage is honoured within 2 s).",
    "level_note": "Trusted: hvcommon::shutlab; the 10 s progress bound; loopback TCP.",
    "technique": "runtime monitoring: bounded-progress monitor + wire monitor of in-flight responses under generated traffic states and failpoint delays",
}

PROPS["C04"] = {
    "level": "exploration",
    "engines": [
        {"bin": "hv", "args": ["c04"]},
        {"bin": "hvt", "args": ["c04"]},
    ],
    "min": {"quick": {"keepalive_sequences_ending_in_upgrade": 1500, "apps": 1000, "answers_matching_reference": 20_000, "requests_matching_several_routes": 3000, "websocket_upgrades": 1000, "expected_host_route": 1000, "expected_default_route": 3000, "expected_no_route": 1000},
            "thorough": {"keepalive_sequences_ending_in_upgrade": 1500, "apps": 3800}},
    "assumptions": [],
    "level_text": "Generated applications are run as real Apps on loopback (threaded and tokio); every request's answering handler (identity in the response body, or on the raw stream for WebSocket upgrades) is compared with a reference router, and each request is repeated with a different method, query and extra headers, which must not change the choice.",
    "level_note": "Trusted: the reference router in hvcommon::routelab with an independent dynamic-programming glob matcher as predicate (the same oracle C05 uses).",
    "technique": "runtime monitoring: reference-model oracle (router) over generated configurations and requests; metamorphic invariance check",
}

PROPS["C09"] = {
    "level": "fault_enumeration",
    "engines": [
        {"bin": "hv", "args": ["c09"]},
    ],
    "min": {"quick": {"concurrent_rotations_with_overlapping_exchanges": 20, "exchanges": 3000, "cut_responses": 2500, "complete_responses": 100, "stall_and_refusal_cases": 40, "malformed_upstream_cases": 200, "upstream_records_checked": 2000, "proxy_handler_calls": 100, "load_balancer_histories": 200, "late_bytes_cases": 15, "concurrent_rotation_rounds": 35, "slow_valid_cases_relayed": 10, "rotation_with_refusals_exact": 35, "refusals_interleaved": 60},
            "thorough": {"concurrent_rotations_with_overlapping_exchanges": 20, "exchanges": 40_000}},
    "assumptions": [],
    "level_text": "proxy_request and proxy_handler are executed against a scripted upstream for every enumerated fault: each valid response cut at every byte offset, non-HTTP answers, refusal, silence, close, trickle; the returned response and its latency are judged against the reference reader's verdict on what the upstream actually sent, and the upstream's record of the relayed request is compared with the client's request; overlapping proxy_handler calls are observed at the upstreams (strict rotation, exchanges in progress at once); slow but complete valid responses inside the budget must be relayed, and locally refused requests must not take a turn of the rotation.",
    "level_note": "Trusted: hvcommon::net scripted server, httpref; wall-clock bound timeout + 3 s.",
    "technique": "runtime monitoring: fault enumeration against a scripted peer with return-value, latency and peer-side event-log oracles; conservation check for round-robin",
}

PROPS["C11"] = {
    "level": "exploration",
    "engines": [
        {"bin": "hv", "args": ["c11"]},
    ],
    "min": {"quick": {"scripts": 1500, "handshakes_ok": 1200, "server_frames_validated": 1500, "messages_delivered": 2000, "pings_answered_by_matching_pong": 300, "close_frames_received": 500, "blocking_vs_nonblocking_compared": 600, "handshakes_refused_without_key": 50, "handshake_key_lengths_swept": 257, "echo_sizes_swept": 270, "mixed_mode_scripts": 80, "slow_scripts_on_timeout_app": 30},
            "thorough": {"scripts": 25_000}},
    "assumptions": [],
    "level_text": "A reference RFC 6455 client plays generated frame scripts against a real App with websocket_handler under three deliveries and both receive modes; every byte the server writes after the 101 must pass a strict frame validator and equal the expected reply sequence (Pong per Ping, echo, Close), and the handler-side log of delivered messages and errors is compared with what the script denotes.",
    "level_note": "Trusted: hvcommon::wsref client/validator and the expected-sequence builder in c11.rs; loopback TCP.",
    "technique": "runtime monitoring: wire-level frame validator + handler-side event log vs script model; differential check of blocking vs non-blocking receive",
}

PROPS["C12"] = {
    "level": "exploration",
    "engines": [
        {"bin": "hv", "args": ["c12"]},
    ],
    "min": {"quick": {"slow_fragment_clients_fully_dispatched": 6, "scenarios": 150, "handler_events_observed": 3000, "messages_dispatched_exactly_once": 2000, "broadcasts": 150, "disconnects_graceful": 400, "single_handler_thread_scenarios": 70, "unicasts_delivered": 300, "bulk_unicasts_intact": 6, "busy_clients_kept_and_fully_dispatched": 6, "size_sweep_unicasts_intact": 14, "size_sweep_broadcasts_received_by_idle_client": 14},
            "thorough": {"slow_fragment_clients_fully_dispatched": 6, "scenarios": 1450}},
    "assumptions": [],
    "level_text": "Scenarios of several reference WebSocket clients with random scripts run against the real AsyncWebsocketApp (linked to a real App) under varied pool sizes, poll intervals, heartbeat settings and failpoint delays; the handler-side event log and the frames each client received are checked for exactly-once connect/message/disconnect, addressing of unicasts, coverage of broadcasts, per-client order (single handler thread) and termination of run.",
    "level_note": "Trusted: the scenario oracle in c12.rs, hvcommon::wsref; bounded waits (10 s for run to return).",
    "technique": "runtime monitoring: offline checker over handler event log + per-client frame logs (exactly-once, addressing, ordering) under failpoint-perturbed poll loop",
}

PROPS["C19"] = {
    "level": "exploration",
    "engines": [
        {"bin": "hv", "args": ["c19"], "needs": ["server"]},
    ],
    "min": {"quick": {"configurations": 240, "requests": 4500, "expected_dropped": 200, "expected_403": 400, "expected_normal": 1500, "served_normally": 1500, "forwarded_lists_with_a_non_address_element": 300},
            "thorough": {"configurations": 3800}},
    "assumptions": [],
    "level_text": "The real server binary, rebuilt from the working tree, is started from generated configuration files; clients bound to chosen loopback source addresses send requests with forged and genuine X-Forwarded-For headers to every route type, and the bytes/EOF each client observes are judged against the blacklist rule.",
    "level_note": "Trusted: the expectation function in c19.rs, socket2 source-address binding, the scripted upstream.",
    "technique": "runtime monitoring: black-box wire monitor of the real server process over generated configurations and source addresses",
}

PROPS["C14"] = {
    "level": "exploration",
    "engines": [
        {"bin": "py", "fn": "c14_programs", "tag": "programs"},
    ],
    "min": {"quick": {"programs_run": 5, "values_checked": 900, "json_literals_checked": 600, "assertions_executed": 4000},
            "thorough": {"programs_run": 49}},
    "assumptions": [],
    "level_text": "Rust programs are generated (types via derive and json_map!, random values, json! literals), compiled against the working tree and executed; the programs' own assertions compare the produced JSON with an independently constructed Value, check both round trips, and compare every json! literal with Value::parse of the equivalent text. The driver counts the assertions that actually ran.",
    "level_note": "Trusted: the program generator (driver/c14gen.py), rustc. Integers are limited to |v| <= 2^53 for the verdict.",
    "technique": "runtime monitoring: generated programs with in-program assertion monitors (shape + round-trip + differential against the parser)",
}

# properties without a check, with the reason (kept current)
NOT_CLAIMED = {}

"""Property table: which engines decide which property, claimed level, observation minima."""

PROPS = {
    "C05": {
        "level": "exploration",
        "engines": [
            {"bin": "hv", "args": ["c05"]},
            {"bin": "py", "fn": "c05_xcheck", "tag": "cpython"},
        ],
        "min": {"quick": {"evaluations": 1_500_000, "nontrivial_matching": 100_000},
                "thorough": {"evaluations": 20_000_000}},
        "assumptions": [],
        "level_text": "Every (pattern, text) pair of the property's finite spaces is executed against the real matcher and compared with a DP reference (complete enumeration, so exhaustive for those spaces), plus seeded random long pairs; observed, not proved, beyond those spaces.",
        "level_note": "Trusted: the DP reference matcher (cross-validated each run against CPython re.fullmatch on ~25k pairs).",
        "technique": "runtime monitoring: reference-model oracle over bounded-exhaustive + random inputs",
    },
}

# properties without a check, with the reason (kept current)
NOT_CLAIMED = {}

#!/bin/bash
# Runs every check at the given tier and seeds; prints one line per run. Usage: ./soak.sh thorough "1 2"
tier=${1:-quick}
seeds=${2:-1}
for s in $seeds; do
  for p in C01 C02 C03 C04 C05 C06 C07 C08 C09 C10 C11 C12 C13 C14 C15 C16 C17 C18 C19 C20; do
    VERIF_SEED=$s ./run $p $tier 2>&1 | grep -E "^(VIOLATION|INCONCLUSIVE|HARNESS-ERROR|RESULT|  signature)" | cut -c1-400
  done
done

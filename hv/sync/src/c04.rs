//! C04 (threaded runtime): routing order - first matching host, first matching route, default, 404.

use humphrey::http::{Request, Response, StatusCode};
use hvcommon::routelab::glob_ref;
use humphrey::stream::Stream;
use humphrey::{App, SubApp};
use hvcommon::args::Args;
use hvcommon::report::Report;
use hvcommon::rng::Rng;
use hvcommon::routelab::{self, handler_name, AppModel, SubModel};
use hvcommon::util::{ncpu, par};
use std::io::Write;
use std::net::{SocketAddr, TcpListener, TcpStream};
use std::sync::mpsc::channel;
use std::sync::Arc;
use std::time::Duration;

fn build_sub(m: &SubModel, idx: Option<usize>) -> SubApp<()> {
    let mut s: SubApp<()> = SubApp::new();
    for (j, p) in m.routes.iter().enumerate() {
        let name = handler_name(idx, j, false);
        s = s.with_route(p, move |_: Request, _: Arc<()>| Response::new(StatusCode::OK, name.clone()));
    }
    for (j, p) in m.ws_routes.iter().enumerate() {
        let name = handler_name(idx, j, true);
        s = s.with_websocket_route(p, move |_: Request, mut stream: Stream, _: Arc<()>| {
            stream.write_all(format!("{}\n", name).as_bytes()).ok();
        });
    }
    for c in routelab::cors_plan(m) {
        s = match c {
            Some(p) => s.with_cors_config(&p, humphrey::http::cors::Cors::wildcard()),
            None => s.with_cors(humphrey::http::cors::Cors::wildcard()),
        };
    }
    s
}

pub fn main(args: &Args) {
    let out = args.get("out").expect("--out");
    let seed = args.seed();
    let only = args.get("app").map(|s| s.parse::<u64>().unwrap());
    let (napps, nreq): (u64, usize) = if args.thorough() { (8000, 120) } else { (1000, 60) };
    let reports = par(if only.is_some() { 1 } else { ncpu() }, move |shard, nsh| {
        let mut r = Report::new();
        let mut k = only.unwrap_or(shard as u64);
        while k < napps || only == Some(k) {
            let mut rng = Rng::derive(seed, 0x0400_0000 + k);
            let m: AppModel = routelab::gen_app(&mut rng);
            let port = hvcommon::net::free_port("127.0.0.1");
            let addr: SocketAddr = format!("127.0.0.1:{}", port).parse().unwrap();
            let (tx, rx) = channel();
            let mut app: App<()> = App::new_with_config(2, ()).with_default_subapp(build_sub(&m.default, None)).with_shutdown(rx);
            for (i, h) in m.hosts.iter().enumerate() {
                app = app.with_host(h.host.as_ref().unwrap(), build_sub(h, Some(i)));
            }
            std::thread::spawn(move || {
                let _ = app.run(addr);
            });
            let mut up = false;
            for _ in 0..400 {
                if TcpStream::connect(addr).is_ok() {
                    up = true;
                    break;
                }
                std::thread::sleep(Duration::from_millis(3));
            }
            if !up {
                r.inconclusive("lab app did not start");
            } else {
                r.count("apps", 1);
                if k < 2 {
                    r.sample(routelab::app_json(&m));
                }
                routelab::run_app_cases(&mut r, addr, &m, &mut rng, nreq, glob_ref, "threaded", &["c04".to_string(), "--seed".into(), seed.to_string(), "--app".into(), k.to_string()]);
                routelab::run_keepalive_cases(&mut r, addr, &m, &mut rng, nreq / 4 + 1, glob_ref, "threaded", &["c04".to_string(), "--seed".into(), seed.to_string(), "--app".into(), k.to_string()]);
            }
            tx.send(()).ok();
            if only.is_some() {
                break;
            }
            k += nsh as u64;
        }
        r
    });
    let mut total = Report::merge_all(reports);
    if only.is_some() {
        total.nontrivial(1);
        total.nontrivial(2);
    }
    total.write(out, "generated applications with 0..4 host sub-apps x 0..6 routes (+ 0..3 websocket routes) each and a default sub-app, patterns from literals, prefixes, suffixes, infixes, several and adjacent `*`, overlapping and shadowing, sub-apps with no, one or two per-route CORS configurations or a sub-app-wide one followed by a per-route one (set after the routes are registered); requests over Host {absent, exact, wildcard-matching, with port, non-matching, other case} x paths instantiated from registered patterns or random x {with, without query} x methods x extra headers; one request in ten is a WebSocket upgrade. distinct/non-trivial = requests whose path matches at least two registered routes (where order matters)", None, &["the match predicate of the reference router is an independent dynamic-programming glob matcher (the C05 oracle), so a wrong matcher is reported here as a wrong choice as well", "OPTIONS is not used as a method variant (it is answered by the library, see C01)"]);
}

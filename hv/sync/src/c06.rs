//! C06 (threaded runtime): binds `serve_dir`, `serve_as_file_path` and the server's `directory_handler` to the
//! shared laboratory in `hvcommon::staticlab`.

use humphrey::handlers::{serve_as_file_path, serve_dir};
use humphrey::http::address::Address;
use humphrey::http::headers::{HeaderType, Headers};
use humphrey::http::method::Method;
use humphrey::http::{Request, Response};
use humphrey_server::config::Config;
use humphrey_server::server::server::AppState;
use humphrey_server::server::r#static::directory_handler;
use hvcommon::args::Args;
use hvcommon::staticlab::{self, CallFn, Handler, SimpleResp};
use hvcommon::util::panic_msg;
use std::panic::{catch_unwind, AssertUnwindSafe};
use std::sync::Arc;

fn mk_request(uri: &str) -> Request {
    Request { method: Method::Get, uri: uri.to_string(), query: String::new(), version: "HTTP/1.1".into(), headers: Headers::new(), content: None, address: Address::new("10.9.8.7:6543").unwrap() }
}

fn simple(p: Response) -> SimpleResp {
    SimpleResp { status: u16::from(p.status_code), content_type: p.headers.get(&HeaderType::ContentType).unwrap_or("").to_string(), location: p.headers.get(&HeaderType::Location).unwrap_or("").to_string(), body: p.body }
}

fn bind(root: &'static str) -> CallFn {
    let mk_state = |cache: usize| {
        let mut c = Config::default();
        c.logging.console = false;
        c.logging.level = humphrey_server::server::logger::LogLevel::Error;
        c.cache.size_limit = cache;
        c.cache.time_limit = 3600;
        Arc::new(AppState::from(c))
    };
    let sd: Box<dyn Fn(Request, Arc<()>, &str) -> Response + Send + Sync> = Box::new(serve_dir::<()>(root));
    let sa: Box<dyn Fn(Request, Arc<()>) -> Response + Send + Sync> = Box::new(serve_as_file_path::<()>(root));
    let (nocache, cache_state) = (mk_state(0), mk_state(16 << 20));
    // <base>/otherhost mirrors <base>/root with canary-tagged contents (see staticlab::build_tree)
    let other_root: &'static str = Box::leak(format!("{}/otherhost", std::path::Path::new(root.trim_end_matches('/')).parent().unwrap().to_str().unwrap()).into_boxed_str());
    Box::new(move |h, uri, route, cache| {
        let req = mk_request(uri);
        catch_unwind(AssertUnwindSafe(|| match h {
            Handler::ServeDir => sd(req, Arc::new(()), route),
            Handler::ServeAsFilePath => sa(req, Arc::new(())),
            Handler::Directory if cache => {
                // two virtual hosts share the cache: the other host (same relative paths, foreign contents) asks first,
                // then the host under test; which of the two is the default host (index 0) alternates
                let (this_host, other_host) = if hvcommon::util::fnv(uri.as_bytes()) % 2 == 0 { (0, 1) } else { (1, 0) };
                let _ = directory_handler(mk_request(uri), cache_state.clone(), other_root, route, other_host);
                directory_handler(req, cache_state.clone(), root, route, this_host)
            }
            Handler::Directory => directory_handler(req, nocache.clone(), root, route, 0),
        }))
        .map(simple)
        .map_err(|p| panic_msg(&*p))
    })
}

pub fn main(args: &Args) {
    staticlab::run(args, &[Handler::ServeDir, Handler::ServeAsFilePath, Handler::Directory], bind, "", "threaded");
}

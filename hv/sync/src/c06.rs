//! C06 (threaded runtime): binds `serve_dir`, `serve_as_file_path` and the server's `directory_handler` to the
//! shared laboratory in `hvcommon::staticlab`.

use humphrey::handlers::{serve_as_file_path, serve_dir};
use humphrey::http::address::Address;
use humphrey::http::headers::{HeaderType, Headers};
use humphrey::http::method::Method;
use humphrey::http::{Request, Response};
use humphrey_server::config::Config;
use humphrey_server::server::server::AppState;
use humphrey_server::server::r#static::directory_handler;
use hvcommon::args::Args;
use hvcommon::staticlab::{self, CallFn, Handler, SimpleResp};
use hvcommon::util::panic_msg;
use std::panic::{catch_unwind, AssertUnwindSafe};
use std::sync::Arc;

fn mk_request(uri: &str) -> Request {
    Request { method: Method::Get, uri: uri.to_string(), query: String::new(), version: "HTTP/1.1".into(), headers: Headers::new(), content: None, address: Address::new("10.9.8.7:6543").unwrap() }
}

fn simple(p: Response) -> SimpleResp {
    SimpleResp { status: u16::from(p.status_code), content_type: p.headers.get(&HeaderType::ContentType).unwrap_or("").to_string(), location: p.headers.get(&HeaderType::Location).unwrap_or("").to_string(), body: p.body }
}

fn bind(root: &'static str) -> CallFn {
    let mk_state = |cache: usize| {
        let mut c = Config::default();
        c.logging.console = false;
        c.logging.level = humphrey_server::server::logger::LogLevel::Error;
        c.cache.size_limit = cache;
        c.cache.time_limit = 3600;
        Arc::new(AppState::from(c))
    };
    let sd: Box<dyn Fn(Request, Arc<()>, &str) -> Response + Send + Sync> = Box::new(serve_dir::<()>(root));
    let sa: Box<dyn Fn(Request, Arc<()>) -> Response + Send + Sync> = Box::new(serve_as_file_path::<()>(root));
    let (nocache, cache_state) = (mk_state(0), mk_state(16 << 20));
    let last_small: std::sync::Mutex<(String, String, u64)> = std::sync::Mutex::new((String::new(), String::new(), 0));
    let small_cache = {
        let mut c = Config::default();
        c.logging.console = false;
        c.logging.level = humphrey_server::server::logger::LogLevel::Error;
        c.cache.size_limit = 700;
        c.cache.time_limit = 0;
        Arc::new(AppState::from(c))
    };
    // <base>/otherhost mirrors <base>/root with canary-tagged contents (see staticlab::build_tree)
    let other_root: &'static str = Box::leak(format!("{}/otherhost", std::path::Path::new(root.trim_end_matches('/')).parent().unwrap().to_str().unwrap()).into_boxed_str());
    Box::new(move |h, uri, route, cache| {
        let req = mk_request(uri);
        catch_unwind(AssertUnwindSafe(|| match h {
            Handler::ServeDir => sd(req, Arc::new(()), route),
            Handler::ServeAsFilePath => sa(req, Arc::new(())),
            Handler::Directory if cache && hvcommon::util::fnv(uri.as_bytes()) % 3 == 1 => {
                // a cache that is always nearly full and whose entries expire within a second: constant eviction and
                // re-insertion of the same keys while the run lasts
                // once per second the most recently cached URI (now expired, and the newest entry of a full cache) is
                // requested again before the request under test: the same key is stored again while room must be made
                let now = std::time::SystemTime::now().duration_since(std::time::UNIX_EPOCH).map(|d| d.as_secs()).unwrap_or(0);
                let again = {
                    let g = last_small.lock().unwrap_or_else(|e| e.into_inner());
                    if now > g.2 && !g.0.is_empty() { Some((g.0.clone(), g.1.clone())) } else { None }
                };
                if let Some((u, rt)) = again {
                    let _ = directory_handler(mk_request(&u), small_cache.clone(), root, &rt, 0);
                    last_small.lock().unwrap_or_else(|e| e.into_inner()).2 = now;
                }
                let resp = directory_handler(req, small_cache.clone(), root, route, 0);
                if u16::from(resp.status_code) == 200 && resp.body.len() <= 700 {
                    // this URI is now the newest entry of the cache
                    *last_small.lock().unwrap_or_else(|e| e.into_inner()) = (uri.to_string(), route.to_string(), now);
                }
                resp
            }
            Handler::Directory if cache => {
                // two virtual hosts share the cache: the other host (same relative paths, foreign contents) asks first,
                // then the host under test; which of the two is the default host (index 0) alternates
                let (this_host, other_host) = if hvcommon::util::fnv(uri.as_bytes()) % 2 == 0 { (0, 1) } else { (1, 0) };
                let _ = directory_handler(mk_request(uri), cache_state.clone(), other_root, route, other_host);
                directory_handler(req, cache_state.clone(), root, route, this_host)
            }
            Handler::Directory => directory_handler(req, nocache.clone(), root, route, 0),
        }))
        .map(simple)
        .map_err(|p| panic_msg(&*p))
    })
}

/// The handlers behind a real `App` (threaded runtime, with and without a connection timeout): files of every size
/// fetched over a socket by a client that may stall before reading must arrive intact.
fn over_the_wire(r: &mut hvcommon::report::Report, tree: &staticlab::Tree, root: &'static str, seed: u64) {
    use hvcommon::httplab::Conn;
    use hvcommon::json::J;
    use std::io::Write;
    use std::time::Duration;
    let mut rng = hvcommon::rng::Rng::derive(seed, 0x06ee);
    for timeout in [None, Some(Duration::from_millis(250))] {
        let port = hvcommon::net::free_port("127.0.0.1");
        let addr: std::net::SocketAddr = format!("127.0.0.1:{}", port).parse().unwrap();
        let (tx, rx) = std::sync::mpsc::channel();
        // a second virtual host with its own directory, holding files of the same relative names and other contents
        let root2: &'static str = Box::leak(format!("{}-host2", root.trim_end_matches('/')).into_boxed_str());
        let twins: Vec<(String, Vec<u8>)> = tree.files.iter().filter(|f| f.0.is_ascii() && !f.0.contains(['?', '#', ' ', '%', ':']) && !f.0.contains("..") && f.1.len() < 4096).take(4).map(|f| (f.0.clone(), format!("HV06-HOST2|{}|{}", seed, f.0).into_bytes())).collect();
        for (rel, content) in &twins {
            let p = std::path::Path::new(root2).join(rel);
            let _ = std::fs::create_dir_all(p.parent().unwrap());
            let _ = std::fs::write(&p, content);
        }
        let app: humphrey::App<()> = humphrey::App::new_with_config(2, ()).with_path_aware_route("/d/*", serve_dir(root)).with_route("/*", serve_as_file_path(root)).with_host("other.hv", humphrey::SubApp::new().with_path_aware_route("/d/*", serve_dir(root2))).with_connection_timeout(timeout).with_shutdown(rx);
        std::thread::spawn(move || {
            let _ = app.run(addr);
        });
        for _ in 0..400 {
            if std::net::TcpStream::connect(addr).is_ok() {
                break;
            }
            std::thread::sleep(Duration::from_millis(5));
        }
        // the two large files and three small ones, each through serve_dir (percent-encoded) and serve_as_file_path (raw)
        let mut picks: Vec<&(String, Vec<u8>)> = tree.files.iter().filter(|f| f.1.len() > (1 << 20)).collect();
        for _ in 0..3 {
            picks.push(&tree.files[rng.usize(tree.files.len())]);
        }
        for (rel, content) in picks {
            if rel.contains("..") || rel.contains(':') || rel.contains(['?', '#', ' ', '%']) || !rel.is_ascii() {
                continue;
            }
            for prefix in ["/d/", "/"] {
                // a blocked write makes partial progress on its first attempts: a write timeout needs several periods to cut it
                let stall = if content.len() > (1 << 20) { if timeout.is_some() { 1500 } else { 300 } } else { 0 };
                r.eval();
                r.count("over_the_wire_requests", 1);
                let uri = format!("{}{}", prefix, rel);
                let what = format!("GET {} ({} bytes; app connection timeout {:?}; client starts reading after {} ms)", uri, content.len(), timeout, stall);
                let ex = J::obj(vec![("uri", J::s(&uri)), ("file_bytes", J::u(content.len() as u64)), ("connection_timeout_ms", timeout.map(|t| J::u(t.as_millis() as u64)).unwrap_or(J::Null)), ("client_stall_ms", J::u(stall))]);
                let replay = vec!["c06".to_string(), "--seed".into(), seed.to_string()];
                // a small, fixed receive buffer (no auto-tuning): what the stalled client does not read stays in the
                // server's send buffer, so large responses make the server's write block
                let sock = socket2::Socket::new(socket2::Domain::IPV4, socket2::Type::STREAM, None).and_then(|s| {
                    s.set_recv_buffer_size(32 * 1024)?;
                    s.connect_timeout(&addr.into(), Duration::from_secs(5))?;
                    Ok(s)
                });
                let mut c = match sock {
                    Ok(s) => Conn { s: s.into(), buf: Vec::new(), eof: false, reset: false },
                    Err(e) => {
                        r.inconclusive(format!("cannot connect to the C06 wire app: {}", e));
                        continue;
                    }
                };
                if c.s.write_all(format!("GET {} HTTP/1.1\r\nHost: hv\r\nConnection: close\r\n\r\n", uri).as_bytes()).is_err() {
                    r.inconclusive("cannot send to the C06 wire app");
                    continue;
                }
                std::thread::sleep(Duration::from_millis(stall));
                match c.read_response(Duration::from_secs(30)) {
                    Ok(Some(m)) if m.status() == 200 && m.body == *content => r.count("over_the_wire_files_intact", 1),
                    // the harness client itself was slower than the app's timeout between connect and first byte (loaded machine)
                    Ok(Some(m)) if m.status() == 408 && timeout.is_some() => r.count("over_the_wire_discarded_client_slower_than_timeout", 1),
                    Ok(Some(m)) => r.violation("C06/wire:not-intact", format!("{}: status {}, {} body bytes, content {}", what, m.status(), m.body.len(), if m.body == *content { "equal" } else { "differs" }), ex, replay),
                    Ok(None) => r.violation("C06/wire:not-intact", format!("{}: no response", what), ex, replay),
                    Err(e) => r.violation("C06/wire:not-intact", format!("{}: response incomplete: {}", what, e.chars().take(120).collect::<String>()), ex, replay),
                }
            }
        }
        // one keep-alive connection carrying requests for both hosts in turn (a forwarder's pooled connection): each request
        // is served from the directory of the host IT names (seeded C06-M)
        if timeout.is_none() {
            for (rel, content2) in &twins {
                let content1 = match tree.files.iter().find(|f| &f.0 == rel) {
                    Some(f) => &f.1,
                    None => continue,
                };
                let mut c = match Conn::open(addr) {
                    Ok(c) => c,
                    Err(_) => break,
                };
                for (i, host) in ["hv", "other.hv", "hv", "other.hv"].iter().enumerate() {
                    r.eval();
                    r.count("over_the_wire_requests", 1);
                    let last = i == 3;
                    if c.s.write_all(format!("GET /d/{} HTTP/1.1\r\nHost: {}\r\nConnection: {}\r\n\r\n", rel, host, if last { "close" } else { "keep-alive" }).as_bytes()).is_err() {
                        r.violation("C06/wire:not-served", format!("keep-alive connection lost before request #{} (Host: {}) for /d/{}", i, host, rel), J::s(rel), vec!["c06".to_string(), "--seed".into(), seed.to_string()]);
                        break;
                    }
                    let (want, other) = if *host == "hv" { (content1, content2) } else { (content2, content1) };
                    let what = format!("request #{} on one keep-alive connection, GET /d/{} with Host: {} (hosts alternate hv, other.hv)", i, rel, host);
                    match c.read_response(Duration::from_secs(10)) {
                        Ok(Some(m)) if m.status() == 200 && m.body == *want => {
                            r.count("over_the_wire_files_intact", 1);
                            r.count("over_the_wire_host_alternations_served_from_own_directory", 1);
                            hvcommon::httplab::eat_body_crlf(&mut c);
                        }
                        Ok(Some(m)) if m.body == *other => {
                            r.violation("C06/wire:foreign-bytes", format!("{}: answered with the file of the same name from the OTHER host's directory, i.e. bytes from outside this handler's directory", what), J::s(rel), vec!["c06".to_string(), "--seed".into(), seed.to_string()]);
                            break;
                        }
                        Ok(Some(m)) => {
                            r.violation("C06/wire:not-intact", format!("{}: status {}, {} body bytes", what, m.status(), m.body.len()), J::s(rel), vec!["c06".to_string(), "--seed".into(), seed.to_string()]);
                            break;
                        }
                        Ok(None) => {
                            r.violation("C06/wire:not-served", format!("{}: no response (eof={})", what, c.eof), J::s(rel), vec!["c06".to_string(), "--seed".into(), seed.to_string()]);
                            break;
                        }
                        Err(e) => {
                            r.violation("C06/wire:not-intact", format!("{}: response incomplete: {}", what, e.chars().take(120).collect::<String>()), J::s(rel), vec!["c06".to_string(), "--seed".into(), seed.to_string()]);
                            break;
                        }
                    }
                }
            }
        }
        // a request that has to wait in the pool's queue: both workers are held by idle keep-alive connections for
        // 400 ms, then released; the queued request must still be answered, with the file intact
        if timeout.is_none() {
            let small: Vec<&(String, Vec<u8>)> = tree.files.iter().filter(|f| f.0.is_ascii() && !f.0.contains(['?', '#', ' ', '%', ':']) && !f.0.contains("..") && f.1.len() < 4096).collect();
            if small.len() >= 2 {
                for round in 0..2 {
                    let hold: Vec<Option<Conn>> = (0..2)
                        .map(|_| {
                            let mut c = Conn::open(addr).ok()?;
                            c.s.write_all(format!("GET /d/{} HTTP/1.1\r\nHost: hv\r\nConnection: keep-alive\r\n\r\n", small[0].0).as_bytes()).ok()?;
                            c.read_response(Duration::from_secs(10)).ok()??;
                            Some(c)
                        })
                        .collect();
                    if hold.iter().any(|h| h.is_none()) {
                        r.inconclusive("C06 wire: could not occupy both workers with keep-alive connections");
                        break;
                    }
                    let (rel, content) = small[1 + round % (small.len() - 1)];
                    r.eval();
                    r.count("over_the_wire_requests", 1);
                    let mut c = match Conn::open(addr) {
                        Ok(c) => c,
                        Err(_) => break,
                    };
                    let _ = c.s.write_all(format!("GET /d/{} HTTP/1.1\r\nHost: hv\r\nConnection: close\r\n\r\n", rel).as_bytes());
                    std::thread::sleep(Duration::from_millis(400));
                    drop(hold);
                    let what = format!("GET /d/{} queued for 400 ms behind two idle keep-alive connections on a 2-worker app", rel);
                    match c.read_response(Duration::from_secs(15)) {
                        Ok(Some(m)) if m.status() == 200 && m.body == *content => {
                            r.count("over_the_wire_files_intact", 1);
                            r.count("over_the_wire_queued_requests_answered", 1);
                        }
                        Ok(Some(m)) => r.violation("C06/wire:not-intact", format!("{}: status {}, {} body bytes", what, m.status(), m.body.len()), J::s(rel), vec!["c06".to_string(), "--seed".into(), seed.to_string()]),
                        Ok(None) => r.violation("C06/wire:not-served", format!("{}: no response at all (eof={})", what, c.eof), J::s(rel), vec!["c06".to_string(), "--seed".into(), seed.to_string()]),
                        Err(e) => r.violation("C06/wire:not-intact", format!("{}: response incomplete: {}", what, e.chars().take(120).collect::<String>()), J::s(rel), vec!["c06".to_string(), "--seed".into(), seed.to_string()]),
                    }
                }
            }
        }
        tx.send(()).ok();
    }
}

pub fn main(args: &Args) {
    staticlab::run(args, &[Handler::ServeDir, Handler::ServeAsFilePath, Handler::Directory], bind, "", "threaded", Some(over_the_wire));
}

//! Reference RFC 8259 recogniser + evaluator (independent of humphrey_json).

#[derive(Clone, Debug, PartialEq)]
pub enum RV {
    Null,
    Bool(bool),
    Num(f64),
    Str(String),
    Arr(Vec<RV>),
    Obj(Vec<(String, RV)>),
}

#[derive(Clone, Debug, PartialEq)]
pub struct RefErr {
    pub kind: &'static str,
    pub pos: usize,
    pub token: String,
}

#[derive(Default, Clone, Debug)]
pub struct Flags {
    /// a \uXXXX escape denoting an unpaired surrogate occurred: an implementation may reject
    pub lone_surrogate: bool,
    /// a grammatically valid number outside the finite f64 range occurred: implementation-defined
    pub out_of_range: bool,
    pub max_depth_seen: usize,
}

pub struct Rec<'a> {
    b: &'a [u8],
    s: &'a str,
    i: usize,
    depth: usize,
    max_depth: usize,
    pub flags: Flags,
}

fn err<T>(kind: &'static str, pos: usize, token: &str) -> Result<T, RefErr> {
    Err(RefErr { kind, pos, token: token.chars().take(24).collect() })
}

pub fn parse(s: &str, max_depth: usize) -> (Result<RV, RefErr>, Flags) {
    let mut r = Rec { b: s.as_bytes(), s, i: 0, depth: 0, max_depth, flags: Flags::default() };
    let res = (|| {
        r.ws();
        let v = r.value()?;
        r.ws();
        if r.i != r.b.len() {
            return err("trailing-garbage", r.i, &r.s[r.i..]);
        }
        Ok(v)
    })();
    (res, r.flags)
}

impl<'a> Rec<'a> {
    fn ws(&mut self) {
        while self.i < self.b.len() && matches!(self.b[self.i], b' ' | b'\t' | b'\n' | b'\r') {
            self.i += 1;
        }
    }

    fn token_end(&self) -> usize {
        // extent of a "word" for diagnostics/classification: up to a structural character or whitespace
        let mut j = self.i;
        while j < self.b.len() && !matches!(self.b[j], b' ' | b'\t' | b'\n' | b'\r' | b',' | b']' | b'}') {
            j += 1;
        }
        // do not split a UTF-8 sequence
        while j < self.b.len() && !self.s.is_char_boundary(j) {
            j += 1;
        }
        j
    }

    fn value(&mut self) -> Result<RV, RefErr> {
        if self.i >= self.b.len() {
            return err("eof", self.i, "");
        }
        match self.b[self.i] {
            b'{' => self.object(),
            b'[' => self.array(),
            b'"' => Ok(RV::Str(self.string()?)),
            b'-' | b'0'..=b'9' => self.number(),
            b't' | b'f' | b'n' => {
                for (lit, v) in [("true", RV::Bool(true)), ("false", RV::Bool(false)), ("null", RV::Null)] {
                    if self.s[self.i..].starts_with(lit) {
                        self.i += lit.len();
                        return Ok(v);
                    }
                }
                let e = self.token_end();
                err("bad-literal", self.i, &self.s[self.i..e])
            }
            b'+' | b'.' | b'N' | b'I' | b'i' => {
                let e = self.token_end();
                err("bad-number", self.i, &self.s[self.i..e])
            }
            _ => {
                let e = self.token_end().max(self.i + 1);
                let mut e = e.min(self.b.len());
                while !self.s.is_char_boundary(e) {
                    e += 1;
                }
                err("unexpected-char", self.i, &self.s[self.i..e])
            }
        }
    }

    fn number(&mut self) -> Result<RV, RefErr> {
        let st = self.i;
        let te = self.token_end();
        let tok = &self.s[st..te];
        let b = self.b;
        let mut j = st;
        if b[j] == b'-' {
            j += 1;
        }
        if j >= b.len() || !b[j].is_ascii_digit() {
            return err("bad-number", st, tok);
        }
        if b[j] == b'0' {
            j += 1;
        } else {
            while j < b.len() && b[j].is_ascii_digit() {
                j += 1;
            }
        }
        if j < b.len() && b[j] == b'.' {
            j += 1;
            if j >= b.len() || !b[j].is_ascii_digit() {
                return err("bad-number", st, tok);
            }
            while j < b.len() && b[j].is_ascii_digit() {
                j += 1;
            }
        }
        if j < b.len() && (b[j] == b'e' || b[j] == b'E') {
            j += 1;
            if j < b.len() && (b[j] == b'+' || b[j] == b'-') {
                j += 1;
            }
            if j >= b.len() || !b[j].is_ascii_digit() {
                return err("bad-number", st, tok);
            }
            while j < b.len() && b[j].is_ascii_digit() {
                j += 1;
            }
        }
        // the number must be followed by ws, a structural character or the end; anything glued to it
        // (e.g. "01", "1.", "1x") is not a JSON text
        if j < b.len() && !matches!(b[j], b' ' | b'\t' | b'\n' | b'\r' | b',' | b']' | b'}') {
            return err("bad-number", st, tok);
        }
        let v: f64 = self.s[st..j].parse().expect("grammar-valid number must parse");
        if !v.is_finite() {
            self.flags.out_of_range = true;
        }
        self.i = j;
        Ok(RV::Num(v))
    }

    fn hex4(&mut self) -> Result<u32, RefErr> {
        if self.i + 4 > self.b.len() {
            return err("eof", self.i, "");
        }
        let mut v = 0u32;
        for k in 0..4 {
            let c = self.b[self.i + k];
            let d = match c {
                b'0'..=b'9' => c - b'0',
                b'a'..=b'f' => c - b'a' + 10,
                b'A'..=b'F' => c - b'A' + 10,
                _ => {
                    let mut e = (self.i + 4).min(self.b.len());
                    while !self.s.is_char_boundary(e) {
                        e += 1;
                    }
                    let mut st = self.i;
                    while !self.s.is_char_boundary(st) {
                        st -= 1;
                    }
                    return err("bad-u-escape", self.i, &self.s[st..e]);
                }
            };
            v = v * 16 + d as u32;
        }
        self.i += 4;
        Ok(v)
    }

    fn string(&mut self) -> Result<String, RefErr> {
        debug_assert_eq!(self.b[self.i], b'"');
        self.i += 1;
        let mut out = String::new();
        loop {
            if self.i >= self.b.len() {
                return err("eof", self.i, "");
            }
            let c = self.s[self.i..].chars().next().unwrap();
            match c {
                '"' => {
                    self.i += 1;
                    return Ok(out);
                }
                '\\' => {
                    self.i += 1;
                    if self.i >= self.b.len() {
                        return err("eof", self.i, "");
                    }
                    let e = self.b[self.i];
                    self.i += 1;
                    match e {
                        b'"' => out.push('"'),
                        b'\\' => out.push('\\'),
                        b'/' => out.push('/'),
                        b'b' => out.push('\u{8}'),
                        b'f' => out.push('\u{c}'),
                        b'n' => out.push('\n'),
                        b'r' => out.push('\r'),
                        b't' => out.push('\t'),
                        b'u' => {
                            let hi = self.hex4()?;
                            if (0xD800..0xDC00).contains(&hi) {
                                // high surrogate: paired only with an immediately following \uDC00..\uDFFF
                                if self.b[self.i..].starts_with(b"\\u") {
                                    let save = self.i;
                                    self.i += 2;
                                    let lo = self.hex4()?;
                                    if (0xDC00..0xE000).contains(&lo) {
                                        let cp = 0x10000 + ((hi - 0xD800) << 10) + (lo - 0xDC00);
                                        out.push(char::from_u32(cp).unwrap());
                                    } else {
                                        self.flags.lone_surrogate = true;
                                        out.push('\u{fffd}');
                                        self.i = save;
                                    }
                                } else {
                                    self.flags.lone_surrogate = true;
                                    out.push('\u{fffd}');
                                }
                            } else if (0xDC00..0xE000).contains(&hi) {
                                self.flags.lone_surrogate = true;
                                out.push('\u{fffd}');
                            } else {
                                out.push(char::from_u32(hi).unwrap());
                            }
                        }
                        _ => {
                            let mut st = self.i - 1;
                            while !self.s.is_char_boundary(st) {
                                st -= 1;
                            }
                            let mut en = self.i;
                            while !self.s.is_char_boundary(en) {
                                en += 1;
                            }
                            return err("bad-escape", st, &self.s[st..en]);
                        }
                    }
                }
                c if (c as u32) < 0x20 => return err("control-in-string", self.i, ""),
                c => {
                    out.push(c);
                    self.i += c.len_utf8();
                }
            }
        }
    }

    fn enter(&mut self) -> Result<(), RefErr> {
        if self.depth == self.max_depth {
            return err("depth", self.i, "");
        }
        self.depth += 1;
        if self.depth > self.flags.max_depth_seen {
            self.flags.max_depth_seen = self.depth;
        }
        Ok(())
    }

    fn array(&mut self) -> Result<RV, RefErr> {
        self.enter()?;
        self.i += 1;
        let mut v = Vec::new();
        self.ws();
        if self.i < self.b.len() && self.b[self.i] == b']' {
            self.i += 1;
            self.depth -= 1;
            return Ok(RV::Arr(v));
        }
        loop {
            self.ws();
            if self.i < self.b.len() && self.b[self.i] == b']' {
                return err("trailing-comma", self.i, "]");
            }
            v.push(self.value()?);
            self.ws();
            if self.i >= self.b.len() {
                return err("eof", self.i, "");
            }
            match self.b[self.i] {
                b',' => self.i += 1,
                b']' => {
                    self.i += 1;
                    self.depth -= 1;
                    return Ok(RV::Arr(v));
                }
                _ => {
                    let e = self.token_end().max(self.i + 1).min(self.b.len());
                    let mut e = e;
                    while !self.s.is_char_boundary(e) {
                        e += 1;
                    }
                    return err("missing-comma-array", self.i, &self.s[self.i..e]);
                }
            }
        }
    }

    fn object(&mut self) -> Result<RV, RefErr> {
        self.enter()?;
        self.i += 1;
        let mut v = Vec::new();
        self.ws();
        if self.i < self.b.len() && self.b[self.i] == b'}' {
            self.i += 1;
            self.depth -= 1;
            return Ok(RV::Obj(v));
        }
        loop {
            self.ws();
            if self.i >= self.b.len() {
                return err("eof", self.i, "");
            }
            if self.b[self.i] == b'}' {
                return err("trailing-comma", self.i, "}");
            }
            if self.b[self.i] != b'"' {
                let mut e = self.token_end().max(self.i + 1).min(self.b.len());
                while !self.s.is_char_boundary(e) {
                    e += 1;
                }
                return err("bad-key", self.i, &self.s[self.i..e]);
            }
            let k = self.string()?;
            self.ws();
            if self.i >= self.b.len() {
                return err("eof", self.i, "");
            }
            if self.b[self.i] != b':' {
                return err("missing-colon", self.i, "");
            }
            self.i += 1;
            self.ws();
            let val = self.value()?;
            v.push((k, val));
            self.ws();
            if self.i >= self.b.len() {
                return err("eof", self.i, "");
            }
            match self.b[self.i] {
                b',' => self.i += 1,
                b'}' => {
                    self.i += 1;
                    self.depth -= 1;
                    return Ok(RV::Obj(v));
                }
                b'"' => return err("missing-comma-object", self.i, ""),
                _ => {
                    let mut e = self.token_end().max(self.i + 1).min(self.b.len());
                    while !self.s.is_char_boundary(e) {
                        e += 1;
                    }
                    return err("unexpected-char-in-object", self.i, &self.s[self.i..e]);
                }
            }
        }
    }
}

/// Canonical ASCII-only JSON text of a reference value (for the CPython cross-check).
pub fn canon(v: &RV, out: &mut String) {
    match v {
        RV::Null => out.push_str("null"),
        RV::Bool(b) => out.push_str(if *b { "true" } else { "false" }),
        RV::Num(n) => out.push_str(&format!("{:e}", n)),
        RV::Str(s) => canon_str(s, out),
        RV::Arr(a) => {
            out.push('[');
            for (i, x) in a.iter().enumerate() {
                if i > 0 {
                    out.push(',');
                }
                canon(x, out);
            }
            out.push(']');
        }
        RV::Obj(o) => {
            out.push('{');
            for (i, (k, x)) in o.iter().enumerate() {
                if i > 0 {
                    out.push(',');
                }
                canon_str(k, out);
                out.push(':');
                canon(x, out);
            }
            out.push('}');
        }
    }
}

fn canon_str(s: &str, out: &mut String) {
    out.push('"');
    let mut buf = [0u16; 2];
    for c in s.chars() {
        if c.is_ascii_alphanumeric() || c == ' ' {
            out.push(c);
        } else {
            for u in c.encode_utf16(&mut buf) {
                out.push_str(&format!("\\u{:04x}", u));
            }
        }
    }
    out.push('"');
}

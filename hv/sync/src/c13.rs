//! C13: the JSON parser accepts exactly RFC 8259 (depth <= 256), the serialiser emits it, they round-trip.
//! Monitor: every `Value::parse` verdict and value is compared with the reference recogniser
//! (jsonref); every serialised text is judged by the recogniser and parsed back.

use crate::jsonref::{self, RefErr, RV};
use humphrey_json::Value;
use hvcommon::args::Args;
use hvcommon::json::J;
use hvcommon::report::Report;
use hvcommon::rng::Rng;
use hvcommon::util::{fnv, hex, ncpu, panic_msg, par, show, unhex};
use std::io::Write;
use std::panic::catch_unwind;

pub fn to_rv(v: &Value) -> RV {
    match v {
        Value::Null => RV::Null,
        Value::Bool(b) => RV::Bool(*b),
        Value::Number(n) => RV::Num(*n),
        Value::String(s) => RV::Str(s.clone()),
        Value::Array(a) => RV::Arr(a.iter().map(to_rv).collect()),
        Value::Object(o) => RV::Obj(o.iter().map(|(k, v)| (k.clone(), to_rv(v))).collect()),
    }
}

pub fn to_sut(v: &RV) -> Value {
    match v {
        RV::Null => Value::Null,
        RV::Bool(b) => Value::Bool(*b),
        RV::Num(n) => Value::Number(*n),
        RV::Str(s) => Value::String(s.clone()),
        RV::Arr(a) => Value::Array(a.iter().map(to_sut).collect()),
        RV::Obj(o) => Value::Object(o.iter().map(|(k, v)| (k.clone(), to_sut(v))).collect()),
    }
}

fn sut_parse(text: &str) -> Result<Result<RV, String>, String> {
    match catch_unwind(|| Value::parse(text)) {
        Ok(Ok(v)) => Ok(Ok(to_rv(&v))),
        Ok(Err(e)) => Ok(Err(e.to_string())),
        Err(p) => Err(panic_msg(&*p)),
    }
}

fn replay_of(text: &str) -> Vec<String> {
    vec!["c13".into(), "--text-hex".into(), hex(text.as_bytes())]
}

fn classify_accept(e: &RefErr) -> String {
    match e.kind {
        "bad-number" | "bad-literal" | "unexpected-char" if e.token.parse::<f64>().is_ok() => "C13/accepts-nonjson-number".to_string(),
        "bad-u-escape" if e.token.contains('+') || e.token.contains('-') => "C13/accepts-u-escape-with-sign".to_string(),
        "missing-comma-object" => "C13/accepts-object-without-comma".to_string(),
        k => format!("C13/accepts-invalid:{}", k),
    }
}

/// Returns the reference verdict so callers can count / dump.
pub fn judge(r: &mut Report, text: &str, origin: &str, boundary_hint: bool) -> (Option<RV>, jsonref::Flags) {
    r.eval();
    let (want, flags) = jsonref::parse(text, 256);
    let got = sut_parse(text);
    let numlike = text.parse::<f64>().is_ok();
    if want.is_ok() || boundary_hint || numlike || matches!(got, Ok(Ok(_))) {
        r.nontrivial(fnv(text.as_bytes()));
    }
    r.max("max_depth_accepted_by_reference", if want.is_ok() { flags.max_depth_seen as u64 } else { 0 });
    let ex = |got: &str, want: &str| J::obj(vec![("text", J::s(show(text.as_bytes(), 200))), ("text_hex", J::s(hex(&text.as_bytes()[..text.len().min(2000)]))), ("sut", J::s(got)), ("reference", J::s(want)), ("origin", J::s(origin))]);
    match (&got, &want) {
        (Err(p), w) => {
            r.violation("C13/panic", format!("Value::parse({:?}) panicked: {}", show(text.as_bytes(), 80), p), ex(&format!("panic: {}", p), &format!("{:?}", w.as_ref().map(|_| "accept"))), replay_of(text));
        }
        (Ok(Ok(g)), Ok(w)) => {
            r.count("accepted_by_both", 1);
            if flags.lone_surrogate {
                r.count("unjudged_lone_surrogate", 1);
            } else if flags.out_of_range {
                r.count("unjudged_number_out_of_f64_range", 1);
            } else if g != w {
                r.violation("C13/wrong-value", format!("Value::parse({:?}) yields a different value than the text denotes", show(text.as_bytes(), 80)), ex(&format!("{:?}", g), &format!("{:?}", w)), replay_of(text));
            }
        }
        (Ok(Ok(g)), Err(e)) => {
            let sig = classify_accept(e);
            r.violation(&sig, format!("Value::parse accepts {:?}, which is not a JSON text ({} at byte {}{})", show(text.as_bytes(), 80), e.kind, e.pos, if e.token.is_empty() { String::new() } else { format!(", token {:?}", e.token) }), ex(&format!("Ok({:?})", g), &format!("reject: {} @{}", e.kind, e.pos)), replay_of(text));
        }
        (Ok(Err(g)), Ok(_)) => {
            if flags.lone_surrogate {
                r.count("lone_surrogate_rejected", 1);
            } else if flags.out_of_range {
                r.count("unjudged_number_out_of_f64_range", 1);
            } else {
                let kind = g.rsplit(": ").next().unwrap_or("?").to_string();
                r.violation(&format!("C13/rejects-valid:{}", kind), format!("Value::parse rejects the valid JSON text {:?}: {}", show(text.as_bytes(), 80), g), ex(g, "accept"), replay_of(text));
            }
        }
        (Ok(Err(_)), Err(_)) => {
            r.count("rejected_by_both", 1);
        }
    }
    (want.ok(), flags)
}

/// Serialiser check on a generated value.
fn judge_serialize(r: &mut Report, v: &RV, indent: Option<usize>) {
    r.eval();
    let sv = to_sut(v);
    let text = match catch_unwind(|| match indent {
        None => sv.serialize(),
        Some(n) => sv.serialize_pretty(n),
    }) {
        Ok(t) => t,
        Err(p) => {
            r.violation("C13/serialize-panic", format!("serialize panicked: {}", panic_msg(&*p)), J::s(format!("{:?}", v)), vec![]);
            return;
        }
    };
    r.nontrivial(fnv(text.as_bytes()) ^ indent.map(|n| n as u64 + 1).unwrap_or(0));
    r.count("serialised_values", 1);
    let mut cj = String::new();
    jsonref::canon(v, &mut cj);
    let ex = |why: &str| J::obj(vec![("value_canonical", J::s(show(cj.as_bytes(), 300))), ("indent", indent.map(|n| J::u(n as u64)).unwrap_or(J::Null)), ("serialised", J::s(show(text.as_bytes(), 300))), ("serialised_hex", J::s(hex(&text.as_bytes()[..text.len().min(1500)]))), ("why", J::s(why))]);
    let rep = vec!["c13".to_string(), "--value-canon-hex".into(), hex(cj.as_bytes()), "--indent".into(), indent.map(|n| n.to_string()).unwrap_or("none".into())];
    let (back, _) = jsonref::parse(&text, usize::MAX);
    match back {
        Err(e) => r.violation(&format!("C13/serialize-invalid:{}", e.kind), format!("serialised text is not valid JSON ({} at byte {})", e.kind, e.pos), ex(&format!("{} @{}", e.kind, e.pos)), rep.clone()),
        Ok(b) => {
            if &b != v {
                r.violation("C13/serialize-wrong-value", "serialised text denotes a different value", ex("reference parse of the output differs from the value"), rep.clone());
            }
        }
    }
    // depth of generated values stays below the limit, so the SUT must parse its own output back
    match sut_parse(&text) {
        Ok(Ok(b)) => {
            if &b != v {
                r.violation("C13/roundtrip-mismatch", "parse(serialize(v)) != v", ex(&format!("parsed back as {:?}", b).chars().take(300).collect::<String>()), rep);
            }
        }
        Ok(Err(e)) => r.violation("C13/roundtrip-rejected", format!("parse(serialize(v)) fails: {}", e), ex(&e), rep),
        Err(p) => r.violation("C13/panic", format!("parse(serialize(v)) panicked: {}", p), ex(&p), rep),
    }
}

// ---------------------------------------------------------------- generators

fn gen_string(rng: &mut Rng) -> String {
    let n = match rng.below(10) {
        0 => 0,
        1..=6 => rng.urange(1, 6),
        _ => rng.urange(7, 40),
    };
    let mut s = String::new();
    for _ in 0..n {
        let c = match rng.below(12) {
            0 => char::from_u32(rng.below(0x20) as u32).unwrap(),
            1 => *rng.pick(&['"', '\\', '/', '\u{7f}', '\u{8}', '\u{c}', '\n', '\r', '\t']),
            2 => *rng.pick(&['\u{80}', '\u{ff}', '\u{2028}', '\u{2029}', '\u{fffd}', '\u{ffff}', '\u{fdd0}', '\u{d7ff}', '\u{e000}']),
            3 => *rng.pick(&['\u{10000}', '\u{10ffff}', '😀', '𝄞', '\u{1f1e9}']),
            4 => loop {
                if let Some(c) = char::from_u32(rng.below(0x110000) as u32) {
                    break c;
                }
            },
            _ => (b' ' + rng.below(95) as u8) as char,
        };
        s.push(c);
    }
    s
}

fn gen_number(rng: &mut Rng) -> f64 {
    match rng.below(12) {
        0 => 0.0,
        1 => -0.0,
        2 => rng.range(0, 1000) as f64,
        3 => -(rng.range(0, 100000) as f64),
        4 => (rng.range(0, 1000000) as f64) / 1000.0,
        5 => *rng.pick(&[9007199254740992.0, 9007199254740993.0, 18446744073709551615.0, 1e21, 1e22, 123456789012345678901234567890.0, -9223372036854775808.0]),
        6 => *rng.pick(&[f64::MIN_POSITIVE, 5e-324, 2.2250738585072009e-308, f64::MAX, f64::MIN, f64::EPSILON, 1e-7, 1e300, 0.1, 1.0 / 3.0]),
        7 => (rng.next_u64() >> 11) as f64 * if rng.chance(1, 2) { -1.0 } else { 1.0 },
        _ => loop {
            let f = f64::from_bits(rng.next_u64());
            if f.is_finite() {
                break f;
            }
        },
    }
}

pub fn gen_value(rng: &mut Rng, depth: usize) -> RV {
    let leaf = depth == 0 || rng.chance(2, 5);
    if leaf {
        match rng.below(6) {
            0 => RV::Null,
            1 => RV::Bool(rng.chance(1, 2)),
            2 | 3 => RV::Num(gen_number(rng)),
            _ => RV::Str(gen_string(rng)),
        }
    } else if rng.chance(1, 2) {
        let n = rng.urange(0, 5);
        RV::Arr((0..n).map(|_| gen_value(rng, depth - 1)).collect())
    } else {
        let n = rng.urange(0, 5);
        let mut o: Vec<(String, RV)> = (0..n).map(|_| (gen_string(rng), gen_value(rng, depth - 1))).collect();
        if n >= 2 && rng.chance(1, 6) {
            // duplicate key: member order and duplicates are part of "document order"
            let k = o[0].0.clone();
            o[n - 1].0 = k;
        }
        RV::Obj(o)
    }
}

fn ws(rng: &mut Rng, out: &mut String) {
    if rng.chance(1, 3) {
        for _ in 0..rng.urange(1, 3) {
            out.push(*rng.pick(&[' ', '\t', '\n', '\r']));
        }
    }
}

fn render_string(rng: &mut Rng, s: &str, out: &mut String) {
    out.push('"');
    let mut buf = [0u16; 2];
    for c in s.chars() {
        let must_escape = (c as u32) < 0x20 || c == '"' || c == '\\';
        let short = match c {
            '"' => Some("\\\""),
            '\\' => Some("\\\\"),
            '/' => Some("\\/"),
            '\u{8}' => Some("\\b"),
            '\u{c}' => Some("\\f"),
            '\n' => Some("\\n"),
            '\r' => Some("\\r"),
            '\t' => Some("\\t"),
            _ => None,
        };
        let mode = rng.below(4);
        if let (Some(sh), true) = (short, mode < 2) {
            out.push_str(sh);
        } else if must_escape || mode == 3 {
            for u in c.encode_utf16(&mut buf) {
                if rng.chance(1, 2) {
                    out.push_str(&format!("\\u{:04x}", u));
                } else {
                    out.push_str(&format!("\\u{:04X}", u));
                }
            }
        } else {
            out.push(c);
        }
    }
    out.push('"');
}

fn render_number(rng: &mut Rng, n: f64, out: &mut String) {
    let e = format!("{:e}", n);
    let s = match rng.below(5) {
        0 => e,
        1 => e.replace('e', "E"),
        2 => {
            // explicit plus sign on a non-negative exponent
            match e.find('e') {
                Some(i) if !e[i + 1..].starts_with('-') => format!("{}e+{}", &e[..i], &e[i + 1..]),
                _ => e,
            }
        }
        3 if n.fract() == 0.0 && n.abs() < 1e15 => format!("{}", n as i64).replace("0", "0"),
        _ => format!("{}", n),
    };
    // `-0` as integer form loses the sign, which is the same JSON number
    out.push_str(&s);
}

pub fn render(rng: &mut Rng, v: &RV, out: &mut String) {
    match v {
        RV::Null => out.push_str("null"),
        RV::Bool(b) => out.push_str(if *b { "true" } else { "false" }),
        RV::Num(n) => render_number(rng, *n, out),
        RV::Str(s) => render_string(rng, s, out),
        RV::Arr(a) => {
            out.push('[');
            ws(rng, out);
            for (i, x) in a.iter().enumerate() {
                if i > 0 {
                    out.push(',');
                    ws(rng, out);
                }
                render(rng, x, out);
                ws(rng, out);
            }
            out.push(']');
        }
        RV::Obj(o) => {
            out.push('{');
            ws(rng, out);
            for (i, (k, x)) in o.iter().enumerate() {
                if i > 0 {
                    out.push(',');
                    ws(rng, out);
                }
                render_string(rng, k, out);
                ws(rng, out);
                out.push(':');
                ws(rng, out);
                render(rng, x, out);
                ws(rng, out);
            }
            out.push('}');
        }
    }
}

fn nested(kind: usize, depth: usize) -> String {
    let mut s = String::new();
    match kind {
        0 => {
            s.push_str(&"[".repeat(depth));
            s.push_str(&"]".repeat(depth));
        }
        1 => {
            for _ in 0..depth {
                s.push_str("{\"a\":");
            }
            s.push('1');
            s.push_str(&"}".repeat(depth));
        }
        _ => {
            for d in 0..depth {
                s.push_str(if d % 2 == 0 { "[" } else { "{\"k\":" });
            }
            s.push_str("null");
            for d in (0..depth).rev() {
                s.push_str(if d % 2 == 0 { "]" } else { "}" });
            }
        }
    }
    s
}

fn enumerate_over(alpha: &[&str], maxlen: usize, shard: usize, nsh: usize, mut f: impl FnMut(&str, u64)) {
    // mixed-radix counter over token indices; the shard owns strings whose index % nsh == shard
    let k = alpha.len() as u64;
    let mut idx: u64 = 0;
    for len in 0..=maxlen {
        let total = k.pow(len as u32);
        for n in 0..total {
            if (idx % nsh as u64) as usize == shard {
                let mut s = String::new();
                let mut x = n;
                for _ in 0..len {
                    s.push_str(alpha[(x % k) as usize]);
                    x /= k;
                }
                f(&s, idx);
            }
            idx += 1;
        }
    }
}

pub fn main(args: &Args) {
    let out = args.get("out").expect("--out");
    if let Some(h) = args.get("text-hex") {
        let t = String::from_utf8(unhex(h).unwrap()).unwrap();
        let mut r = Report::new();
        judge(&mut r, &t, "replay", true);
        r.nontrivial(1);
        r.nontrivial(2);
        r.write(out, "replay of one recorded text", None, &[]);
        return;
    }
    if let Some(h) = args.get("value-canon-hex") {
        let t = String::from_utf8(unhex(h).unwrap()).unwrap();
        let v = jsonref::parse(&t, usize::MAX).0.expect("canonical value text");
        let mut r = Report::new();
        let ind = args.get("indent").and_then(|s| s.parse::<usize>().ok());
        judge_serialize(&mut r, &v, ind);
        r.nontrivial(1);
        r.nontrivial(2);
        r.write(out, "replay of one recorded value", None, &[]);
        return;
    }
    let thorough = args.thorough();
    let seed = args.seed();
    let n = ncpu();
    let work = args.get("work").map(|s| s.to_string()).unwrap_or("/verif/.work".into());
    let results = par(n, move |shard, nsh| {
        let mut r = Report::new();
        let mut dump: Vec<String> = Vec::new();
        let mut rng = Rng::derive(seed, 1300 + shard as u64);
        let mut dump_case = |dump: &mut Vec<String>, text: &str, want: &Option<RV>, flags: &jsonref::Flags| {
            if flags.lone_surrogate || flags.out_of_range {
                return;
            }
            let mut c = String::new();
            if let Some(v) = want {
                jsonref::canon(v, &mut c);
            }
            dump.push(format!("{}\t{}\t{}", hex(text.as_bytes()), if want.is_some() { "ok" } else { "err" }, hex(c.as_bytes())));
        };

        // (1) all strings over the 16-symbol character alphabet
        let chars = ["{", "}", "[", "]", ":", ",", "\"", "\\", "u", "0", "1", "-", ".", "e", "t", " "];
        let l1 = if thorough { 6 } else { 5 };
        enumerate_over(&chars, l1, shard, nsh, |s, idx| {
            let (w, fl) = judge(&mut r, s, "chars16", false);
            r.count("enum_char_strings", 1);
            if idx % 97 == 0 {
                dump_case(&mut dump, s, &w, &fl);
            }
        });
        // (2) all token sequences (structure-level coverage incl. literals and members)
        let toks = ["{", "}", "[", "]", ",", ":", "\"a\"", "1", "\"a\":1", "true", "null", " ", "-1.5e2"];
        let l2 = if thorough { 6 } else { 5 };
        enumerate_over(&toks, l2, shard, nsh, |s, idx| {
            let (w, fl) = judge(&mut r, s, "tokens13", false);
            r.count("enum_token_sequences", 1);
            if idx % 41 == 0 {
                dump_case(&mut dump, s, &w, &fl);
            }
        });
        // (3) all number-like strings
        let nums = ["+", "-", ".", "0", "1", "9", "e", "E"];
        let l3 = if thorough { 7 } else { 6 };
        enumerate_over(&nums, l3, shard, nsh, |s, idx| {
            let (w, fl) = judge(&mut r, s, "numberlike8", false);
            r.count("enum_number_like", 1);
            if idx % 37 == 0 {
                dump_case(&mut dump, s, &w, &fl);
            }
        });
        // (4) literal look-alikes f64::from_str knows about, alone and inside containers
        if shard == 0 {
            for w in ["NaN", "nan", "inf", "-inf", "+inf", "infinity", "-infinity", "Infinity", "INF", "1e999", "-1e999", "1e-999", "0x10", "1_0", "1f", "١", "Null", "TRUE", "nul", "truee", "\u{feff}1", "1\u{a0}", "\u{a0}1", "\u{2028}1", "'a'", "\"\\u+abc\"", "\"\\u-abc\"", "\"\\u 123\"", "\"\\uD83D\"", "\"\\uD83D\\uDE00\"", "\"\\uDE00\\uD83D\"", "\"\\uD83Dx\"", "\"\\uD83D\\n\"", "\"\\uD83D\\u0041\"", "\"\\x41\"", "\"\\U0041\"", "\"\\a\"", "\"\u{7f}\"", "\"\t\"", "\"\\\u{e9}\"", "\"\\u00\u{e9}9\"", "{\"a\":1 \"b\":2}", "{\"a\":1\"b\":2}", "{\"a\":1\n\"b\":2}", "[1 2]", "[1,,2]", "{,}", "{\"a\":1,}", "{\"a\"}", "{\"a\":}", "{1:2}", "[\"a\":1]", "", " ", "\n", "[", "]", "{\"a\":[}]", "1 ", " 1", "\r\n1\t", "\u{b}1", "\u{c}1"] {
                for wrap in ["%", "[%]", "{\"k\":%}", " % ", "[1,%]", "[%,1]"] {
                    let s = wrap.replace('%', w);
                    let (wv, fl) = judge(&mut r, &s, "handwritten-boundary", true);
                    dump_case(&mut dump, &s, &wv, &fl);
                    r.count("handwritten_boundary_texts", 1);
                }
            }
            // wide documents: many siblings of every value kind at small depth (a depth counter or any other
            // per-call state that leaks on one path shows up only after hundreds of repetitions)
            for item in ["[]", "{}", "[1]", "{\"a\":1}", "\"\"", "\"x\"", "1", "-0.5e1", "null", "true", "[[]]", "[{}]", "{\"a\":[]}", "{\"a\":{}}", "\"\\u00e9\"", "\"\\ud83d\\ude00\""] {
                for n in [2usize, 255, 256, 257, 300, 1000] {
                    let arr = format!("[{}]", vec![item; n].join(","));
                    judge(&mut r, &arr, "wide-array", true);
                    let obj = format!("{{{}}}", (0..n).map(|i| format!("\"k{}\":{}", i, item)).collect::<Vec<_>>().join(","));
                    judge(&mut r, &obj, "wide-object", true);
                    let nested = format!("[[{}],{{\"z\":[{}]}}]", vec![item; n].join(" , "), vec![item; n / 2 + 1].join(","));
                    judge(&mut r, &nested, "wide-nested", true);
                    r.count("wide_documents", 3);
                    r.max("max_siblings_tried", n as u64);
                }
            }
            // nesting depth around the limit (and well beyond)
            for kind in 0..3 {
                for d in [1usize, 2, 100, 255, 256, 257, 258, 300, 1000, 5000] {
                    let s = nested(kind, d);
                    judge(&mut r, &s, "nesting", true);
                    r.count("nesting_texts", 1);
                    r.max("max_nesting_tried", d as u64);
                }
            }
        }
        // (5) grammar-generated documents and their single-edit mutants
        let ndocs = (if thorough { 60_000 } else { 4_000 }) / nsh;
        for d in 0..ndocs {
            let dd = rng.urange(0, 5);
            let v = gen_value(&mut rng, dd);
            let mut text = String::new();
            ws(&mut rng, &mut text);
            render(&mut rng, &v, &mut text);
            ws(&mut rng, &mut text);
            let (w, fl) = judge(&mut r, &text, "generated", true);
            r.count("generated_documents", 1);
            if let Some(wv) = &w {
                if !fl.out_of_range && wv != &v {
                    r.harness_error(format!("generator/recogniser disagree on {:?}", show(text.as_bytes(), 120)));
                }
            } else {
                r.harness_error(format!("recogniser rejects generated document {:?}", show(text.as_bytes(), 120)));
            }
            if d % 5 == 0 {
                dump_case(&mut dump, &text, &w, &fl);
            }
            if shard == 0 && d < 2 {
                r.sample(J::obj(vec![("kind", J::s("generated document")), ("text", J::s(show(text.as_bytes(), 160)))]));
            }
            // mutants
            let cs: Vec<char> = text.chars().collect();
            let npos = if cs.len() <= 60 { cs.len() } else { 24 };
            for p in 0..npos {
                let pos = if cs.len() <= 60 { p } else { rng.usize(cs.len()) };
                let edits: [Option<char>; 4] = [None, Some(*rng.pick(&['"', ',', ':', '{', '}', '[', ']', '\\', '0', '+', '-', '.', 'e', ' ', 'u', '\n', '\u{1}', 'é'])), None, None];
                for (ei, e) in edits.iter().enumerate().take(3) {
                    let mut m: Vec<char> = cs.clone();
                    match (ei, e) {
                        (0, _) => {
                            m.remove(pos);
                        }
                        (1, Some(c)) => m[pos] = *c,
                        _ => m.insert(pos, *rng.pick(&['"', ',', ':', '{', ']', '\\', '0', '+', ' ', 'u', '1'])),
                    }
                    let ms: String = m.into_iter().collect();
                    let (mw, mfl) = judge(&mut r, &ms, "single-edit-mutant", true);
                    r.count("mutants", 1);
                    if mw.is_none() {
                        r.count("mutants_invalid", 1);
                    }
                    if (p + ei) % 29 == 0 {
                        dump_case(&mut dump, &ms, &mw, &mfl);
                    }
                }
            }
        }
        // (6) serialiser over generated values
        let nvals = (if thorough { 200_000 } else { 12_000 }) / nsh;
        for k in 0..nvals {
            let dd = rng.urange(0, 5);
            let v = gen_value(&mut rng, dd);
            judge_serialize(&mut r, &v, None);
            judge_serialize(&mut r, &v, Some(k % 9));
            if shard == 0 && k < 1 {
                let mut c = String::new();
                jsonref::canon(&v, &mut c);
                r.sample(J::obj(vec![("kind", J::s("generated value (canonical form)")), ("value", J::s(show(c.as_bytes(), 160)))]));
            }
        }
        // wide values through the serialiser and back (the parser must take its own output)
        if shard == 0 {
            for n in [256usize, 300, 1000] {
                for leaf in [RV::Arr(vec![]), RV::Obj(vec![]), RV::Null, RV::Str(String::new()), RV::Num(1.0)] {
                    let v = RV::Arr(vec![leaf.clone(); n]);
                    judge_serialize(&mut r, &v, None);
                    judge_serialize(&mut r, &v, Some(2));
                    let o = RV::Obj((0..n).map(|i| (format!("k{}", i), leaf.clone())).collect());
                    judge_serialize(&mut r, &o, None);
                    judge_serialize(&mut r, &o, Some(1));
                }
            }
        }
        // deep values through every indent: arrays in arrays, objects in objects, alternating, to depth 120 (below the
        // parser's limit), with non-empty innermost containers so that the deepest level is really indented
        if shard == 1 % nsh {
            for depth in [1usize, 2, 8, 9, 10, 11, 13, 16, 17, 22, 32, 33, 64, 65, 66, 100, 120] {
                for shape in 0..3 {
                    let mut v = if shape == 1 { RV::Obj(vec![("leaf".into(), RV::Num(1.0)), ("b".into(), RV::Null)]) } else { RV::Arr(vec![RV::Num(1.0), RV::Str("x".into())]) };
                    for d in 1..depth {
                        v = match (shape, d % 2) {
                            (0, _) | (2, 0) => RV::Arr(vec![v]),
                            _ => RV::Obj(vec![(format!("k{}", d), v)]),
                        };
                    }
                    judge_serialize(&mut r, &v, None);
                    for ind in 0..=8usize {
                        judge_serialize(&mut r, &v, Some(ind));
                        r.count("deep_values_pretty_printed", 1);
                    }
                }
            }
        }
        // every scalar char class once through the serialiser: all BMP chars + sampled astral, in a string
        if shard == 0 {
            let mut cp = 0u32;
            while cp < 0x11_0000 {
                let mut s = String::new();
                let hi = (cp + 0x400).min(0x11_0000);
                for c in cp..hi {
                    if let Some(ch) = char::from_u32(c) {
                        s.push(ch);
                    }
                }
                if !s.is_empty() {
                    judge_serialize(&mut r, &RV::Str(s), None);
                    r.count("unicode_blocks_serialised", 1);
                }
                cp = hi;
            }
        }
        (r, dump)
    });
    let mut total = Report::new();
    std::fs::create_dir_all(format!("{}/xcheck", work)).ok();
    let mut f = std::io::BufWriter::new(std::fs::File::create(format!("{}/xcheck/C13.tsv", work)).unwrap());
    for (r, dump) in results {
        total.merge(r);
        for l in dump {
            writeln!(f, "{}", l).unwrap();
        }
    }
    total.sample(J::obj(vec![("kind", J::s("enumerated token sequence")), ("text", J::s("{\"a\":1 \"a\":1}")), ("reference", J::s("reject: missing-comma-object"))]));
    total.sample(J::obj(vec![("kind", J::s("enumerated number-like string")), ("text", J::s("-0.1e+9")), ("reference", J::s("accept"))]));
    let rule = "all strings up to length L1 over the 16-symbol alphabet {{ }} [ ] : , \" \\ u 0 1 - . e t SP} (L1=5 quick, 6 thorough); all sequences of up to L2 tokens over 13 JSON tokens incl. literals, a member and a signed/fraction/exponent number (L2=5/6); all number-like strings up to L3 over {+,-,.,0,1,9,e,E} (L3=6/7); handwritten boundary texts x 6 contexts; nesting depths 1..5000 x 3 shapes; wide documents (2..1000 siblings of 16 value kinds in arrays, objects and nested); grammar-generated documents (every escape form, surrogate pairs, whitespace everywhere, duplicate keys) and single-edit mutants (delete/replace/insert at every position for documents <= 60 chars); generated values through serialize and serialize_pretty(0..8), incl. values nested to depth 120 under every indent. non-trivial = the reference accepts, or the SUT accepts, or Rust's float parser accepts the text, or it is a mutant/boundary text; distinct = distinct texts";
    total.write(out, rule, Some(true), &[
        "reference: hand-written RFC 8259 recogniser+evaluator (jsonref.rs), cross-validated each run against CPython json.loads on a dumped sample; escapes denoting unpaired surrogates and grammatically valid numbers beyond the finite f64 range are not judged (either answer allowed)",
        "number values are obtained with Rust's correctly-rounded float parser from tokens the recogniser has validated against the RFC grammar",
        "exhaustive refers to the three enumerated spaces",
    ]);
}

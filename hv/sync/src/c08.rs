//! C08 (native): thread pool - tasks run exactly once, panics are isolated, shutdown terminates.
//! Each scenario runs in its own short-lived process (`hv c08-one`) so that the thread table is
//! unambiguous; failpoints inside the pool are delayed according to a seeded plan to vary interleavings.
//! Monitors: task event log (exactly-once, overlap <= N, N-party barrier after the last panic),
//! lifecycle watchdog with /proc "every thread asleep with unchanged CPU ticks" test, /proc thread table
//! for worker exit.

#[path = "../../shared/pool_scenario.rs"]
mod pool_scenario;

use hvcommon::args::Args;
use hvcommon::json::J;
use hvcommon::report::Report;
use hvcommon::rng::Rng;
use hvcommon::util::{fnv, ncpu};
use pool_scenario::*;
use std::collections::{HashMap, VecDeque};
use std::process::{Command, Stdio};
use std::sync::atomic::{AtomicBool, AtomicU64, Ordering};
use std::sync::{Arc, Mutex, OnceLock};
use std::time::{Duration, Instant};

const POINTS: [&str; 13] = ["pool.stop.after_detach", "pool.execute.before_send", "pool.worker.before_lock", "pool.worker.after_recv", "pool.worker.before_exit", "pool.drop.entry", "pool.drop.before_lock_threads", "recovery.after_recv", "recovery.after_join", "recovery.after_respawn", "recovery.marker.before_send", "app.accept.before_flag_check", "app.shutdown.after_store"];

#[derive(Clone, Copy)]
enum Delay {
    None,
    Yield(u8),
    SleepUs(u32),
}

static PLAN: OnceLock<HashMap<&'static str, Delay>> = OnceLock::new();
static HITS: AtomicU64 = AtomicU64::new(0);
static FP_SEED: AtomicU64 = AtomicU64::new(0);
static POINT_HITS: Mutex<Vec<(&'static str, u64)>> = Mutex::new(Vec::new());

fn fp_handler(name: &'static str) {
    let n = HITS.fetch_add(1, Ordering::Relaxed);
    if let Ok(mut g) = POINT_HITS.try_lock() {
        match g.iter_mut().find(|(k, _)| *k == name) {
            Some(e) => e.1 += 1,
            None => g.push((name, 1)),
        }
    }
    if let Some(d) = PLAN.get().and_then(|p| p.get(name)) {
        // per-hit jitter: the delay applies to roughly two hits in three
        let mut x = FP_SEED.load(Ordering::Relaxed) ^ n.wrapping_mul(0x9E3779B97F4A7C15);
        x ^= x >> 29;
        if x % 3 == 0 {
            return;
        }
        match d {
            Delay::None => {}
            Delay::Yield(k) => {
                for _ in 0..*k {
                    std::thread::yield_now();
                }
            }
            Delay::SleepUs(us) => std::thread::sleep(Duration::from_micros(*us as u64)),
        }
    }
}

struct NativeEnv;
static T0: OnceLock<Instant> = OnceLock::new();

impl Env for NativeEnv {
    fn pause(&self, micros: u64) {
        std::thread::sleep(Duration::from_micros(micros));
    }
    fn keep_waiting(&self, rounds: u64) -> bool {
        // each round pauses 100 us (in practice 150-200 us): 2-4 s of waiting for this one condition (an idle phase of the script
        // itself does not eat the budget)
        let _ = &T0;
        rounds < 20_000
    }
}
static ENV: NativeEnv = NativeEnv;

/// (tid, comm, state, utime+stime) of every thread of this process
fn thread_table() -> Vec<(u64, String, char, u64)> {
    let mut v = Vec::new();
    if let Ok(rd) = std::fs::read_dir("/proc/self/task") {
        for e in rd.flatten() {
            let tid: u64 = e.file_name().to_string_lossy().parse().unwrap_or(0);
            let comm = std::fs::read_to_string(e.path().join("comm")).unwrap_or_default().trim().to_string();
            let stat = std::fs::read_to_string(e.path().join("stat")).unwrap_or_default();
            // fields after the last ')': state is the first, utime/stime are the 12th and 13th
            if let Some(p) = stat.rfind(')') {
                let f: Vec<&str> = stat[p + 1..].split_whitespace().collect();
                if f.len() > 13 {
                    let state = f[0].chars().next().unwrap_or('?');
                    let ticks = f[11].parse::<u64>().unwrap_or(0) + f[12].parse::<u64>().unwrap_or(0);
                    v.push((tid, comm, state, ticks));
                }
            }
        }
    }
    v
}

/// Threads of this process that exist now, did not exist before the scenario started, and carry a name of their own:
/// the pool's workers, whatever the pool calls them. (Unnamed threads keep the process name: that is the pool's
/// detached recovery thread; "lifecycle" is the harness thread that runs the script.)
fn worker_threads_alive(baseline: &[u64], process_comm: &str) -> Vec<String> {
    thread_table().into_iter().filter(|t| !baseline.contains(&t.0) && !t.1.is_empty() && t.1 != process_comm && t.1 != "lifecycle").map(|t| t.1).collect()
}

/// Child process: run one scenario, print one JSON line.
pub fn one(args: &Args) {
    let n = args.u64("n", 1) as usize;
    let script = script_from(args.u64("script", 0) as usize);
    let plan_seed = args.u64("plan", 0);
    let sc = Scenario::parse(n, args.get("tasks").unwrap_or(""), script);
    silence_task_panics();
    T0.set(Instant::now()).ok();
    let baseline: Vec<u64> = thread_table().into_iter().map(|t| t.0).collect();
    let process_comm = std::fs::read_to_string("/proc/self/comm").unwrap_or_default().trim().to_string();
    // delay plan
    let mut rng = Rng::derive(plan_seed, 0x0808);
    let mut plan = HashMap::new();
    if plan_seed != 0 {
        for p in POINTS {
            let d = match rng.below(6) {
                0 | 1 => Delay::None,
                2 => Delay::Yield(rng.urange(1, 8) as u8),
                3 => Delay::SleepUs(rng.range(50, 300) as u32),
                4 => Delay::SleepUs(rng.range(300, 1500) as u32),
                _ => Delay::SleepUs(rng.range(1500, 3000) as u32),
            };
            plan.insert(p, d);
        }
    }
    PLAN.set(plan).ok();
    FP_SEED.store(plan_seed, Ordering::Relaxed);
    humphrey::verif::set_failpoint_handler(fp_handler);

    let log = Log::new();
    let returned = Arc::new(AtomicBool::new(false));
    let result: Arc<Mutex<Option<Outcome>>> = Arc::new(Mutex::new(None));
    let (sc2, log2, ret2, res2) = (sc.clone(), log.clone(), returned.clone(), result.clone());
    let h = std::thread::Builder::new().name("lifecycle".into()).spawn(move || {
        let o = run(&sc2, &ENV, log2, ret2);
        *res2.lock().unwrap() = Some(o);
    }).unwrap();
    // watchdog on the lifecycle thread
    let start = Instant::now();
    let idle_extra = if script == Script::IdleThenWork { Duration::from_micros(hvcommon_idle()) } else { Duration::ZERO };
    while !h.is_finished() && start.elapsed() < Duration::from_secs(6) + idle_extra {
        std::thread::sleep(Duration::from_millis(2));
    }
    let mut viol: Vec<(String, String)> = Vec::new();
    let mut inconclusive: Option<String> = None;
    let mut out_events = String::new();
    let mut fp = 0u64;
    let mut nevents = 0usize;
    let mut maxrun = 0usize;
    let mut monitor_events: Vec<(String, u64)> = Vec::new();
    if !h.is_finished() {
        // blocked forever? two samples one second apart: every thread asleep with unchanged CPU ticks
        let a = thread_table();
        std::thread::sleep(Duration::from_millis(1000));
        let b = thread_table();
        let me = unsafe { libc::syscall(libc::SYS_gettid) } as u64;
        let quiet = b.iter().all(|t| t.0 == me || (t.2 == 'S' && a.iter().find(|x| x.0 == t.0).map(|x| x.3 == t.3).unwrap_or(false)));
        let stage = if returned.load(Ordering::SeqCst) { "after stop/drop returned (waiting for queued tasks)" } else { "inside the lifecycle script (stop/drop or a wait did not return)" };
        let events = log.events.lock().unwrap().clone();
        let done = log.done.load(Ordering::SeqCst);
        if quiet {
            let _ = (done, &events);
            let sig = if !returned.load(Ordering::SeqCst) && matches!(script, Script::DropWithoutStop | Script::DropEarlyWithoutStop) {
                // narrow classifier: the caller is blocked in drop() of a started pool that was never stopped
                "C08/drop-without-stop-blocks-forever".to_string()
            } else {
                format!("C08/blocked-forever:{:?}", script)
            };
            viol.push((sig, format!("the caller is blocked forever {}: after 6 s every thread of the process is asleep with unchanged CPU ticks ({} threads: {})", stage, b.len(), b.iter().map(|t| format!("{}:{}", t.1, t.2)).collect::<Vec<_>>().join(","))));
        } else {
            inconclusive = Some(format!("lifecycle did not finish within 6 s but threads are still running ({})", stage));
        }
        nevents = events.len();
    } else {
        h.join().ok();
        let o = result.lock().unwrap().take().expect("outcome");
        if let Some(g) = &o.gave_up {
            // decide blocked vs slow with the same /proc test
            let a = thread_table();
            std::thread::sleep(Duration::from_millis(1000));
            let b = thread_table();
            let me = unsafe { libc::syscall(libc::SYS_gettid) } as u64;
            let quiet = b.iter().all(|t| t.0 == me || (t.2 == 'S' && a.iter().find(|x| x.0 == t.0).map(|x| x.3 == t.3).unwrap_or(false)));
            if quiet {
                let sig = if g.contains("barrier") { "C08/not-n-usable-workers" } else { "C08/queued-tasks-never-ran" };
                viol.push((sig.into(), format!("{} (5 s; every thread asleep with unchanged CPU ticks)", g)));
            } else {
                inconclusive = Some(format!("{} within 5 s, but threads are still running", g));
            }
        }
        viol.extend(check(&sc, &o));
        // every worker thread exits
        if inconclusive.is_none() && viol.is_empty() {
            let t = Instant::now();
            let mut alive = worker_threads_alive(&baseline, &process_comm);
            while !alive.is_empty() && t.elapsed() < Duration::from_secs(5) {
                std::thread::sleep(Duration::from_millis(2));
                alive = worker_threads_alive(&baseline, &process_comm);
            }
            if !alive.is_empty() {
                viol.push(("C08/worker-threads-remain".into(), format!("5 s after stop/drop returned and all tasks ran, worker threads {:?} are still alive", alive)));
            }
        }
        fp = fingerprint(&o);
        nevents = o.events.len();
        maxrun = o.max_running;
        monitor_events = o.monitor_events.clone();
        out_events = trace_string(&o);
        if out_events.len() > 600 {
            out_events.truncate(600);
        }
    }
    let hits: Vec<J> = POINT_HITS.lock().unwrap().iter().map(|(k, v)| J::Arr(vec![J::s(k), J::u(*v)])).collect();
    let j = J::obj(vec![
        ("fp", J::s(format!("{:016x}", fp))),
        ("nevents", J::u(nevents as u64)),
        ("max_running", J::u(maxrun as u64)),
        ("trace", J::s(out_events)),
        ("viol", J::Arr(viol.iter().map(|(s, w)| J::Arr(vec![J::s(s), J::s(w)])).collect())),
        ("inconclusive", inconclusive.map(J::s).unwrap_or(J::Null)),
        ("failpoint_hits", J::Arr(hits)),
        ("monitor_events", J::Arr(monitor_events.iter().map(|(k, v)| J::Arr(vec![J::s(k), J::u(*v)])).collect())),
    ]);
    println!("{}", j.to_string());
    // detached threads (recovery, possibly blocked lifecycle) must not keep the process alive
    std::process::exit(0);
}

#[derive(Clone)]
struct Spec {
    n: usize,
    tasks: String,
    script: usize,
    plan: u64,
}

fn spec_args(s: &Spec) -> Vec<String> {
    vec!["c08-one".into(), "--n".into(), s.n.to_string(), "--tasks".into(), s.tasks.clone(), "--script".into(), s.script.to_string(), "--plan".into(), s.plan.to_string()]
}

static BLOCKED_BY_SCRIPT: [AtomicU64; 9] = [AtomicU64::new(0), AtomicU64::new(0), AtomicU64::new(0), AtomicU64::new(0), AtomicU64::new(0), AtomicU64::new(0), AtomicU64::new(0), AtomicU64::new(0), AtomicU64::new(0)];

fn hvcommon_idle() -> u64 {
    IDLE_MICROS
}

fn run_spec(s: &Spec, r: &mut Report) {
    if BLOCKED_BY_SCRIPT[s.script % 9].load(Ordering::SeqCst) >= 6 {
        // the same lifecycle script has already blocked forever six times: do not spend 7 s on each further one
        r.count("scenarios_skipped_after_repeated_block", 1);
        return;
    }
    let exe = std::env::current_exe().unwrap();
    let t = Instant::now();
    let out = Command::new(&exe).args(spec_args(s)).stdin(Stdio::null()).stdout(Stdio::piped()).stderr(Stdio::piped()).output();
    r.eval();
    r.count("scenario_runs", 1);
    let mut replay = spec_args(s);
    replay[0] = "c08-replay".into();
    let desc = J::obj(vec![("workers", J::u(s.n as u64)), ("tasks", J::s(&s.tasks)), ("script", J::s(format!("{:?}", script_from(s.script)))), ("delay_plan_seed", J::u(s.plan))]);
    let out = match out {
        Ok(o) => o,
        Err(e) => {
            r.harness_error(format!("cannot spawn scenario process: {}", e));
            return;
        }
    };
    let text = String::from_utf8_lossy(&out.stdout).to_string();
    let line = text.lines().rev().find(|l| l.starts_with('{'));
    let j = match line.and_then(|l| J::parse(l).ok()) {
        Some(j) => j,
        None => {
            use std::os::unix::process::ExitStatusExt;
            let err = String::from_utf8_lossy(&out.stderr).chars().take(300).collect::<String>();
            r.violation(&format!("C08/process-died:{}", out.status.signal().map(|s| format!("signal{}", s)).unwrap_or_else(|| format!("exit{}", out.status.code().unwrap_or(-1)))), format!("scenario process died without a result: {:?} {}", out.status, err), desc, replay);
            return;
        }
    };
    r.max("max_scenario_ms", t.elapsed().as_millis() as u64);
    let fp = j.get("fp").and_then(|x| x.as_str()).unwrap_or("0").to_string();
    let nevents = j.get("nevents").and_then(|x| x.as_i64()).unwrap_or(0) as u64;
    r.count("task_events_observed", nevents);
    r.max("max_concurrency_seen", j.get("max_running").and_then(|x| x.as_i64()).unwrap_or(0) as u64);
    if nevents > 0 {
        r.set_insert("distinct_interleavings", fnv(format!("{}|{}|{}|{}", s.n, s.tasks, s.script, fp).as_bytes()));
        r.nontrivial(fnv(format!("{}|{}|{}|{}", s.n, s.tasks, s.script, fp).as_bytes()));
    }
    r.set_insert("lifecycle_scripts_seen", s.script as u64);
    if s.tasks.len() == 4 && s.n <= 3 {
        let mask: u64 = s.tasks.chars().enumerate().map(|(i, c)| if c == 'p' || c == 'q' { 1 << i } else { 0 }).sum();
        r.set_insert("panic_subsets_of_4_tasks_seen", mask);
    }
    if let Some(h) = j.get("failpoint_hits").and_then(|x| x.as_arr()) {
        for e in h {
            if let Some(a) = e.as_arr() {
                r.count(&format!("failpoint_hits.{}", a[0].as_str().unwrap_or("?")), a[1].as_i64().unwrap_or(0) as u64);
            }
        }
    }
    if let Some(h) = j.get("monitor_events").and_then(|x| x.as_arr()) {
        for e in h {
            if let Some(a) = e.as_arr() {
                r.count(&format!("monitor_events.{}", a[0].as_str().unwrap_or("?")), a[1].as_i64().unwrap_or(0) as u64);
            }
        }
    }
    if s.tasks.starts_with('M') {
        r.count("scenario_runs_with_monitor", 1);
    }
    if let Some(w) = j.get("inconclusive").and_then(|x| x.as_str()) {
        r.inconclusive(format!("{} [{} workers, tasks {:?}, {:?}]", w, s.n, s.tasks, script_from(s.script)));
    }
    if let Some(vs) = j.get("viol").and_then(|x| x.as_arr()) {
        for v in vs {
            if let Some(a) = v.as_arr() {
                let ex = J::obj(vec![("scenario", desc.clone()), ("observed", a[1].clone()), ("event_trace", j.get("trace").cloned().unwrap_or(J::Null))]);
                if a[0].as_str().map(|x| x.contains("block")).unwrap_or(false) {
                    BLOCKED_BY_SCRIPT[s.script % 9].fetch_add(1, Ordering::SeqCst);
                }
                r.violation(a[0].as_str().unwrap_or("C08/?"), format!("{} [{} workers, tasks {:?}, script {:?}, plan {}]", a[1].as_str().unwrap_or(""), s.n, s.tasks, script_from(s.script), s.plan), ex, replay.clone());
            }
        }
    }
    if r.samples.len() < 3 && nevents > 4 {
        r.sample(J::obj(vec![("scenario", desc), ("event_trace", j.get("trace").cloned().unwrap_or(J::Null))]));
    }
}

pub fn specs(seed: u64, thorough: bool) -> Vec<Spec> {
    let mut v = Vec::new();
    let mut rng = Rng::derive(seed, 0x0800);
    let plans_per = if thorough { 12 } else { 2 };
    let normal = ['r', 'y', 's', 'z'];
    // exhaustive: N in 1..3, all panic subsets of task lists of length 0..4, every lifecycle script
    for n in 1..=3usize {
        for len in 0..=4usize {
            for mask in 0..(1u32 << len) {
                for script in [0usize, 1, 2, 3, 6, 7] {
                    for p in 0..plans_per {
                        let tasks: String = (0..len).map(|i| if mask & (1 << i) != 0 { if rng.chance(1, 3) { 'q' } else { 'p' } } else { *rng.pick(&normal) }).collect();
                        let plan = if p == 0 && script % 2 == 0 && !thorough { 0 } else { rng.next_u64() | 1 };
                        v.push(Spec { n, tasks, script, plan });
                    }
                }
            }
        }
        for script in 4..6 {
            v.push(Spec { n, tasks: String::new(), script, plan: rng.next_u64() | 1 });
        }
    }
    // a restarted worker panicking again, on a one-worker pool
    for t in ["pp", "ppr", "pprp", "qqqr", "rpprp"] {
        for script in [0usize, 1, 2, 3, 6, 7] {
            v.push(Spec { n: 1, tasks: t.into(), script, plan: rng.next_u64() | 1 });
        }
    }
    // a registered monitor (subscribed to everything) with tasks that wait longer than the pool's 100 ms overload
    // threshold behind N long sleepers: being reported as overload must not change what is executed
    for n in 1..=3usize {
        for tail in ["rr", "rpr", "yqz", "rrrrrr", "pzqr"] {
            for script in [0usize, 1, 2, 3, 6] {
                let tasks = format!("M{}{}", "L".repeat(n), tail);
                v.push(Spec { n, tasks, script, plan: if script == 0 { 0 } else { rng.next_u64() | 1 } });
            }
        }
    }
    // a started pool that receives no task for more than five seconds, then work and a barrier round
    for (n, tasks) in [(1usize, "rr"), (2, "rprz"), (3, "Mrqr")] {
        v.push(Spec { n, tasks: tasks.into(), script: 8, plan: 0 });
    }
    // randomised: larger pools, up to 64 tasks
    for _ in 0..(if thorough { 12_000 } else { 600 }) {
        let n = rng.urange(1, 8);
        let len = match rng.below(4) { 0 => rng.urange(0, 6), 1 | 2 => rng.urange(6, 24), _ => rng.urange(24, 64) };
        let pp = rng.below(4);
        let tasks: String = (0..len).map(|_| if rng.below(10) < pp { if rng.chance(1, 2) { 'p' } else { 'q' } } else { *rng.pick(&normal) }).collect();
        // one random scenario in four runs with a monitor registered
        let tasks = if rng.chance(1, 4) { format!("M{}", tasks) } else { tasks };
        v.push(Spec { n, tasks, script: *rng.pick(&[0usize, 1, 2, 3, 6, 7]), plan: rng.next_u64() | 1 });
    }
    v
}

pub fn main(args: &Args) {
    let out = args.get("out").expect("--out");
    let seed = args.seed();
    let all = specs(seed, args.thorough());
    let q = Arc::new(Mutex::new(all.into_iter().collect::<VecDeque<_>>()));
    let hs: Vec<_> = (0..ncpu())
        .map(|_| {
            let q = q.clone();
            std::thread::spawn(move || {
                let mut r = Report::new();
                loop {
                    let s = q.lock().unwrap().pop_front();
                    match s {
                        Some(s) => run_spec(&s, &mut r),
                        None => break,
                    }
                }
                r
            })
        })
        .collect();
    let mut total = Report::new();
    for h in hs {
        total.merge(h.join().unwrap());
    }
    total.write(out, "thread-pool scenarios, one process each: N in 1..3 x every panic subset of every task list of length 0..4 (task bodies return/yield/spin/sleep, panic before or after work) x 6 lifecycle scripts (wait+barrier round+stop+drop, stop with tasks still queued+drop, wait+barrier round+drop without stop, immediate drop without stop, and restart: run-stop-start-run followed by stop+drop or drop) + never-started and start-stop-drop pools + pools left idle for 5.6 s before any task + repeated panics on a one-worker pool + pools with a registered monitor whose tasks queue for more than the 100 ms overload threshold behind N long sleepers + random scenarios (one in four with a monitor) with 1..8 workers and up to 64 tasks; each under a seeded delay plan on 11 failpoints inside pool/recovery code. distinct = distinct (scenario, sequence of (event, task, worker name)) i.e. observed interleavings; non-trivial = at least one task event", None, &["interleavings are sampled (delay plans + OS scheduling), not enumerated: the property's systematic preemption-bounded quantifier is not delivered by this family", "blocked-forever is decided by a 6 s watchdog plus two /proc samples one second apart showing every thread asleep with unchanged CPU ticks; otherwise the run is inconclusive", "the pool's recovery thread is detached by design and is not counted as a worker thread"]);
}

pub fn replay_one(args: &Args) {
    let out = args.get("out").expect("--out");
    let s = Spec { n: args.u64("n", 1) as usize, tasks: args.get("tasks").unwrap_or("").to_string(), script: args.u64("script", 0) as usize, plan: args.u64("plan", 0) };
    let mut r = Report::new();
    for _ in 0..8 {
        run_spec(&s, &mut r);
    }
    r.nontrivial(1);
    r.nontrivial(2);
    r.write(out, "replay: the recorded scenario and delay plan, 8 runs (OS scheduling is not reproducible)", None, &[]);
}

//! C07: responses serialise to valid HTTP and parse back; the client returns what was sent.
//! (a) `Vec<u8>::from(Response)` judged by the strict reference reader, then parsed back;
//! (b) `Response::from_stream` on reference-generated server messages under read plans;
//! (c) `Client::get/post/put/delete(..).send()` against a scripted loopback server incl. redirect chains.

use humphrey::http::cookie::{SameSite, SetCookie};
use humphrey::http::headers::HeaderType;
use humphrey::http::{Response, StatusCode};
use humphrey::Client;
use hvcommon::args::Args;
use hvcommon::httpref::{parse_response, Parse};
use hvcommon::json::J;
use hvcommon::net::{Play, ScriptedServer};
use hvcommon::reader::{plan_to_string, plans_for, Plan, ScriptedReader};
use hvcommon::report::Report;
use hvcommon::respgen::{compositions, gen_body, gen_response, reasons, Framing, RespModel, CODES};
use hvcommon::rng::Rng;
use hvcommon::util::{fnv, hex, ncpu, panic_msg, par, show};
use std::convert::TryFrom;
use std::panic::{catch_unwind, AssertUnwindSafe};
use std::time::Duration;

const KNOWN_NAMES: [&str; 10] = ["Content-Type", "Server", "Date", "ETag", "Cache-Control", "Location", "Age", "Allow", "Link", "Content-Language"];

fn gen_token_value(rng: &mut Rng) -> String {
    let n = rng.urange(0, 24);
    let mut v = String::new();
    for _ in 0..n {
        match rng.below(10) {
            0 => v.push(' '),
            1 => v.push(*rng.pick(&['é', '日', '😀'])),
            _ => v.push((0x21 + rng.below(0x5e) as u8) as char),
        }
    }
    v.trim().to_string()
}

fn cookie_token(rng: &mut Rng, lo: usize) -> String {
    (0..rng.urange(lo, 10)).map(|_| *rng.pick(&['a', 'B', 'c', '0', '9', '-', '_', '.', '%', '~'])).collect()
}

struct BuiltResponse {
    code: u16,
    /// expected field lines (lower-cased name, value) in insertion order
    fields: Vec<(String, String)>,
    body: Vec<u8>,
    resp: Response,
    desc: J,
}

/// Build a response through the public API and, independently, the field lines it must produce.
fn build_response(rng: &mut Rng, code: u16, with_cl: bool, thorough: bool) -> BuiltResponse {
    let status = match StatusCode::try_from(code) {
        Ok(s) => s,
        Err(_) => panic!("status code {} is not modelled", code),
    };
    let n = match rng.below(6) {
        0 => 0,
        1..=3 => rng.urange(1, 200),
        4 => rng.urange(200, 5000),
        _ => rng.urange(0, if thorough { 65536 } else { 20000 }),
    };
    let body = gen_body(rng, n);
    let mut resp = if rng.chance(1, 2) { Response::new(status, &body) } else { Response::empty(status).with_bytes(&body) };
    let mut fields: Vec<(String, String)> = Vec::new();
    let nf = match rng.below(5) {
        0 => 0,
        1..=3 => rng.urange(1, 8),
        _ => rng.urange(8, 40),
    };
    let mut cookies = Vec::new();
    for _ in 0..nf {
        match rng.below(5) {
            0 => {
                // Set-Cookie through every combination of attributes
                let bits = rng.below(128);
                let (name, value) = (cookie_token(rng, 1), cookie_token(rng, 0));
                let mut c = SetCookie::new(&name, &value);
                let mut want = format!("{}={}", name, value);
                if bits & 1 != 0 {
                    let e = "Wed, 21 Oct 2015 07:28:00 GMT";
                    c = c.with_expires(e);
                    want += &format!("; Expires={}", e);
                }
                if bits & 2 != 0 {
                    let s = rng.below(100000);
                    c = c.with_max_age(Duration::from_secs(s));
                    want += &format!("; Max-Age={}", s);
                }
                if bits & 4 != 0 {
                    c = c.with_domain("example.com");
                    want += "; Domain=example.com";
                }
                if bits & 8 != 0 {
                    c = c.with_path("/a/b");
                    want += "; Path=/a/b";
                }
                let ss = rng.below(4);
                if ss > 0 {
                    let (v, t) = match ss {
                        1 => (SameSite::Strict, "Strict"),
                        2 => (SameSite::Lax, "Lax"),
                        _ => (SameSite::None, "None"),
                    };
                    c = c.with_same_site(v);
                    want += &format!("; SameSite={}", t);
                }
                if bits & 16 != 0 {
                    c = c.with_secure(true);
                    want += "; Secure";
                }
                if bits & 32 != 0 {
                    c = c.with_http_only(true);
                    want += "; HttpOnly";
                }
                resp = resp.with_cookie(c);
                fields.push(("set-cookie".into(), want.clone()));
                cookies.push(want);
            }
            1 | 2 => {
                let name = *rng.pick(&KNOWN_NAMES);
                let v = gen_token_value(rng);
                resp = resp.with_header(HeaderType::from(name), &v);
                fields.push((name.to_ascii_lowercase(), v));
            }
            _ => {
                let name = format!("X-{}", cookie_token(rng, 1)).replace('%', "p");
                let v = gen_token_value(rng);
                resp = resp.with_header(name.as_str(), &v);
                fields.push((name.to_ascii_lowercase(), v));
            }
        }
    }
    if with_cl {
        resp = resp.with_header(HeaderType::ContentLength, body.len().to_string());
        fields.push(("content-length".into(), body.len().to_string()));
    }
    let desc = J::obj(vec![("status", J::u(code as u64)), ("nfields", J::u(fields.len() as u64)), ("set_cookies", J::arr_s(&cookies[..cookies.len().min(3)])), ("body_len", J::u(body.len() as u64)), ("content_length_header", J::Bool(with_cl))]);
    BuiltResponse { code, fields, body, resp, desc }
}

fn per_name(fields: &[(String, String)]) -> Vec<(String, Vec<String>)> {
    let mut out: Vec<(String, Vec<String>)> = Vec::new();
    for (n, v) in fields {
        match out.iter_mut().find(|(k, _)| k == n) {
            Some((_, vs)) => vs.push(v.clone()),
            None => out.push((n.clone(), vec![v.clone()])),
        }
    }
    out
}

fn check_serialise(r: &mut Report, b: BuiltResponse, seed: u64, case: u64) {
    r.eval();
    r.count("serialised", 1);
    let replay = vec!["c07".into(), "--part".into(), "a".into(), "--seed".into(), seed.to_string(), "--case".into(), case.to_string()];
    let BuiltResponse { code, fields, body, resp, desc } = b;
    let bytes: Vec<u8> = match catch_unwind(AssertUnwindSafe(|| Vec::<u8>::from(resp))) {
        Ok(b) => b,
        Err(p) => {
            r.violation("C07/serialise:panic", format!("serialising a response panicked: {}", panic_msg(&*p)), desc, replay);
            return;
        }
    };
    let ex = |why: &str| J::obj(vec![("response", desc.clone()), ("serialised", J::s(show(&bytes, 400))), ("serialised_hex_head", J::s(hex(&bytes[..bytes.len().min(600)]))), ("why", J::s(why))]);
    let has_cl = fields.iter().any(|(n, _)| n == "content-length");
    // (1) strict reference reader. Without Content-Length the message is delimited by close.
    match parse_response(&bytes, true) {
        Parse::Malformed(e) => {
            // the only tolerated deviation is the pinned CRLF after a non-empty body, seen here as excess bytes
            r.violation("C07/serialise:malformed", format!("serialised response is not valid HTTP/1.1: {}", e), ex(&e), replay.clone());
        }
        Parse::Incomplete => r.violation("C07/serialise:incomplete", "serialised response is incomplete", ex("incomplete"), replay.clone()),
        Parse::Complete(m) => {
            if m.first != "HTTP/1.1" {
                r.violation("C07/serialise:version", format!("version {:?}", m.first), ex("version"), replay.clone());
            }
            if m.status() != code || !reasons(code).contains(&m.third.as_str()) {
                r.violation("C07/serialise:status-line", format!("status line `{} {}` is not the registered `{} {}`", m.second, m.third, code, reasons(code)[0]), ex("status line"), replay.clone());
            }
            if m.headers.len() != fields.len() {
                r.violation("C07/serialise:field-count", format!("{} field lines for {} headers", m.headers.len(), fields.len()), ex("field count"), replay.clone());
            }
            for (n, want) in per_name(&fields) {
                let got: Vec<String> = m.headers_all(&n).into_iter().map(|s| s.to_string()).collect();
                if got != want {
                    let sig = if n == "set-cookie" { "C07/serialise:set-cookie" } else { "C07/serialise:field-values" };
                    r.violation(sig, format!("field {:?}: {:?} instead of {:?}", n, got, want), ex(&format!("field {}", n)), replay.clone());
                }
            }
            // body: with Content-Length, exactly the body and then nothing; without, everything until close
            let (got_body, stray): (Vec<u8>, Vec<u8>) = if has_cl { (m.body.clone(), bytes[m.consumed..].to_vec()) } else { (m.body.clone(), Vec::new()) };
            let bodyless = (100..200).contains(&code) || code == 204 || code == 304;
            if has_cl && !bodyless {
                if got_body != body {
                    r.violation("C07/serialise:body", "body bytes differ", ex("body"), replay.clone());
                }
                if !stray.is_empty() {
                    if stray == b"\r\n" && !body.is_empty() {
                        r.violation("C01/crlf-after-nonempty-body", "two bytes CRLF follow a non-empty body and are not counted in Content-Length", ex("CRLF after body"), replay.clone());
                    } else {
                        r.violation("C07/serialise:stray-bytes", format!("{} stray bytes after the body", stray.len()), ex("stray bytes"), replay.clone());
                    }
                }
            } else if !has_cl && !bodyless {
                // close-delimited: the quirk makes the body two bytes longer
                if got_body != body {
                    let mut q = body.clone();
                    q.extend_from_slice(b"\r\n");
                    if !body.is_empty() && got_body == q {
                        r.violation("C01/crlf-after-nonempty-body", "two bytes CRLF follow a non-empty body (close-delimited message: they become part of the body)", ex("CRLF after body"), replay.clone());
                    } else {
                        r.violation("C07/serialise:body", "body bytes differ", ex("body"), replay.clone());
                    }
                }
            }
        }
    }
    // (2) parse back with the crate's own response parser (only meaningful with Content-Length or no body)
    if has_cl || body.is_empty() {
        r.eval();
        r.count("parsed_back", 1);
        let mut rd = ScriptedReader::new(&bytes, Plan::Fill);
        match catch_unwind(AssertUnwindSafe(|| Response::from_stream(&mut rd))) {
            Err(p) => r.violation("C07/parse:panic", format!("Response::from_stream panicked on the crate's own output: {}", panic_msg(&*p)), ex("panic"), replay),
            Ok(Err(e)) => r.violation("C07/roundtrip:rejected", format!("Response::from_stream rejects the crate's own output: {:?}", e), ex("rejected"), replay),
            Ok(Ok(p)) => {
                let mut bad = Vec::new();
                if p.version != "HTTP/1.1" {
                    bad.push("version");
                }
                if u16::from(p.status_code) != code {
                    bad.push("status");
                }
                if p.body != body {
                    bad.push("body");
                }
                if p.headers.len() != fields.len() {
                    bad.push("field-count");
                }
                for (n, want) in per_name(&fields) {
                    let got: Vec<String> = p.headers.get_all(n.as_str()).into_iter().map(|s| s.to_string()).collect();
                    if got != want {
                        bad.push("field-values");
                    }
                }
                bad.dedup();
                if !bad.is_empty() {
                    r.violation(&format!("C07/roundtrip:differs:{}", bad.join("+")), format!("parsing the serialised response back differs in {}", bad.join(",")), ex(&bad.join(",")), replay);
                }
            }
        }
    }
}

/// Compare what the response parser returned with the server-side model.
fn compare_parsed(m: &RespModel, p: &Response) -> Vec<&'static str> {
    let mut bad = Vec::new();
    if p.version != m.version {
        bad.push("version");
    }
    if u16::from(p.status_code) != m.code {
        bad.push("status");
    }
    let want_body: &[u8] = &m.body;
    if p.body != want_body {
        bad.push("body");
    }
    let want = m.expected_fields();
    if p.headers.len() != want.len() {
        bad.push("field-count");
    }
    for (n, vals) in per_name(&want) {
        let got: Vec<String> = p.headers.get_all(n.as_str()).into_iter().map(|s| s.to_string()).collect();
        if got != vals {
            bad.push("field-values");
        }
    }
    if matches!(m.framing, Framing::Chunked(_)) && p.headers.get("Transfer-Encoding").is_some() {
        bad.push("transfer-encoding-kept");
    }
    bad.dedup();
    bad
}

fn check_parse(r: &mut Report, m: &RespModel, at: usize, plans: &[Plan], tag: &str, replay: &[String]) {
    let bytes = m.render(at);
    for plan in plans {
        r.eval();
        r.count("response_parses", 1);
        let mut rd = ScriptedReader::new(&bytes, plan.clone());
        let res = catch_unwind(AssertUnwindSafe(|| Response::from_stream(&mut rd)));
        let ex = |why: &str| J::obj(vec![("server_message", m.to_json()), ("wire", J::s(show(&bytes, 300))), ("wire_hex_head", J::s(hex(&bytes[..bytes.len().min(800)]))), ("read_plan", J::s(plan_to_string(plan))), ("space", J::s(tag)), ("why", J::s(why))]);
        let mut rep = replay.to_vec();
        rep.push("--plan".into());
        rep.push(plan_to_string(plan));
        match res {
            Err(p) => r.violation("C07/parse:panic", format!("Response::from_stream panicked on a valid server message: {}", panic_msg(&*p)), ex("panic"), rep),
            Ok(Err(e)) => r.violation(&format!("C07/parse:rejects-valid:{:?}", e), format!("valid {} response rejected: {:?} (plan {})", m.code, e, plan_to_string(plan)), ex("rejected"), rep),
            Ok(Ok(p)) => {
                let bad = compare_parsed(m, &p);
                if !bad.is_empty() {
                    let kind = match &m.framing {
                        Framing::Chunked(_) => "chunked",
                        Framing::ContentLength => "content-length",
                        _ => "header-only",
                    };
                    r.violation(&format!("C07/parse:{}:wrong-{}", kind, bad.join("+")), format!("parsed response differs from what the server sent in {} (plan {})", bad.join(","), plan_to_string(plan)), ex(&bad.join(",")), rep);
                }
            }
        }
    }
}

// ------------------------------------------------------------------ client against a scripted server

struct Hop {
    /// address index the hop is served from
    host: usize,
    target: String,
    model: RespModel,
    at: usize,
}

fn client_case(r: &mut Report, rng: &mut Rng, servers: &[ScriptedServer], hosts: &[String], seed: u64, case: u64) {
    r.eval();
    r.count("client_exchanges", 1);
    let replay = vec!["c07".into(), "--part".into(), "c".into(), "--seed".into(), seed.to_string(), "--case".into(), case.to_string()];
    let nredir = if rng.chance(1, 2) { 0 } else { rng.urange(1, 5) };
    let method = *rng.pick(&["GET", "POST", "PUT", "DELETE"]);
    let dl = rng.urange(0, 300);
    let data = gen_body(rng, dl);
    let gen_target = |rng: &mut Rng| -> (String, String) {
        let path = format!("/{}", (0..rng.urange(0, 3)).map(|_| cookie_token(rng, 1).replace('%', "x")).collect::<Vec<_>>().join("/"));
        let query = if rng.chance(1, 2) { format!("{}={}", cookie_token(rng, 1).replace('%', "y"), rng.below(1000)) } else { String::new() };
        (path, query)
    };
    let mut hops: Vec<Hop> = Vec::new();
    let mut host = rng.usize(servers.len());
    let (p0, q0) = gen_target(rng);
    let mut target = if q0.is_empty() { p0.clone() } else { format!("{}?{}", p0, q0) };
    let url = format!("http://{}{}", hosts[host], target);
    for h in 0..=nredir {
        let last = h == nredir;
        let (code, loc): (u16, Option<(usize, String, bool)>) = if last {
            (*rng.pick(&CODES.iter().copied().filter(|c| ![301u16, 302, 307].contains(c) && *c >= 200).collect::<Vec<_>>()), None)
        } else {
            let (np, nq) = gen_target(rng);
            let nt = if nq.is_empty() { np } else { format!("{}?{}", np, nq) };
            let absolute = rng.chance(1, 2);
            let nh = if absolute { rng.usize(servers.len()) } else { host };
            (*rng.pick(&[301u16, 302, 307]), Some((nh, nt, absolute)))
        };
        let mut m = gen_response(rng, code, 6, 2000, false);
        m.fields.retain(|(n, _, _)| !n.eq_ignore_ascii_case("location"));
        if let Some((nh, nt, absolute)) = &loc {
            let l = if *absolute { format!("http://{}{}", hosts[*nh], nt) } else { nt.clone() };
            let pos = rng.urange(0, m.fields.len());
            m.fields.insert(pos, ("Location".into(), 1, l));
        }
        hops.push(Hop { host, target: target.clone(), model: m, at: rng.usize(7) });
        if let Some((nh, nt, _)) = loc {
            host = nh;
            target = nt;
        }
    }
    for s in servers {
        s.clear();
        s.take_log();
    }
    // one exchange in six is with origins that keep the connection open after a complete (self-delimiting) response,
    // as keep-alive servers do: the client must not wait for the close
    let linger_ms: u64 = if rng.chance(1, 6) { 2000 } else { 0 };
    // queue the scripted responses per server in hop order
    for h in &hops {
        let bytes = h.model.render(h.at);
        let seg = if rng.chance(1, 2) { vec![] } else { vec![rng.urange(1, 40), rng.urange(1, 200), rng.urange(1, 2000)] };
        servers[h.host].push(Play::Respond { bytes, seg, gap_us: if rng.chance(1, 3) { 300 } else { 0 }, linger_ms });
    }
    // with a redirect chain, one time in four following stays off: the client must hand back the first (3xx) response
    let follow = if nredir > 0 { !rng.chance(1, 4) } else { rng.chance(1, 2) };
    let extra_header = rng.chance(1, 2);
    let t_call = std::time::Instant::now();
    let res = catch_unwind(AssertUnwindSafe(|| {
        let mut c = Client::new();
        let req = match method {
            "GET" => c.get(&url),
            "POST" => c.post(&url, data.clone()),
            "PUT" => c.put(&url, data.clone()),
            _ => c.delete(&url),
        };
        let mut req = req.map_err(|e| e.to_string())?;
        if extra_header {
            req = req.with_header("X-Probe", "p1");
        }
        req.with_redirects(follow).send().map_err(|e| e.to_string())
    }));
    let elapsed_ms = t_call.elapsed().as_millis() as u64;
    let chain: Vec<String> = hops.iter().map(|h| format!("{}{} -> {}", hosts[h.host], h.target, h.model.code)).collect();
    let ex = |why: &str| J::obj(vec![("method", J::s(method)), ("url", J::s(&url)), ("chain", J::arr_s(&chain)), ("final", hops.last().unwrap().model.to_json()), ("why", J::s(why))]);
    if nredir > 0 {
        r.count("redirect_chains", 1);
        r.max("max_redirect_chain", nredir as u64);
    }
    r.nontrivial(fnv(format!("{}{}{:?}", method, url, chain).as_bytes()));
    // server-side record
    let mut logs: Vec<Vec<hvcommon::net::Received>> = servers.iter().map(|s| s.take_log()).collect();
    let mut seen_hops = 0;
    let mut cursor = vec![0usize; servers.len()];
    for (i, h) in hops.iter().enumerate() {
        let l = &mut logs[h.host];
        if cursor[h.host] >= l.len() {
            break;
        }
        let rec = &l[cursor[h.host]];
        cursor[h.host] += 1;
        seen_hops += 1;
        match &rec.parsed {
            None => {
                r.violation("C07/client:request-malformed", format!("hop {}: the client's request is not a well-formed HTTP request: {}", i, rec.malformed.clone().unwrap_or_default()), J::obj(vec![("context", ex("request")), ("received", J::s(show(&rec.raw, 300)))]), replay.clone());
            }
            Some(q) => {
                let mut bad = Vec::new();
                if q.first != method {
                    bad.push(format!("method {} != {}", q.first, method));
                }
                if q.second != h.target {
                    bad.push(format!("target {:?} != {:?}", q.second, h.target));
                }
                if q.header("host") != Some(hosts[h.host].as_str()) {
                    bad.push(format!("Host {:?} != {:?}", q.header("host"), hosts[h.host]));
                }
                if (method == "POST" || method == "PUT") && q.body != data {
                    bad.push("request body differs".into());
                }
                if !bad.is_empty() {
                    let sig = if i > 0 && bad.len() == 1 && bad[0].starts_with("target") { "C07/client:redirect-target" } else { "C07/client:request-differs" };
                    r.violation(sig, format!("hop {}: {}", i, bad.join("; ")), J::obj(vec![("context", ex("request")), ("received", J::s(show(&rec.raw, 300)))]), replay.clone());
                }
            }
        }
    }
    if linger_ms > 0 {
        r.count("exchanges_with_connection_kept_open", 1);
        if elapsed_ms >= linger_ms {
            r.violation("C07/client:waits-for-close", format!("every response was complete and self-delimiting, yet the client returned only after {} ms, i.e. when the origin (which keeps connections open for {} ms) closed", elapsed_ms, linger_ms), ex("blocked until the peer closed"), replay.clone());
        }
    }
    match res {
        Err(p) => r.violation("C07/client:panic", format!("client panicked: {}", panic_msg(&*p)), ex("panic"), replay),
        Ok(Err(e)) => r.violation("C07/client:error", format!("client returned an error for a conforming server: {}", e), ex(&e), replay),
        Ok(Ok(resp)) => {
            let want = if follow { hops.last().unwrap() } else { &hops[0] };
            let bad = compare_parsed(&want.model, &resp);
            if !bad.is_empty() {
                r.violation(&format!("C07/client:wrong-{}", bad.join("+")), format!("client result differs from the {} response in {}", if follow { "final" } else { "first" }, bad.join(",")), ex(&bad.join(",")), replay.clone());
            }
            let expect_hops = if follow { hops.len() } else { 1 };
            if seen_hops != expect_hops {
                r.violation("C07/client:hop-count", format!("{} requests reached the servers, expected {}", seen_hops, expect_hops), ex("hop count"), replay);
            }
        }
    }
}

pub fn main(args: &Args) {
    let out = args.get("out").expect("--out");
    let seed = args.seed();
    let thorough = args.thorough();
    let only_case = args.get("case").map(|c| c.parse::<u64>().unwrap());
    let part = args.get("part").map(|s| s.to_string());
    let na: u64 = if thorough { 40_000 } else { 2_000 };
    let nb: u64 = if thorough { 60_000 } else { 3_000 };
    let nc: u64 = if thorough { 6_000 } else { 400 };
    let pid = std::process::id();
    let reports = par(ncpu(), move |shard, nsh| {
        let mut r = Report::new();
        let mine = |c: u64| match only_case {
            Some(x) => x == c && shard == 0,
            None => c % nsh as u64 == shard as u64,
        };
        let want = |p: &str| part.as_deref().map(|x| x == p).unwrap_or(true);
        // (a) serialise
        if want("a") {
            for case in 0..na {
                if !mine(case) {
                    continue;
                }
                let mut rng = Rng::derive(seed, 0x0700_0000 + case);
                let code = CODES[(case % CODES.len() as u64) as usize];
                let with_cl = rng.chance(3, 4);
                let b = build_response(&mut rng, code, with_cl, thorough);
                r.nontrivial(fnv(format!("a{}{:?}{}", code, b.fields, b.body.len()).as_bytes()));
                if case < 2 {
                    r.sample(J::obj(vec![("part", J::s("serialise")), ("response", b.desc.clone())]));
                }
                check_serialise(&mut r, b, seed, case);
            }
        }
        // (b) parse reference-generated messages
        if want("b") {
            // exhaustive chunkings of bodies up to 6 bytes
            if only_case.is_none() {
                let mut k = 0u64;
                for n in 0..=6usize {
                    for comp in compositions(n) {
                        k += 1;
                        if k % nsh as u64 != shard as u64 {
                            continue;
                        }
                        let mut rng = Rng::derive(seed, 0x0710_0000 + k);
                        let body: Vec<u8> = (0..n).map(|i| b"ab\r\n0;"[i % 6]).collect();
                        for variant in 0..3 {
                            let parts: Vec<(usize, bool, usize)> = comp.iter().map(|c| (*c, variant == 1, if variant == 2 { 2 } else { 0 })).collect();
                            let m = RespModel { version: "HTTP/1.1".into(), code: 200, reason: "OK".into(), fields: vec![("Server".into(), 1, "s".into())], body: body.clone(), framing: Framing::Chunked(parts) };
                            let len = m.render(0).len();
                            let plans = plans_for(len, &mut rng, 512, 0, 2);
                            r.count("exhaustive_chunkings", 1);
                            r.nontrivial(fnv(&m.render(0)));
                            check_parse(&mut r, &m, 0, &plans, "all-chunkings<=6", &["c07".into(), "--part".into(), "b".into(), "--seed".into(), seed.to_string()]);
                        }
                    }
                }
            }
            for case in 0..nb {
                if !mine(case) {
                    continue;
                }
                let mut rng = Rng::derive(seed, 0x0720_0000 + case);
                let code = CODES[(case % CODES.len() as u64) as usize];
                let m = gen_response(&mut rng, code, 40, if thorough { 65536 } else { 8192 }, false);
                let at = rng.usize(41);
                let len = m.render(at).len();
                let plans = plans_for(len, &mut rng, 400, 12, 3);
                r.nontrivial(fnv(&m.render(at)));
                match &m.framing {
                    Framing::Chunked(p) => {
                        r.count("chunked_messages", 1);
                        r.max("max_chunks", p.len() as u64);
                    }
                    Framing::ContentLength => r.count("content_length_messages", 1),
                    _ => r.count("header_only_messages", 1),
                }
                r.set_insert("status_codes_parsed", code as u64);
                if case < 2 {
                    r.sample(J::obj(vec![("part", J::s("parse")), ("server_message", m.to_json()), ("read_plans", J::u(plans.len() as u64))]));
                }
                check_parse(&mut r, &m, at, &plans, "generated", &["c07".into(), "--part".into(), "b".into(), "--seed".into(), seed.to_string(), "--case".into(), case.to_string()]);
            }
        }
        // (c) client against scripted servers on port 80 of per-shard loopback addresses
        if want("c") {
            let mut hosts: Vec<String> = (0..2).map(|i| format!("127.77.{}.{}", pid % 250 + 1, shard * 2 + i + 1)).collect();
            let mut servers: Vec<ScriptedServer> = match hosts.iter().map(|h| ScriptedServer::start(&format!("{}:80", h))).collect::<Result<Vec<_>, _>>() {
                Ok(s) => s,
                Err(e) => {
                    r.harness_error(format!("cannot bind scripted servers on {:?}:80: {}", hosts, e));
                    return r;
                }
            };
            // one shard also has an origin that is addressed by an IPv6 literal (there is only one IPv6 loopback address)
            if shard == 0 {
                if let Ok(s6) = ScriptedServer::start("[::1]:80") {
                    hosts.push("[::1]".into());
                    servers.push(s6);
                    r.count("ipv6_literal_origin", 1);
                }
            }
            for case in 0..nc {
                if !mine(case) {
                    continue;
                }
                let mut rng = Rng::derive(seed, 0x0730_0000 + case);
                client_case(&mut r, &mut rng, &servers, &hosts, seed, case);
            }
        }
        r
    });
    let total = Report::merge_all(reports);
    total.write(
        out,
        "(a) responses built through the public API over all 39 status codes, 0..40 headers (repeated names, Set-Cookie over all attribute combinations), bodies 0..20 KiB (64 KiB thorough): serialised bytes judged by the strict reference reader and parsed back; (b) reference-generated server messages over every status code, Content-Length / chunked (all compositions of bodies <= 6 B x 3 hex spellings exhaustively, random chunkings above) / header-only, parsed under whole, bytewise, every split point (<= 400-512 B) or 12 random, 3 multi-split plans; (c) Client::get/post/put/delete against scripted loopback servers on port 80 (one shard also with an origin addressed as http://[::1]/, one exchange in six with origins that keep the connection open, one chain in four with redirect following off) incl. redirect chains 0..5 over {301,302,307} with relative and absolute Location. distinct = distinct messages / exchange descriptions; every counted case has a start line, fields and framing to get right",
        None,
        &["reference reader hvcommon::httpref; reason phrases: RFC 9110 names and their RFC 2616/7231 predecessors are both accepted", "TCP segmentation towards the client is best effort (Nagle off, gaps); exact read plans are exercised in-process in part (b)", "chunk extensions and trailers are not generated (excluded by the property)"],
    );
}

//! C11: WebSocket endpoint - valid handshake, well-formed frames out, ping/close answered.
//! Monitors: every byte the server writes after the 101 goes through a strict frame validator on a
//! reference RFC 6455 client; the handler-side log of received messages/errors is compared with the
//! messages the client's script denotes; blocking and non-blocking receive are compared.

use humphrey::App;
use humphrey_ws::error::WebsocketError;
use humphrey_ws::restion::Restion;
use humphrey_ws::{websocket_handler, Message, WebsocketStream};
use hvcommon::args::Args;
use hvcommon::httplab::Conn;
use hvcommon::json::J;
use hvcommon::report::Report;
use hvcommon::rng::Rng;
use hvcommon::util::{fnv, hex, ncpu, par, show};
use hvcommon::wsref::{self, accept_for, Dec, RefFrame};
use std::collections::HashMap;
use std::net::{SocketAddr, TcpListener, TcpStream};
use std::sync::atomic::{AtomicBool, Ordering};
use std::sync::mpsc::{channel, Sender};
use std::sync::{Arc, Mutex};
use std::time::{Duration, Instant};

#[derive(Clone, Debug, PartialEq)]
pub enum HEv {
    Msg { text: bool, len: usize, hash: u64 },
    Err(String),
    /// non-blocking handler stopped polling because the harness said the script was over
    GaveUp,
    Returned,
}

#[derive(Clone)]
struct Behaviour {
    nonblocking: bool,
    /// poll non-blocking until "nothing yet", then take the next message with a blocking recv(), and so on
    mixed: bool,
    echo: bool,
    /// return from the handler (dropping the stream) after this many messages
    stop_after: Option<usize>,
}

pub struct St {
    behaviours: Mutex<HashMap<String, Behaviour>>,
    logs: Mutex<HashMap<String, Vec<HEv>>>,
    finish: Mutex<HashMap<String, Arc<AtomicBool>>>,
    pending_ids: Mutex<Vec<String>>,
}

fn handler(mut stream: WebsocketStream, st: Arc<St>) {
    // the connection id travels in the order of handshakes (one connection at a time per lab)
    let id = st.pending_ids.lock().unwrap().pop().unwrap_or_default();
    let b = st.behaviours.lock().unwrap().get(&id).cloned().unwrap_or(Behaviour { nonblocking: false, mixed: false, echo: false, stop_after: None });
    let fin = st.finish.lock().unwrap().get(&id).cloned().unwrap_or_default();
    let log = |e: HEv| st.logs.lock().unwrap().entry(id.clone()).or_default().push(e);
    let mut count = 0usize;
    let mut idle_since: Option<Instant> = None;
    let mut block_next = false;
    loop {
        let got: Option<Result<Message, WebsocketError>> = if b.mixed && block_next && !fin.load(Ordering::SeqCst) {
            // the previous non-blocking poll said "nothing yet": take the next message with the blocking call
            block_next = false;
            Some(stream.recv())
        } else if b.nonblocking {
            match stream.recv_nonblocking() {
                Restion::Ok(m) => Some(Ok(m)),
                Restion::Err(e) => Some(Err(e)),
                Restion::None => None,
            }
        } else {
            Some(stream.recv())
        };
        match got {
            Some(Ok(m)) => {
                idle_since = None;
                log(HEv::Msg { text: m.is_text(), len: m.bytes().len(), hash: fnv(m.bytes()) });
                if b.echo {
                    let reply = if m.is_text() { Message::new(m.bytes()) } else { Message::new_binary(m.bytes()) };
                    if stream.send(reply).is_err() {
                        log(HEv::Err("send failed".into()));
                        return;
                    }
                }
                count += 1;
                if Some(count) == b.stop_after {
                    log(HEv::Returned);
                    return;
                }
            }
            Some(Err(e)) => {
                log(HEv::Err(format!("{:?}", e)));
                return;
            }
            None => {
                block_next = true;
                // nothing yet: keep polling until the harness declares the script over and 60 ms have passed idle
                if fin.load(Ordering::SeqCst) {
                    let t = *idle_since.get_or_insert_with(Instant::now);
                    if t.elapsed() > Duration::from_millis(60) {
                        log(HEv::GaveUp);
                        return;
                    }
                }
                std::thread::sleep(Duration::from_micros(200));
            }
        }
    }
}

struct Lab {
    addr: SocketAddr,
    state: Arc<St>,
    _stop: Sender<()>,
}

impl Lab {
    fn new() -> Result<Lab, String> {
        Lab::with_timeout(None)
    }

    fn with_timeout(timeout: Option<Duration>) -> Result<Lab, String> {
        let port = hvcommon::net::free_port("127.0.0.1");
        let addr: SocketAddr = format!("127.0.0.1:{}", port).parse().unwrap();
        let (tx, rx) = channel();
        let app: App<St> = App::new_with_config(2, St { behaviours: Mutex::new(HashMap::new()), logs: Mutex::new(HashMap::new()), finish: Mutex::new(HashMap::new()), pending_ids: Mutex::new(Vec::new()) })
            .with_websocket_route("/ws", websocket_handler(handler))
            .with_connection_timeout(timeout)
            .with_shutdown(rx);
        let state = app.get_state();
        std::thread::spawn(move || {
            let _ = app.run(addr);
        });
        for _ in 0..400 {
            if TcpStream::connect(addr).is_ok() {
                return Ok(Lab { addr, state, _stop: tx });
            }
            std::thread::sleep(Duration::from_millis(3));
        }
        Err("ws lab app did not start".into())
    }
}

#[derive(Clone, Debug)]
enum Item {
    /// a message in 1..5 fragments, with control frames after some fragments
    Msg { text: bool, payload: Vec<u8>, cuts: Vec<usize>, controls: Vec<(usize, bool, Vec<u8>)> },
    Ping(Vec<u8>),
    Pong(Vec<u8>),
}

#[derive(Clone, Debug, PartialEq)]
enum End {
    ClientClose(Vec<u8>),
    ServerDrop,
    AbruptDisconnect,
}

#[derive(Clone, Debug)]
struct Script {
    key: Option<String>,
    items: Vec<Item>,
    end: End,
    nonblocking: bool,
    echo: bool,
    delivery: u8,
    /// handler alternates between non-blocking polls and blocking receives
    mixed: bool,
    /// run against the lab app that has a connection timeout configured
    timeout_app: bool,
    /// with AbruptDisconnect: after the script's frames, a masked text frame header claiming .0 payload bytes, followed
    /// by only .1 of them and the client's FIN (the peer vanishes in the middle of a frame)
    torn_tail: Option<(usize, usize)>,
}

fn gen_payload(rng: &mut Rng, text: bool) -> Vec<u8> {
    let n = match rng.below(12) {
        0 => 0,
        1..=6 => rng.urange(1, 100),
        7 | 8 => rng.urange(100, 300),
        9 if rng.chance(1, 2) => *rng.pick(&[124usize, 125, 126, 127, 128, 65534, 65535, 65536, 65537]),
        9 => rng.urange(65000, 66500),
        10 => rng.urange(300, 5000),
        _ => rng.urange(5000, 70 * 1024),
    };
    if text {
        let mut s = String::new();
        while s.len() < n {
            s.push(*rng.pick(&['a', 'Z', '0', ' ', 'é', '日', '😀', '\n']));
        }
        s.into_bytes()
    } else {
        rng.bytes(n)
    }
}

fn gen_script(rng: &mut Rng) -> Script {
    let key = match rng.below(10) {
        0 => None,
        1 => Some(String::new()),
        2 => Some((0..rng.urange(1, 256)).map(|_| (0x21 + rng.below(0x5e) as u8) as char).collect()),
        3 => Some("x".into()),
        _ => Some(wsref::b64(&rng.bytes(16))),
    };
    let n = rng.urange(1, 8);
    let mut items = Vec::new();
    for _ in 0..n {
        match rng.below(6) {
            0 => items.push(Item::Ping(rng.bytes(rng.clone().urange(0, 125)))),
            1 => items.push(Item::Pong(rng.bytes(rng.clone().urange(0, 20)))),
            _ => {
                let text = rng.chance(1, 2);
                let payload = gen_payload(rng, text);
                let nfrag = if payload.len() >= 2 { rng.urange(1, 5).min(payload.len()) } else { 1 };
                let mut cuts: Vec<usize> = (0..nfrag - 1).map(|_| rng.urange(0, payload.len())).collect();
                cuts.sort();
                let mut controls = Vec::new();
                for f in 0..nfrag.saturating_sub(1) {
                    if rng.chance(1, 3) {
                        controls.push((f, rng.chance(2, 3), rng.bytes(rng.clone().urange(0, 30))));
                    }
                }
                items.push(Item::Msg { text, payload, cuts, controls });
            }
        }
    }
    let end = match rng.below(4) {
        0 => End::ServerDrop,
        1 => End::AbruptDisconnect,
        _ => End::ClientClose(if rng.chance(1, 2) { vec![] } else { let mut v = vec![0x03, 0xe8]; v.extend_from_slice(b"bye"); v }),
    };
    if end == End::ServerDrop {
        // the handler returns right after the last message: anything the client sent after it would be unread data at
        // close time, which makes the kernel reset the connection and may destroy the server's last frames in flight
        while !matches!(items.last(), Some(Item::Msg { .. }) | None) {
            items.pop();
        }
    }
    Script { key, items, end, nonblocking: rng.chance(1, 2), echo: rng.chance(1, 2), delivery: rng.below(3) as u8, mixed: false, timeout_app: false, torn_tail: None }
}

/// Client frames in wire order (clear payloads) and the handler/server expectations derived from them.
fn frames_of(s: &Script, rng: &mut Rng) -> Vec<RefFrame> {
    let mut out = Vec::new();
    let key = |rng: &mut Rng| {
        let k = rng.bytes(4);
        Some([k[0], k[1], k[2], k[3]])
    };
    for it in &s.items {
        match it {
            Item::Ping(p) => out.push(RefFrame::new(9, true, key(rng), p.clone())),
            Item::Pong(p) => out.push(RefFrame::new(10, true, key(rng), p.clone())),
            Item::Msg { text, payload, cuts, controls } => {
                let mut bounds = vec![0];
                bounds.extend(cuts.iter().copied());
                bounds.push(payload.len());
                let nf = bounds.len() - 1;
                for f in 0..nf {
                    let op = if f == 0 { if *text { 1 } else { 2 } } else { 0 };
                    out.push(RefFrame::new(op, f + 1 == nf, key(rng), payload[bounds[f]..bounds[f + 1]].to_vec()));
                    for (after, is_ping, p) in controls {
                        if *after == f {
                            out.push(RefFrame::new(if *is_ping { 9 } else { 10 }, true, key(rng), p.clone()));
                        }
                    }
                }
            }
        }
    }
    if let End::ClientClose(p) = &s.end {
        out.push(RefFrame::new(8, true, key(rng), p.clone()));
    }
    out
}

fn script_json(s: &Script) -> J {
    J::obj(vec![
        ("key", s.key.as_ref().map(|k| J::s(show(k.as_bytes(), 40))).unwrap_or(J::Null)),
        ("items", J::Arr(s.items.iter().map(|i| J::s(match i { Item::Ping(p) => format!("ping[{}]", p.len()), Item::Pong(p) => format!("pong[{}]", p.len()), Item::Msg { text, payload, cuts, controls } => format!("{}[{}] in {} fragment(s), {} control frame(s) interleaved", if *text { "text" } else { "binary" }, payload.len(), cuts.len() + 1, controls.len()) })).collect())),
        ("end", J::s(format!("{:?}", s.end).chars().take(40).collect::<String>())),
        ("receive", J::s(if s.nonblocking { "recv_nonblocking polling" } else { "recv (blocking)" })),
        ("echo", J::Bool(s.echo)),
        ("delivery", J::s(["whole", "bytewise", "split-inside-header/length/key", "frame by frame with pauses, split inside the payload", "400 ms pauses between and inside frames (app with a 250 ms connection timeout)"][s.delivery as usize])),
        ("handler", J::s(if s.mixed { "non-blocking polls alternating with blocking recv" } else if s.nonblocking { "recv_nonblocking loop" } else { "recv" })),
    ])
}

/// Keep a script short enough for frame-by-frame delivery with pauses: at most `max_items` items and payloads of at
/// most `max_payload` bytes, no abrupt disconnect (the paused deliveries are about what IS delivered).
fn trim_for_slow(s: &mut Script, max_items: usize, max_payload: usize) {
    s.items.truncate(max_items);
    for it in s.items.iter_mut() {
        if let Item::Msg { payload, cuts, text, .. } = it {
            if payload.len() > max_payload {
                let mut n = max_payload;
                if *text {
                    while n > 0 && std::str::from_utf8(&payload[..n]).is_err() {
                        n -= 1;
                    }
                }
                payload.truncate(n);
                cuts.retain(|c| *c <= n);
            }
        }
    }
    if s.key.as_deref().map(|k| k.trim().is_empty()).unwrap_or(true) {
        s.key = Some("dGhlIHNhbXBsZSBub25jZQ==".into());
    }
    if matches!(s.end, End::AbruptDisconnect) {
        s.end = End::ClientClose(vec![]);
    }
}

fn run_script(r: &mut Report, lab: &Lab, s: &Script, id: &str, rng: &mut Rng, replay: &[String]) -> Option<Vec<HEv>> {
    r.eval();
    r.count("scripts", 1);
    let frames = frames_of(s, rng);
    let nmsgs = s.items.iter().filter(|i| matches!(i, Item::Msg { .. })).count();
    let stop_after = if s.end == End::ServerDrop { Some(nmsgs.max(1)) } else { None };
    // a server-drop script must contain at least one message for the handler to count
    if s.end == End::ServerDrop && nmsgs == 0 {
        return None;
    }
    let fin = Arc::new(AtomicBool::new(false));
    lab.state.behaviours.lock().unwrap().insert(id.to_string(), Behaviour { nonblocking: s.nonblocking, mixed: s.mixed, echo: s.echo, stop_after });
    lab.state.finish.lock().unwrap().insert(id.to_string(), fin.clone());
    lab.state.pending_ids.lock().unwrap().push(id.to_string());
    let viol = |r: &mut Report, sig: &str, what: String, extra: J| {
        r.violation(sig, format!("[{} {}] {}", if s.mixed { "mixed" } else if s.nonblocking { "non-blocking" } else { "blocking" }, ["whole", "bytewise", "split", "paused", "slow/timeout-app"][s.delivery as usize], what), J::obj(vec![("script", script_json(s)), ("observed", J::s(&what)), ("detail", extra)]), replay.to_vec());
    };
    let mut c = match Conn::open(lab.addr) {
        Ok(c) => c,
        Err(e) => {
            r.inconclusive(format!("cannot connect: {}", e));
            return None;
        }
    };
    let mut hs = "GET /ws HTTP/1.1\r\nHost: hv\r\nUpgrade: websocket\r\nConnection: Upgrade\r\nSec-WebSocket-Version: 13\r\n".to_string();
    if let Some(k) = &s.key {
        hs.push_str(&format!("Sec-WebSocket-Key: {}\r\n", k));
    }
    hs.push_str("\r\n");
    c.send(hs.as_bytes(), &[], 0).ok();
    // handshake
    match &s.key {
        None => {
            let closed = c.wait_closed(Duration::from_secs(5));
            lab.state.pending_ids.lock().unwrap().retain(|x| x != id);
            if !c.buf.is_empty() && c.buf.starts_with(b"HTTP/1.1 101") {
                viol(r, "C11/upgraded-without-key", "a request without Sec-WebSocket-Key was answered 101".into(), J::s(show(&c.buf, 120)));
            } else if lab.state.logs.lock().unwrap().contains_key(id) {
                viol(r, "C11/handler-called-without-key", "the handler was called although the request had no Sec-WebSocket-Key".into(), J::Null);
            } else if !closed {
                r.inconclusive("connection without key neither upgraded nor closed within 5 s");
            } else {
                r.count("handshakes_refused_without_key", 1);
            }
            return None;
        }
        Some(k) => match c.read_response(Duration::from_secs(10)) {
            Ok(Some(m)) if s.timeout_app && m.status() == 408 => {
                // the harness client was slower than the app's connection timeout between connect and its first byte
                r.count("slow_scripts_discarded_client_slower_than_timeout", 1);
                lab.state.pending_ids.lock().unwrap().retain(|x| x != id);
                return None;
            }
            Ok(Some(m)) => {
                let want = accept_for(k.trim_matches(|c| c == ' ' || c == '\t'));
                if m.status() != 101 || m.header("sec-websocket-accept") != Some(want.as_str()) || !m.header("upgrade").map(|u| u.eq_ignore_ascii_case("websocket")).unwrap_or(false) {
                    viol(r, "C11/handshake-wrong", format!("handshake answered {} accept {:?}, expected 101 accept {:?}", m.status(), m.header("sec-websocket-accept"), want), J::Null);
                    return None;
                }
                r.count("handshakes_ok", 1);
            }
            other => {
                viol(r, "C11/handshake-missing", format!("no 101 response: {:?}", other.map(|x| x.map(|m| m.status()))), J::Null);
                return None;
            }
        },
    }
    // send the frames under the chosen delivery
    let mut wire = Vec::new();
    let mut frame_starts = Vec::new();
    for f in &frames {
        frame_starts.push(wire.len());
        wire.extend(f.encode());
    }
    let split_hdr = s.delivery == 2;
    let send_ok = match s.delivery {
        0 => c.send(&wire, &[], 0).is_ok(),
        1 if wire.len() <= 3000 => c.send(&wire, &[1], 1).is_ok(),
        1 => c.send(&wire, &[1, 1, 1, 1, 1, 1, 1, 1, 1, 1, 1, 1, 1, 1, 4096], 1).is_ok(),
        3 | 4 => {
            // frame by frame: a pause before each frame (the handler sees "nothing yet" / waits in recv), and a second
            // pause inside the payload of the frame; delivery 4 uses pauses longer than the app's connection timeout
            let (before_ms, inside_ms) = if s.delivery == 4 { (400u64, 400u64) } else { (12, 8) };
            let mut ok = true;
            for (i, st) in frame_starts.iter().enumerate() {
                let en = frame_starts.get(i + 1).copied().unwrap_or(wire.len());
                let fb = &wire[*st..en];
                // long pauses only around the first three frames (the script may have dozens)
                let long = s.delivery == 3 || i < 3;
                std::thread::sleep(Duration::from_millis(if long { before_ms } else { 2 }));
                let cut = if fb.len() > 8 { 6 + (fb.len() - 6) / 2 } else { fb.len() };
                ok &= c.send(&fb[..cut], &[], 0).is_ok();
                if cut < fb.len() {
                    std::thread::sleep(Duration::from_millis(if long { inside_ms } else { 1 }));
                    ok &= c.send(&fb[cut..], &[], 0).is_ok();
                }
            }
            ok
        }
        _ => {
            // every frame: first byte alone, pause, next bytes up to inside the extended length / key, pause, rest
            let mut ok = true;
            for (i, st) in frame_starts.iter().enumerate() {
                let en = frame_starts.get(i + 1).copied().unwrap_or(wire.len());
                let fb = &wire[*st..en];
                let cutpoints = [1usize, 3usize.min(fb.len()), 5usize.min(fb.len()), 11usize.min(fb.len())];
                let mut p = 0;
                for cp in cutpoints {
                    if cp > p {
                        ok &= c.send(&fb[p..cp], &[], 0).is_ok();
                        p = cp;
                        std::thread::sleep(Duration::from_micros(1500));
                    }
                }
                ok &= c.send(&fb[p..], &[], 0).is_ok();
            }
            ok
        }
    };
    if !send_ok && s.end != End::ServerDrop {
        r.count("send_interrupted", 1);
    }
    if let Some((claimed, sent)) = s.torn_tail {
        let whole = RefFrame::new(1, true, Some([0x11, 0x22, 0x33, 0x44]), vec![b'z'; claimed]).encode();
        let header_len = whole.len() - claimed;
        let _ = c.send(&whole[..header_len + sent.min(claimed)], &[], 0);
        // FIN, not RST: stop writing but keep reading what the server still sends
        let _ = c.s.shutdown(std::net::Shutdown::Write);
        r.count("torn_tail_scripts", 1);
    }
    // expected server frames in order
    let mut expect: Vec<(u8, Vec<u8>)> = Vec::new();
    {
        let mut cur: Option<(bool, Vec<u8>)> = None;
        let mut delivered = 0usize;
        for f in &frames {
            match f.opcode {
                9 => expect.push((10, f.payload.clone())),
                10 => {}
                8 => expect.push((8, f.payload.clone())),
                op => {
                    if op != 0 {
                        cur = Some((op == 1, Vec::new()));
                    }
                    if let Some((_, buf)) = cur.as_mut() {
                        buf.extend_from_slice(&f.payload);
                    }
                    if f.fin {
                        let (t, p) = cur.take().unwrap();
                        delivered += 1;
                        if s.echo {
                            expect.push((if t { 1 } else { 2 }, p));
                        }
                        if Some(delivered) == stop_after {
                            break;
                        }
                    }
                }
            }
        }
        if s.end == End::ServerDrop || s.torn_tail.is_some() {
            // the handler returns (on its own, or on the read error of the torn frame) and dropping the stream sends a Close;
            // after a torn tail the client is still reading, so it sees that Close
            expect.push((8, vec![]));
        }
    }
    // read what the server writes: until Close (when one is expected), EOF, or silence
    let mut got: Vec<RefFrame> = Vec::new();
    let mut raw_seen = 0usize;
    let deadline = Instant::now() + Duration::from_secs(10);
    let mut malformed: Option<String> = None;
    'rd: loop {
        loop {
            match wsref::decode(&c.buf) {
                Dec::Frame(f, used) => {
                    let raw: Vec<u8> = c.buf.drain(..used).collect();
                    raw_seen += used;
                    if let Err(e) = wsref::validate_server_frame(&raw, &f) {
                        malformed = Some(format!("{} (frame #{} starting {})", e, got.len(), hex(&raw[..raw.len().min(12)])));
                        break 'rd;
                    }
                    got.push(f);
                }
                Dec::Incomplete => break,
            }
        }
        if c.eof || Instant::now() > deadline {
            break;
        }
        if got.len() >= expect.len() {
            if s.end == End::AbruptDisconnect {
                // nothing more is expected; give stray bytes a moment to show up
                c.fill(Duration::from_millis(30));
                if c.buf.is_empty() {
                    break;
                }
                continue;
            }
            // after the Close frame the server closes: wait for the EOF (and decode anything that still arrives)
            if !c.wait_closed(Duration::from_millis(1500)) {
                break;
            }
            continue;
        }
        c.fill(Duration::from_millis(20));
    }
    let _ = raw_seen;
    if s.end == End::AbruptDisconnect {
        drop(c.s.shutdown(std::net::Shutdown::Both));
    }
    fin.store(true, Ordering::SeqCst);
    // judge the server's output
    let leftover = c.buf.clone();
    if let Some(e) = malformed {
        // narrow classifier for the payload-only replies
        let sig = "C11/server-output-not-a-frame";
        viol(r, sig, format!("the server wrote bytes that are not a well-formed unmasked frame: {}", e), J::s(hex(&leftover[..leftover.len().min(40)])));
    } else {
        let g: Vec<(u8, Vec<u8>)> = got.iter().map(|f| (f.opcode, f.payload.clone())).collect();
        if g != expect || (!leftover.is_empty()) {
            // classify
            let pongs_expected = expect.iter().filter(|e| e.0 == 10).count();
            let pongs_got = g.iter().filter(|e| e.0 == 10).count();
            let sig = if !leftover.is_empty() || g.len() < expect.len() {
                if pongs_got < pongs_expected { "C11/control-reply-unframed" } else if expect.last().map(|e| e.0) == Some(8) && g.last().map(|e| e.0) != Some(8) { if s.end == End::ServerDrop { "C11/drop-close-not-sent" } else { "C11/close-reply-unframed" } } else { "C11/server-frames-missing" }
            } else {
                "C11/server-frames-differ"
            };
            viol(r, sig, format!("server frames {:?} (+{} undecodable bytes {:?}) instead of {:?}", g.iter().map(|e| (e.0, e.1.len())).collect::<Vec<_>>(), leftover.len(), show(&leftover, 24), expect.iter().map(|e| (e.0, e.1.len())).collect::<Vec<_>>()), J::Null);
        } else {
            r.count("server_frames_validated", got.len() as u64);
            r.count("pings_answered_by_matching_pong", expect.iter().filter(|e| e.0 == 10).count() as u64);
            if expect.last().map(|e| e.0) == Some(8) {
                r.count("close_frames_received", 1);
            }
        }
    }
    // handler-side log
    let t = Instant::now();
    let done = |l: &Vec<HEv>| l.last().map(|e| matches!(e, HEv::Err(_) | HEv::GaveUp | HEv::Returned)).unwrap_or(false);
    let mut log = lab.state.logs.lock().unwrap().get(id).cloned().unwrap_or_default();
    while !done(&log) && t.elapsed() < Duration::from_secs(5) {
        std::thread::sleep(Duration::from_millis(5));
        log = lab.state.logs.lock().unwrap().get(id).cloned().unwrap_or_default();
    }
    lab.state.logs.lock().unwrap().remove(id);
    lab.state.behaviours.lock().unwrap().remove(id);
    lab.state.finish.lock().unwrap().remove(id);
    let mut want: Vec<HEv> = Vec::new();
    for it in &s.items {
        if let Item::Msg { text, payload, .. } = it {
            want.push(HEv::Msg { text: *text, len: payload.len(), hash: fnv(payload) });
            if Some(want.len()) == stop_after {
                break;
            }
        }
    }
    match &s.end {
        End::ClientClose(_) => want.push(HEv::Err("ConnectionClosed".into())),
        End::ServerDrop => want.push(HEv::Returned),
        End::AbruptDisconnect => want.push(if s.nonblocking { HEv::GaveUp } else { HEv::Err("ReadError".into()) }),
    }
    // after an abrupt disconnect the property only says that no message is invented: WHICH error the handler gets (read
    // error, write error while echoing, connection closed) is not specified, and a polling handler may also simply see nothing
    if s.end == End::AbruptDisconnect {
        if let Some(HEv::Err(_)) = log.last() {
            let n = log.len();
            log[n - 1] = if s.nonblocking { HEv::GaveUp } else { HEv::Err("ReadError".into()) };
        }
    }
    if log != want {
        let nmsg_got = log.iter().filter(|e| matches!(e, HEv::Msg { .. })).count();
        let nmsg_want = want.iter().filter(|e| matches!(e, HEv::Msg { .. })).count();
        let sig = if s.nonblocking && split_hdr { "C11/nonblocking-partial-header" } else if nmsg_got < nmsg_want { "C11/message-not-delivered" } else if log.iter().zip(want.iter()).any(|(a, b)| matches!((a, b), (HEv::Msg { .. }, HEv::Msg { .. })) && a != b) { "C11/message-garbled" } else { "C11/handler-log-differs" };
        viol(r, sig, format!("handler saw {:?}, the client's script denotes {:?}", log.iter().map(short).collect::<Vec<_>>(), want.iter().map(short).collect::<Vec<_>>()), J::Null);
    } else {
        r.count("handler_logs_matched", 1);
        r.count("messages_delivered", want.iter().filter(|e| matches!(e, HEv::Msg { .. })).count() as u64);
    }
    Some(log)
}

fn short(e: &HEv) -> String {
    match e {
        HEv::Msg { text, len, .. } => format!("{}[{}]", if *text { "text" } else { "bin" }, len),
        HEv::Err(e) => format!("Err({})", e),
        HEv::GaveUp => "gave-up".into(),
        HEv::Returned => "returned".into(),
    }
}

pub fn main(args: &Args) {
    let out = args.get("out").expect("--out");
    let seed = args.seed();
    let only = args.get("script").map(|s| s.parse::<u64>().unwrap());
    let n: u64 = if args.thorough() { 5000 } else { 300 };
    let reports = par(if only.is_some() { 1 } else { ncpu() }, move |shard, nsh| {
        let mut r = Report::new();
        let lab = match Lab::new() {
            Ok(l) => l,
            Err(e) => {
                r.harness_error(e);
                return r;
            }
        };
        let lab_t = Lab::with_timeout(Some(Duration::from_millis(250))).ok();
        // handshake sweep: every Sec-WebSocket-Key length 0..=256 once (every SHA-1 padding class of key + GUID)
        if only.is_none() {
            let mut len = shard;
            while len <= 256 {
                let mut rng = Rng::derive(seed, 0x1120_0000 + len as u64);
                let key: String = (0..len).map(|_| (0x21 + rng.below(0x5e) as u8) as char).collect();
                let s = Script { key: Some(key), items: vec![Item::Msg { text: true, payload: b"hi".to_vec(), cuts: vec![], controls: vec![] }], end: End::ClientClose(vec![]), nonblocking: false, echo: false, delivery: 0, mixed: false, timeout_app: false, torn_tail: None };
                let mut frng = Rng::derive(seed, 0x1121_0000 + len as u64);
                run_script(&mut r, &lab, &s, &format!("hs{}", len), &mut frng, &["c11".to_string(), "--seed".into(), seed.to_string(), "--key-length".into(), len.to_string()]);
                r.count("handshake_key_lengths_swept", 1);
                r.nontrivial(0x4b00 + len as u64);
                len += nsh;
            }
        }
        // size sweep: one echoed message for every payload length around the three length classes of the frame
        // header (7-bit / 16-bit / 64-bit), text (ASCII, exact length) and binary, blocking and non-blocking receive
        if only.is_none() {
            let sizes: Vec<usize> = (0..=130).chain(65530..=65540).collect();
            for (i, len) in sizes.iter().enumerate() {
                if i % nsh != shard {
                    continue;
                }
                for (v, (text, nonblocking)) in [(true, false), (false, true)].into_iter().enumerate() {
                    let mut prng = Rng::derive(seed, 0x1130_0000 + (*len as u64) * 2 + v as u64);
                    let payload: Vec<u8> = if text { (0..*len).map(|_| b'a' + prng.below(26) as u8).collect() } else { prng.bytes(*len) };
                    let s = Script { key: Some("dGhlIHNhbXBsZSBub25jZQ==".into()), items: vec![Item::Msg { text, payload, cuts: vec![], controls: vec![] }], end: End::ClientClose(vec![]), nonblocking, echo: true, delivery: 0, mixed: false, timeout_app: false, torn_tail: None };
                    let mut frng = Rng::derive(seed, 0x1131_0000 + *len as u64);
                    run_script(&mut r, &lab, &s, &format!("sz{}{}", len, v), &mut frng, &["c11".to_string(), "--seed".into(), seed.to_string(), "--echo-size".into(), len.to_string()]);
                    r.count("echo_sizes_swept", 1);
                    r.nontrivial(0x5a00_0000 + (*len as u64) * 2 + v as u64);
                }
            }
        }
        let mut k = only.unwrap_or(shard as u64);
        while k < n || only == Some(k) {
            // a tree on which most plays violate makes every play wait for its timeouts; the verdict is settled long before
            // the workload ends, so a shard stops after 60 violating plays instead of running into the driver's watchdog
            // (which would turn a clear violation into an inconclusive run: seeded C11-L)
            if only.is_none() && r.violation_instances() >= 60 {
                r.count("shards_cut_short_after_60_violating_plays", 1);
                break;
            }
            let mut rng = Rng::derive(seed, 0x1100_0000 + k);
            let base = gen_script(&mut rng);
            let replay = vec!["c11".to_string(), "--seed".into(), seed.to_string(), "--script".into(), k.to_string()];
            if k < 2 {
                r.sample(script_json(&base));
            }
            // the same script under 3 deliveries x 2 receive modes; blocking and non-blocking logs must agree
            for delivery in 0..3u8 {
                let mut logs: Vec<Option<Vec<HEv>>> = Vec::new();
                for nb in [false, true] {
                    let mut s = base.clone();
                    s.delivery = delivery;
                    s.nonblocking = nb;
                    let mut frng = Rng::derive(seed, 0x1110_0000 + k);
                    let id = format!("s{}d{}n{}", k, delivery, nb as u8);
                    r.nontrivial(fnv(format!("{}{:?}", id, script_json(&s).to_string()).as_bytes()));
                    logs.push(run_script(&mut r, &lab, &s, &id, &mut frng, &replay));
                }
                if let (Some(Some(a)), Some(Some(b))) = (logs.get(0), logs.get(1)) {
                    let ma: Vec<&HEv> = a.iter().filter(|e| matches!(e, HEv::Msg { .. })).collect();
                    let mb: Vec<&HEv> = b.iter().filter(|e| matches!(e, HEv::Msg { .. })).collect();
                    r.count("blocking_vs_nonblocking_compared", 1);
                    if ma != mb {
                        r.violation("C11/blocking-and-nonblocking-disagree", format!("blocking receive delivered {:?}, non-blocking {:?}", ma.iter().map(|e| short(e)).collect::<Vec<_>>(), mb.iter().map(|e| short(e)).collect::<Vec<_>>()), script_json(&base), replay.clone());
                    }
                }
            }
            // every third script additionally frame by frame with pauses against a handler that alternates between
            // non-blocking polls and blocking receives (socket mode must be restored after every "nothing yet")
            if k % 3 == 0 || only.is_some() {
                let mut s = base.clone();
                s.delivery = 3;
                s.nonblocking = true;
                s.mixed = true;
                trim_for_slow(&mut s, 12, 4096);
                let mut frng = Rng::derive(seed, 0x1110_0000 + k);
                let id = format!("s{}mixed", k);
                r.nontrivial(fnv(format!("{}{:?}", id, script_json(&s).to_string()).as_bytes()));
                r.count("mixed_mode_scripts", 1);
                run_script(&mut r, &lab, &s, &id, &mut frng, &replay);
            }
            // and every twelfth one slowly (pauses longer than the timeout) against the app with a connection timeout:
            // that timeout governs the wait for an HTTP request, not the WebSocket session that follows the upgrade
            if let (Some(tl), true) = (&lab_t, k % 12 == 0 || only.is_some()) {
                for nb in [false, true] {
                    let mut s = base.clone();
                    s.delivery = 4;
                    s.nonblocking = nb;
                    s.timeout_app = true;
                    trim_for_slow(&mut s, 4, 600);
                    let mut frng = Rng::derive(seed, 0x1110_0000 + k);
                    let id = format!("s{}slow{}", k, nb as u8);
                    r.nontrivial(fnv(format!("{}{:?}", id, script_json(&s).to_string()).as_bytes()));
                    r.count("slow_scripts_on_timeout_app", 1);
                    run_script(&mut r, tl, &s, &id, &mut frng, &replay);
                }
            }
            // every fifth script also ends with the peer vanishing in the MIDDLE of a frame (header and part of the
            // payload, then FIN): what was not completely sent is not a message
            if k % 5 == 2 || only.is_some() {
                let mut s = base.clone();
                s.delivery = 0;
                s.nonblocking = false;
                s.echo = false;
                trim_for_slow(&mut s, 6, 4096);
                s.end = End::AbruptDisconnect;
                let claimed = *rng.pick(&[2usize, 100, 125, 126, 1000, 70_000]);
                s.torn_tail = Some((claimed, *rng.pick(&[0usize, 1, claimed / 2, claimed - 1])));
                let mut frng = Rng::derive(seed, 0x1110_0000 + k);
                let id = format!("s{}torn", k);
                r.nontrivial(fnv(format!("{}{:?}", id, script_json(&s).to_string()).as_bytes()));
                run_script(&mut r, &lab, &s, &id, &mut frng, &replay);
            }
            if only.is_some() {
                break;
            }
            k += nsh as u64;
        }
        r
    });
    let mut total = Report::merge_all(reports);
    if only.is_some() {
        total.nontrivial(1);
        total.nontrivial(2);
    }
    total.write(out, "client scripts of 1..8 items over {text, binary (1..5 fragments with ping/pong interleaved between fragments), ping, pong} with payloads 0..70 KiB and random masks, ending by client Close (with/without status), server drop (handler returns) or abrupt disconnect; Sec-WebSocket-Key absent / empty / 1..256 printable chars / base64 nonce, plus one handshake for every key length 0..256 and one echoed text and binary message for every payload length 0..130 and 65530..65540; each script delivered whole, byte-wise and split inside header / extended length / key, and received once with recv and once with a recv_nonblocking polling loop (with and without echo); every third script also frame by frame with pauses (12 ms before, 8 ms inside each frame) against a handler that alternates non-blocking polls with blocking receives; every twelfth one with 400 ms pauses against an App configured with a 250 ms connection timeout; every fifth one also ending with the peer vanishing in the middle of a frame (header + part of the payload, then FIN). distinct = distinct (script, delivery, receive mode); every script is non-trivial (handshake + frames + ending judged)", None, &["'nothing yet only when no frame has started to arrive' is judged through its consequences: a completely sent message must be delivered while the handler keeps polling, and a split header must not produce an error or a garbled message", "reference client/validator: hvcommon::wsref (validated against CPython in C18)"]);
}

//! C03: no input can crash, wedge or exhaust a parser (threaded build).
//! Case generation, monitors and process isolation live in hvcommon::c03lab; this file supplies the calls
//! into the parsers under test.

use humphrey::http::{Request, Response};
use humphrey::stream::Stream;
use humphrey_json::Value;
use humphrey_server::config::tree::parse_conf;
use humphrey_server::config::Config;
use humphrey_ws::WebsocketStream;
use hvcommon::args::Args;
use hvcommon::c03lab;
use hvcommon::reader::{Plan, ScriptedReader};
use std::io::{Read, Write};
use std::net::{TcpListener, TcpStream};

pub const TARGETS: [&str; 7] = ["request", "response", "wsframe", "wsmsg", "wsmsg-nb", "json", "conf"];

struct SockLab {
    listener: TcpListener,
}

impl SockLab {
    fn new() -> Self {
        SockLab { listener: TcpListener::bind("127.0.0.1:0").expect("bind") }
    }
    /// a connected pair with `bytes` already written by the client, which then half-closes
    fn pair_with(&self, bytes: &[u8]) -> (TcpStream, Option<std::thread::JoinHandle<()>>) {
        let addr = self.listener.local_addr().unwrap();
        let mut c = TcpStream::connect(addr).expect("connect");
        let (s, _) = self.listener.accept().expect("accept");
        c.set_nodelay(true).ok();
        if bytes.len() <= 32 * 1024 {
            c.write_all(bytes).ok();
            c.shutdown(std::net::Shutdown::Write).ok();
            // keep the client end alive (but unread) until the server end is done: moved into a parked thread-less holder
            let h = std::thread::spawn(move || {
                let mut sink = [0u8; 4096];
                let mut c = c;
                c.set_read_timeout(Some(std::time::Duration::from_secs(20))).ok();
                while let Ok(n) = c.read(&mut sink) {
                    if n == 0 {
                        break;
                    }
                }
            });
            (s, Some(h))
        } else {
            let data = bytes.to_vec();
            let h = std::thread::spawn(move || {
                let mut c = c;
                c.write_all(&data).ok();
                c.shutdown(std::net::Shutdown::Write).ok();
                let mut sink = [0u8; 4096];
                c.set_read_timeout(Some(std::time::Duration::from_secs(20))).ok();
                while let Ok(n) = c.read(&mut sink) {
                    if n == 0 {
                        break;
                    }
                }
            });
            (s, Some(h))
        }
    }
}

/// Runs one parser call. Returns "ok" / "err:<kind>" (both fine) - panics propagate to the caller.
fn call_target(target: &str, bytes: &[u8], delivery: u8, lab: &Option<SockLab>) -> String {
    let plan = if delivery == 1 { Plan::Bytewise } else { Plan::Fill };
    match target {
        "request" => {
            let mut rd = ScriptedReader::new(bytes, plan);
            match Request::from_stream(&mut rd, "10.1.2.3:4567".parse().unwrap()) {
                Ok(_) => "ok".into(),
                Err(e) => format!("err:{:?}", e),
            }
        }
        "response" => {
            let mut rd = ScriptedReader::new(bytes, plan);
            match Response::from_stream(&mut rd) {
                Ok(_) => "ok".into(),
                Err(e) => format!("err:{:?}", e),
            }
        }
        "wsframe" => {
            let rd = ScriptedReader::new(bytes, plan);
            match humphrey_ws::verif::decode(rd) {
                Ok(_) => "ok".into(),
                Err(e) => format!("err:{:?}", e),
            }
        }
        "wsmsg" | "wsmsg-nb" => {
            let lab = lab.as_ref().unwrap();
            let (s, h) = lab.pair_with(bytes);
            if target == "wsmsg-nb" {
                // wait until the bytes (or the FIN) have reached the server socket
                let mut one = [0u8; 1];
                s.peek(&mut one).ok();
            }
            let mut ws = WebsocketStream::new(Stream::Tcp(s));
            let mut last = String::from("none");
            for _ in 0..64 {
                if target == "wsmsg" {
                    match ws.recv() {
                        Ok(_) => last = "ok".into(),
                        Err(e) => {
                            last = format!("err:{:?}", e);
                            break;
                        }
                    }
                } else {
                    match ws.recv_nonblocking() {
                        humphrey_ws::restion::Restion::Ok(_) => last = "ok".into(),
                        humphrey_ws::restion::Restion::Err(e) => {
                            last = format!("err:{:?}", e);
                            break;
                        }
                        humphrey_ws::restion::Restion::None => {
                            last = "nothing-yet".into();
                            break;
                        }
                    }
                }
            }
            drop(ws);
            if let Some(h) = h {
                h.join().ok();
            }
            last
        }
        "json" => match std::str::from_utf8(bytes) {
            Ok(s) => match Value::parse(s) {
                Ok(_) => "ok".into(),
                Err(_) => "err".into(),
            },
            Err(_) => "skip:not-utf8".into(),
        },
        "conf" => match std::str::from_utf8(bytes) {
            Ok(s) => match parse_conf(s, "hv.conf") {
                Ok(tree) => match Config::from_tree(tree) {
                    Ok(_) => "ok".into(),
                    Err(_) => "err:validation".into(),
                },
                Err(_) => "err:syntax".into(),
            },
            Err(_) => "skip:not-utf8".into(),
        },
        _ => panic!("unknown target"),
    }
}


pub fn worker(args: &Args) {
    let target = args.get("target").unwrap_or("");
    let lab = if target.starts_with("wsmsg") { Some(SockLab::new()) } else { None };
    c03lab::worker(args, &|t, b, d| call_target(t, b, d, &lab));
}

pub const RULE: &str = "per parser target (HTTP request, HTTP response, ws frame decoder, ws Message::from_stream blocking and non-blocking over a loopback socket, JSON, config): all strings up to length 4 (5 thorough) over the target's protocol alphabet, alone and after valid-message contexts; every prefix of every seed message; structure-aware mutants (every number replaced by 0,1,2^31,2^32-1,2^63,2^64-1,1e14,+5,-1,...; CR/LF/colon/space/quote/brace removed or doubled; 2/3/4-byte UTF-8 scalars and invalid UTF-8 inserted/substituted at every position; ws length codes with boundary/huge extended lengths; nesting 10..200000; for the configuration parser also include files on disk: self-includes with fan-out 1..3, mutual cycles, a chain deeper than the nesting limit, 500 includes of a leaf); random bytes; reader-based targets delivered all-at-once and byte-by-byte. non-trivial = at least 2 bytes supplied; distinct = distinct (target, bytes, delivery)";

pub const ASSUMPTIONS: [&str; 4] = [
            "isolation: one worker process per range of cases; death of a worker is attributed to the case it had announced",
            "memory rule: peak live bytes during the call <= 4096 x bytes supplied + 1 MiB; a single request above 1 GiB is refused by the harness allocator (the resulting abort is what an unbounded claim produces in production)",
            "CPU budget 10 s per case (ITIMER_PROF: user + system time); the 60 s wall-clock watchdog yields inconclusive, not violated",
            "include directives and list files are not generated (they read administrator-chosen paths)",
];

pub fn main(args: &Args) {
    c03lab::main(args, &TARGETS, RULE, &ASSUMPTIONS);
}

pub fn one(args: &Args) {
    c03lab::one(args);
}

//! C05: `*` matches any character sequence, everything else matches only itself.
//! Monitor: every return value of `humphrey::krauss::wildcard_match` and of `Route::route_matches` (the
//! router's entry point for route patterns) is compared with an O(nm)
//! dynamic-programming glob matcher over `char`s.

use humphrey::krauss::wildcard_match;
use humphrey::route::Route;
use hvcommon::args::Args;
use hvcommon::json::J;
use hvcommon::report::Report;
use hvcommon::rng::Rng;
use hvcommon::util::{fnv_parts, hex, ncpu, panic_msg, par, unhex};
use std::io::Write;

/// Reference: m[i][j] = pattern[i..] matches text[j..].
pub fn ref_match(p: &[char], t: &[char]) -> bool {
    let (n, m) = (p.len(), t.len());
    let mut next = vec![false; m + 1];
    let mut cur = vec![false; m + 1];
    next[m] = true; // empty pattern matches empty text only
    for i in (0..n).rev() {
        for j in (0..=m).rev() {
            cur[j] = if p[i] == '*' {
                next[j] || (j < m && cur[j + 1])
            } else {
                j < m && p[i] == t[j] && next[j + 1]
            };
        }
        std::mem::swap(&mut cur, &mut next);
    }
    next[0]
}

fn all_strings(alpha: &[char], maxlen: usize) -> Vec<Vec<char>> {
    let mut out: Vec<Vec<char>> = vec![vec![]];
    let mut frontier: Vec<Vec<char>> = vec![vec![]];
    for _ in 0..maxlen {
        let mut nf = Vec::with_capacity(frontier.len() * alpha.len());
        for s in &frontier {
            for c in alpha {
                let mut x = s.clone();
                x.push(*c);
                nf.push(x);
            }
        }
        out.extend(nf.iter().cloned());
        frontier = nf;
    }
    out
}

fn check(r: &mut Report, p: &[char], t: &[char], space: &str) {
    let ps: String = p.iter().collect();
    let ts: String = t.iter().collect();
    r.eval();
    let expect = ref_match(p, t);
    let got = std::panic::catch_unwind(|| wildcard_match(&ps, &ts));
    let stars = p.iter().filter(|c| **c == '*').count();
    if stars > 0 && stars < p.len() && !t.is_empty() {
        r.nontrivial(fnv_parts(&[ps.as_bytes(), ts.as_bytes()]));
        if expect {
            r.count("nontrivial_matching", 1);
        }
    }
    let replay = vec!["c05".to_string(), "--pattern-hex".into(), hex(ps.as_bytes()), "--text-hex".into(), hex(ts.as_bytes())];
    let ex = |got: &str| {
        J::obj(vec![("pattern", J::s(&ps)), ("text", J::s(&ts)), ("expected", J::Bool(expect)), ("got", J::s(got)), ("space", J::s(space))])
    };
    match got {
        Ok(g) if g == expect => {}
        Ok(g) => {
            let sig = if expect { "C05/false-negative" } else { "C05/false-positive" };
            r.violation(sig, format!("wildcard_match({:?},{:?}) = {} but the pattern {} the text", ps, ts, g, if expect { "matches" } else { "does not match" }), ex(&g.to_string()), replay.clone());
        }
        Err(e) => {
            let m = panic_msg(&*e);
            r.violation("C05/panic", format!("wildcard_match({:?},{:?}) panicked: {}", ps, ts, m), ex(&format!("panic: {}", m)), replay.clone());
        }
    }
    // the entry point the router uses for route patterns (`Route::route_matches` on the registered String)
    r.count("route_matches_calls", 1);
    match std::panic::catch_unwind(|| Route::route_matches(&ps, &ts)) {
        Ok(g) if g == expect => {}
        Ok(g) => {
            let sig = if expect { "C05/route_matches:false-negative" } else { "C05/route_matches:false-positive" };
            r.violation(sig, format!("{:?}.route_matches({:?}) = {} but the pattern {} the text", ps, ts, g, if expect { "matches" } else { "does not match" }), ex(&g.to_string()), replay.clone());
        }
        Err(e) => {
            let m = panic_msg(&*e);
            r.violation("C05/route_matches:panic", format!("{:?}.route_matches({:?}) panicked: {}", ps, ts, m), ex(&format!("panic: {}", m)), replay);
        }
    }
}

/// Random long pair biased towards self-overlapping literals: the text is an instance of the
/// pattern (each `*` replaced by repeats/prefixes of the neighbouring literals), optionally perturbed.
fn random_pair(rng: &mut Rng) -> (Vec<char>, Vec<char>) {
    const LITS: [&str; 10] = ["a", "ab", "aab", "aaab", "aba", "abab", ".example", ".example.example", "é", "😀a"];
    let nseg = rng.urange(1, 5);
    let mut pat: Vec<char> = Vec::new();
    let mut txt: Vec<char> = Vec::new();
    let fill = |rng: &mut Rng, near: &str, out: &mut Vec<char>| {
        let k = rng.urange(0, 3);
        for _ in 0..k {
            let l = *rng.pick(&LITS);
            let src = if rng.chance(2, 3) { near } else { l };
            let cs: Vec<char> = src.chars().collect();
            let cut = rng.urange(0, cs.len());
            if rng.chance(1, 2) {
                out.extend(&cs[..cut]);
            } else {
                out.extend(&cs[cs.len() - cut..]);
            }
        }
    };
    if rng.chance(1, 2) {
        pat.push('*');
        let l = *rng.pick(&LITS);
        fill(rng, l, &mut txt);
    }
    for s in 0..nseg {
        let l = *rng.pick(&LITS);
        pat.extend(l.chars());
        txt.extend(l.chars());
        if s + 1 < nseg || rng.chance(1, 2) {
            let stars = if rng.chance(1, 5) { 2 } else { 1 };
            for _ in 0..stars {
                pat.push('*');
            }
            fill(rng, l, &mut txt);
        }
    }
    // perturb one time in three so that non-matching long pairs are exercised too
    if !txt.is_empty() && rng.chance(1, 3) {
        let i = rng.usize(txt.len());
        match rng.below(3) {
            0 => {
                txt.remove(i);
            }
            1 => txt.insert(i, *rng.pick(&['a', 'b', '.', 'é', '*'])),
            _ => txt[i] = *rng.pick(&['a', 'b', 'x']),
        }
    }
    if pat.len() > 64 {
        pat.truncate(64);
    }
    if txt.len() > 64 {
        txt.truncate(64);
    }
    (pat, txt)
}

pub fn main(args: &Args) {
    let out = args.get("out").expect("--out");
    let mut total = Report::new();
    if let (Some(p), Some(t)) = (args.get("pattern-hex"), args.get("text-hex")) {
        let p: Vec<char> = String::from_utf8(unhex(p).unwrap()).unwrap().chars().collect();
        let t: Vec<char> = String::from_utf8(unhex(t).unwrap()).unwrap().chars().collect();
        check(&mut total, &p, &t, "replay");
        total.nontrivial(1);
        total.nontrivial(2);
        total.write(out, "replay of one recorded pair", None, &[]);
        return;
    }
    let thorough = args.thorough();
    let seed = args.seed();
    let (pl, tl) = if thorough { (7, 10) } else { (6, 8) };
    let nrand: u64 = if thorough { 5_000_000 } else { 300_000 };
    let subs: [(char, &str); 3] = [('a', "ascii"), ('é', "two-byte"), ('😀', "four-byte")];
    let n = ncpu();
    let work = args.get("work").map(|s| s.to_string());
    let reports = par(n, move |shard, nsh| {
        let mut r = Report::new();
        for (a, name) in subs.iter() {
            let pats = all_strings(&['*', *a, 'b'], pl);
            let txts = all_strings(&[*a, 'b'], tl);
            for (i, p) in pats.iter().enumerate() {
                if i % nsh != shard {
                    continue;
                }
                for t in &txts {
                    check(&mut r, p, t, name);
                }
            }
            if *a == 'a' {
                // texts that themselves contain `*`: in a pattern it is still a wildcard, in a text an ordinary character
                let pats = all_strings(&['*', 'a'], 5);
                let txts = all_strings(&['*', 'a'], 6);
                for (i, p) in pats.iter().enumerate() {
                    if i % nsh != shard {
                        continue;
                    }
                    for t in &txts {
                        check(&mut r, p, t, "star-in-text");
                        r.count("star_in_text_pairs", 1);
                    }
                }
            }
            if shard == 0 {
                r.count(&format!("enumerated_patterns_{}", name), pats.len() as u64);
                r.count(&format!("enumerated_texts_{}", name), txts.len() as u64);
            }
        }
        // long runs: a literal of m repeated characters (+ terminator) after a star against runs of n of them; the work
        // of a correct matcher grows with n*m here, so any step budget or cut-off shows as a false negative
        if shard == 0 || shard == 1 {
            let unit: Vec<char> = if shard == 0 { vec!['a'] } else { vec!['\u{e9}'] };
            for m in 1..=12usize {
                for n in [0usize, 1, 2, 3, 5, 8, 12, 16, 22, 23, 30, 31, 46, 47, 64, 100, 200, 400] {
                    for (pre, post, term) in [("", "", 'b'), ("/files/", ".txt", '-'), ("x", "", 'b')] {
                        let mut p: Vec<char> = pre.chars().collect();
                        p.push('*');
                        for _ in 0..m {
                            p.extend(unit.iter());
                        }
                        p.push(term);
                        p.extend(post.chars());
                        for tail_ok in [true, false] {
                            let mut t: Vec<char> = pre.chars().collect();
                            for _ in 0..n {
                                t.extend(unit.iter());
                            }
                            t.push(if tail_ok { term } else { 'c' });
                            t.extend(post.chars());
                            check(&mut r, &p, &t, "long-runs");
                            r.count("long_run_pairs", 1);
                            // and a second star behind the literal
                            let mut p2 = p.clone();
                            p2.push('*');
                            let mut t2 = t.clone();
                            t2.extend("zz".chars());
                            check(&mut r, &p2, &t2, "long-runs");
                            r.count("long_run_pairs", 1);
                        }
                    }
                }
            }
        }
        let mut rng = Rng::derive(seed, 1000 + shard as u64);
        let mut xs: Vec<(String, String, bool)> = Vec::new();
        for k in 0..nrand / nsh as u64 {
            let (p, t) = random_pair(&mut rng);
            check(&mut r, &p, &t, "random-long");
            r.count("random_long_pairs", 1);
            if ref_match(&p, &t) {
                r.count("random_long_matching", 1);
            }
            if k < 1300 {
                let ps: String = p.iter().collect();
                let ts: String = t.iter().collect();
                let e = ref_match(&p, &t);
                xs.push((ps, ts, e));
            }
            if shard == 0 && k < 3 {
                r.sample(J::obj(vec![("pattern", J::s(p.iter().collect::<String>())), ("text", J::s(t.iter().collect::<String>())), ("reference", J::Bool(ref_match(&p, &t)))]));
            }
        }
        (r, xs)
    });
    // cross-check file for CPython (reference DP vs re.fullmatch): pattern-hex text-hex ref
    if let Some(w) = work {
        let dir = format!("{}/xcheck", w);
        std::fs::create_dir_all(&dir).ok();
        let mut f = std::io::BufWriter::new(std::fs::File::create(format!("{}/C05.tsv", dir)).unwrap());
        let mut rng = Rng::derive(seed, 77);
        let pats = all_strings(&['*', 'a', 'b'], 6);
        let txts = all_strings(&['a', 'b'], 8);
        for _ in 0..4000 {
            let p = rng.pick(&pats);
            let t = rng.pick(&txts);
            let ps: String = p.iter().collect();
            let ts: String = t.iter().collect();
            writeln!(f, "{}\t{}\t{}", hex(ps.as_bytes()), hex(ts.as_bytes()), ref_match(p, t) as u8).unwrap();
        }
        for (_, xs) in &reports {
            for (p, t, e) in xs {
                writeln!(f, "{}\t{}\t{}", hex(p.as_bytes()), hex(t.as_bytes()), *e as u8).unwrap();
            }
        }
    }
    for (r, _) in reports {
        total.merge(r);
    }
    total.sample(J::obj(vec![("pattern", J::s("*aab")), ("text", J::s("aaab")), ("reference", J::Bool(true)), ("note", J::s("member of the enumerated space"))]));
    let rule = format!(
        "all patterns of length <= {} over {{*,x,b}} x all texts of length <= {} over {{x,b}} for x in {{a, é (2-byte), 😀 (4-byte)}} (complete enumeration), plus {} random pairs (<=64 chars) built from self-overlapping literals; a pair is non-trivial when the pattern has both a `*` and a literal and the text is non-empty; distinct = distinct (pattern,text)",
        pl, tl, nrand
    );
    total.write(out, &rule, Some(true), &["reference matcher is a textbook O(nm) DP over chars, cross-validated against CPython re.fullmatch on a sample each run", "exhaustive refers to the enumerated (pattern,text) spaces only; the random long pairs are a sample"]);
}

//! C09: the proxy always answers - upstream's response if valid, else 502, within the timeout.
//! Monitors: return value and latency of `proxy_request` / `proxy_handler` against a scripted upstream
//! that records what it received; conservation check on concurrently selected load-balancer targets.

use crate::c02::observe;
use humphrey::http::proxy::proxy_request;
use humphrey::http::{Request, Response};
use humphrey_server::config::{Config, LoadBalancerMode};
use humphrey_server::server::proxy::{proxy_handler, EqMutex, LoadBalancer};
use humphrey_server::server::rand::Lcg;
use humphrey_server::server::server::AppState;
use hvcommon::args::Args;
use hvcommon::httpref::{parse_response, Framing as RFraming, Parse, RefMessage};
use hvcommon::json::J;
use hvcommon::net::{closed_port, Play, Received, ScriptedServer};
use hvcommon::reader::{Plan, ScriptedReader};
use hvcommon::report::Report;
use hvcommon::reqgen::{gen_request, GenOpts, ReqModel};
use hvcommon::respgen::{gen_response, Framing, RespModel, CODES};
use hvcommon::rng::Rng;
use hvcommon::util::{fnv, hex, ncpu, panic_msg, par, show};
use std::net::SocketAddr;
use std::panic::{catch_unwind, AssertUnwindSafe};
use std::sync::mpsc::channel;
use std::sync::Arc;
use std::time::{Duration, Instant};

const TIMEOUT_MS: u64 = 300;
const SLACK_MS: u64 = 3000;

fn parse_req(m: &ReqModel, peer: SocketAddr) -> Option<Request> {
    let bytes = m.render();
    let mut rd = ScriptedReader::new(&bytes, Plan::Fill);
    Request::from_stream(&mut rd, peer).ok()
}

enum Outcome {
    Returned(Response, Duration),
    Panicked(String, Duration),
    Hung,
}

fn call_proxy(req: Request, target: SocketAddr) -> Outcome {
    call_proxy_t(req, target, TIMEOUT_MS, TIMEOUT_MS + SLACK_MS)
}

fn call_proxy_t(req: Request, target: SocketAddr, timeout_ms: u64, give_up_ms: u64) -> Outcome {
    let (tx, rx) = channel();
    std::thread::spawn(move || {
        // the duration of the call itself, measured around it on the calling thread (not thread start-up or the wake-up of
        // the harness thread that waits for the result)
        let t = Instant::now();
        let r = catch_unwind(AssertUnwindSafe(|| proxy_request(&req, target, Duration::from_millis(timeout_ms))));
        let dt = t.elapsed();
        tx.send((r.map_err(|p| panic_msg(&*p)), dt)).ok();
    });
    match rx.recv_timeout(Duration::from_millis(give_up_ms)) {
        Ok((Ok(resp), dt)) => Outcome::Returned(resp, dt),
        Ok((Err(p), dt)) => Outcome::Panicked(p, dt),
        Err(_) => Outcome::Hung,
    }
}

fn resp_matches(p: &Response, m: &RefMessage) -> Vec<&'static str> {
    let mut bad = Vec::new();
    if u16::from(p.status_code) != m.status() {
        bad.push("status");
    }
    if p.version != m.first {
        bad.push("version");
    }
    if p.body != m.body {
        bad.push("body");
    }
    // fields: every upstream field (framing header translated) must be there with its values in order
    let mut names: Vec<String> = Vec::new();
    for (k, _) in &m.headers {
        let l = k.to_ascii_lowercase();
        if !names.contains(&l) && l != "transfer-encoding" && l != "content-length" {
            names.push(l);
        }
    }
    for n in names {
        let want: Vec<&str> = m.headers_all(&n);
        let got = p.headers.get_all(n.as_str());
        if got != want {
            bad.push("field-values");
        }
    }
    bad.dedup();
    bad
}

fn is_502(p: &Response) -> bool {
    u16::from(p.status_code) == 502
}

struct Ctx<'a> {
    srv: &'a ScriptedServer,
    seed: u64,
}

/// Judge the upstream-side record: the request must be the client's request plus one X-Forwarded-For.
fn judge_received(r: &mut Report, rec: &Received, m: &ReqModel, req: &Request, expect_target: &str, replay: &[String]) {
    r.count("upstream_records_checked", 1);
    let ex = |why: &str| J::obj(vec![("client_request", m.to_json()), ("upstream_received", J::s(show(&rec.raw, 400))), ("why", J::s(why))]);
    let q = match &rec.parsed {
        Some(q) => q,
        None => {
            r.violation("C09/upstream-got-malformed-request", format!("the upstream received something that is not a well-formed request: {}", rec.malformed.clone().unwrap_or_default()), ex("malformed"), replay.to_vec());
            return;
        }
    };
    let mut bad: Vec<String> = Vec::new();
    if q.first != m.method {
        bad.push(format!("method {} != {}", q.first, m.method));
    }
    if q.second != expect_target {
        bad.push(format!("target {:?} != {:?}", q.second, expect_target));
    }
    if q.third != m.version {
        bad.push("version".into());
    }
    if q.body != m.body.clone().unwrap_or_default() {
        bad.push("body".into());
    }
    let origin = req.address.origin_addr.to_string();
    for n in m.names().into_iter().chain(std::iter::once("x-forwarded-for".to_string())) {
        let mut want = m.values_of(&n);
        if n == "x-forwarded-for" {
            want.push(origin.clone());
        }
        let got: Vec<String> = q.headers_all(&n).into_iter().map(|s| s.to_string()).collect();
        if got != want && !(n == "x-forwarded-for" && m.names().contains(&n) && got.len() == want.len() + 0 && false) {
            bad.push(format!("field {}: {:?} != {:?}", n, got.iter().map(|x| show(x.as_bytes(), 30)).collect::<Vec<_>>(), want.iter().map(|x| show(x.as_bytes(), 30)).collect::<Vec<_>>()));
        }
    }
    let extra = q.headers.len() as i64 - m.fields.len() as i64;
    if extra != 1 {
        bad.push(format!("{} extra field lines (exactly one X-Forwarded-For expected)", extra));
    }
    if !bad.is_empty() {
        r.violation("C09/upstream-request-differs", format!("the request relayed upstream differs from the client's: {}", bad[0]), ex(&bad.join(" | ")), replay.to_vec());
    }
}

fn case_valid_and_cuts(r: &mut Report, cx: &Ctx, case: u64, thorough: bool) {
    let mut rng = Rng::derive(cx.seed, 0x0900_0000 + case);
    let code = CODES[(case % CODES.len() as u64) as usize];
    let resp: RespModel = gen_response(&mut rng, code, 8, if thorough { 3000 } else { 600 }, true);
    let wire = resp.render(rng.usize(9));
    let peer: SocketAddr = "10.20.30.40:5555".parse().unwrap();
    let replay = vec!["c09".to_string(), "--seed".into(), cx.seed.to_string(), "--case".into(), case.to_string()];
    // the complete response first, then every cut (sampled when long)
    let mut cuts: Vec<usize> = vec![wire.len()];
    if case % 3 == 0 {
        let max_all = if thorough { 600 } else { 260 };
        if wire.len() <= max_all {
            cuts.extend(0..wire.len());
        } else {
            cuts.extend((0..max_all).map(|_| rng.usize(wire.len())));
            // always the interesting region: the head and the first chunk / body bytes
            cuts.extend(0..wire.len().min(120));
        }
    }
    for cut in cuts {
        let reqm = gen_request(&mut rng, &GenOpts { max_fields: 12, max_body: 300, allow_xff: true });
        let req = match parse_req(&reqm, peer) {
            Some(q) => q,
            None => {
                r.harness_error("generated request does not parse (see C02)");
                return;
            }
        };
        let sent = &wire[..cut];
        let seg = if rng.chance(1, 2) { vec![] } else { vec![rng.urange(1, 30), rng.urange(1, 200)] };
        cx.srv.take_log();
        // gaps only where the whole delivery stays far below the proxy timeout (the timeout is not under test here)
        let nseg = if seg.is_empty() { 1 } else { sent.len() / seg[seg.len() - 1].max(1) + seg.len() };
        cx.srv.push(Play::Respond { bytes: sent.to_vec(), seg, gap_us: if nseg <= 60 && rng.chance(1, 4) { 200 } else { 0 }, linger_ms: 0 });
        r.eval();
        r.count("exchanges", 1);
        if cut < wire.len() {
            r.count("cut_responses", 1);
        } else {
            r.count("complete_responses", 1);
            r.set_insert("status_codes_proxied", code as u64);
        }
        let want = parse_response(sent, true);
        let ex = |why: &str| J::obj(vec![("upstream_message", resp.to_json()), ("cut_at", J::u(cut as u64)), ("of", J::u(wire.len() as u64)), ("upstream_sent", J::s(show(sent, 300))), ("upstream_sent_hex_head", J::s(hex(&sent[..sent.len().min(400)]))), ("why", J::s(why))]);
        let mut rp = replay.clone();
        rp.push("--cut".into());
        rp.push(cut.to_string());
        // a generous timeout: these upstreams answer (or disconnect) at once, so the deadline must never be what decides
        match call_proxy_t(req.clone(), cx.srv.addr, 5000, 5000 + SLACK_MS) {
            Outcome::Hung => r.violation("C09/no-return-within-timeout", format!("proxy_request had not returned {} ms after the call (timeout 5000 ms) although the upstream closed the connection", 5000 + SLACK_MS), ex("hung"), rp.clone()),
            Outcome::Panicked(p, _) => {
                let site = p.chars().take(60).collect::<String>();
                r.violation("C09/panic", format!("proxy_request panicked: {}", site), ex(&p), rp.clone());
            }
            Outcome::Returned(got, dt) => {
                r.max("max_return_ms_fast_cases", dt.as_millis() as u64);
                match &want {
                    Parse::Complete(m) => {
                        r.nontrivial(fnv(sent));
                        if m.framing == RFraming::UntilClose && !m.body.is_empty() {
                            // close-delimited body
                            let bad = resp_matches(&got, m);
                            if bad == vec!["body"] && got.body.is_empty() {
                                r.violation("C09/close-delimited-body-dropped", "a valid upstream response whose body is delimited by connection close is relayed with an empty body", ex("body dropped"), rp.clone());
                            } else if !bad.is_empty() {
                                r.violation(&format!("C09/valid-response-altered:{}", bad.join("+")), format!("close-delimited upstream response relayed with different {}", bad.join(",")), ex(&bad.join(",")), rp.clone());
                            }
                        } else {
                            let bad = resp_matches(&got, m);
                            if is_502(&got) && m.status() != 502 {
                                r.violation("C09/valid-response-rejected", format!("a complete valid upstream response ({} {}) was answered 502", m.status(), match m.framing { RFraming::Chunked => "chunked", RFraming::ContentLength(_) => "content-length", _ => "no body" }), ex("502 for valid"), rp.clone());
                            } else if !bad.is_empty() {
                                r.violation(&format!("C09/valid-response-altered:{}", bad.join("+")), format!("upstream response relayed with different {}", bad.join(",")), ex(&bad.join(",")), rp.clone());
                            } else {
                                r.count("valid_responses_relayed_intact", 1);
                            }
                        }
                    }
                    Parse::Malformed(why) => {
                        if is_502(&got) {
                            r.count("broken_upstream_answered_502", 1);
                        } else {
                            let sig = if why.contains("chunk") { "C09/truncated-chunked-accepted" } else if why.contains("body bytes") { "C09/truncated-body-accepted" } else { "C09/broken-upstream-not-502" };
                            r.violation(sig, format!("upstream disconnected at byte {} of {} ({}), but the proxy answered {} with {} body bytes instead of 502", cut, wire.len(), why, u16::from(got.status_code), got.body.len()), ex(why), rp.clone());
                        }
                    }
                    Parse::Incomplete => {
                        // nothing at all was sent before the FIN
                        if !is_502(&got) {
                            r.violation("C09/broken-upstream-not-502", format!("upstream closed after {} bytes, proxy answered {}", cut, u16::from(got.status_code)), ex("empty"), rp.clone());
                        } else {
                            r.count("broken_upstream_answered_502", 1);
                        }
                    }
                }
            }
        }
        // what the upstream received
        let t = Instant::now();
        let mut log = cx.srv.take_log();
        while log.is_empty() && t.elapsed() < Duration::from_millis(500) {
            std::thread::sleep(Duration::from_millis(2));
            log = cx.srv.take_log();
        }
        if let Some(rec) = log.first() {
            let target = format!("{}{}", reqm.path, match &reqm.query { Some(q) if !q.is_empty() => format!("?{}", q), _ => String::new() });
            judge_received(r, rec, &reqm, &req, &target, &rp);
        }
    }
}

fn case_malformed(r: &mut Report, cx: &Ctx, case: u64) {
    let mut rng = Rng::derive(cx.seed, 0x0910_0000 + case);
    let peer: SocketAddr = "10.20.30.40:5555".parse().unwrap();
    let kinds: [(&str, Vec<u8>, bool); 10] = [
        ("garbage", rng.bytes(rng.clone().urange(1, 200)), true),
        ("field-without-colon", b"HTTP/1.1 200 OK\r\nContent-Length 5\r\n\r\nhello".to_vec(), true),
        ("status-not-a-number", b"HTTP/1.1 OK 200\r\nContent-Length: 0\r\n\r\n".to_vec(), true),
        ("two-part-status-line", b"HTTP/1.1 200\r\n\r\n".to_vec(), true),
        ("empty", Vec::new(), true),
        ("only-crlf", b"\r\n\r\n".to_vec(), true),
        ("non-utf8-head", b"HTTP/1.1 200 \xff\xfe\r\nX: \xff\r\n\r\n".to_vec(), true),
        ("bad-content-length", b"HTTP/1.1 200 OK\r\nContent-Length: five\r\n\r\nhello".to_vec(), true),
        // RFC 9112 lets a recipient accept bare LF: either 502 or the response is fine
        ("bare-lf", b"HTTP/1.1 200 OK\nContent-Length: 2\n\nok".to_vec(), false),
        ("unknown-version", b"HTTP/7.7 200 OK\r\nContent-Length: 2\r\n\r\nok".to_vec(), false),
    ];
    let (name, bytes, strict) = &kinds[(case % kinds.len() as u64) as usize];
    let reqm = gen_request(&mut rng, &GenOpts { max_fields: 6, max_body: 50, allow_xff: false });
    let req = parse_req(&reqm, peer).unwrap();
    cx.srv.take_log();
    cx.srv.push(Play::Respond { bytes: bytes.clone(), seg: vec![], gap_us: 0, linger_ms: 0 });
    r.eval();
    r.count("exchanges", 1);
    r.count("malformed_upstream_cases", 1);
    r.nontrivial(fnv(bytes) ^ case);
    let replay = vec!["c09".to_string(), "--seed".into(), cx.seed.to_string(), "--malformed".into(), case.to_string()];
    let ex = |why: &str| J::obj(vec![("upstream_behaviour", J::s(*name)), ("upstream_sent", J::s(show(bytes, 200))), ("why", J::s(why))]);
    match call_proxy_t(req, cx.srv.addr, 5000, 5000 + SLACK_MS) {
        Outcome::Hung => r.violation("C09/no-return-within-timeout", format!("proxy_request did not return within {} ms for upstream behaviour {}", 5000 + SLACK_MS, name), ex("hung"), replay),
        Outcome::Panicked(p, _) => r.violation("C09/panic", format!("proxy_request panicked on upstream behaviour {}: {}", name, p.chars().take(80).collect::<String>()), ex(&p), replay),
        Outcome::Returned(got, _) => {
            if is_502(&got) {
                r.count("broken_upstream_answered_502", 1);
            } else if *strict {
                r.violation(&format!("C09/non-http-upstream-not-502:{}", name), format!("upstream sent {} but the proxy answered {}", name, u16::from(got.status_code)), ex("not 502"), replay);
            } else {
                r.count("lenient_cases_passed_through", 1);
            }
        }
    }
}

fn case_stall(r: &mut Report, cx: &Ctx, case: u64) {
    let mut rng = Rng::derive(cx.seed, 0x0920_0000 + case);
    let peer: SocketAddr = "10.20.30.40:5555".parse().unwrap();
    let reqm = gen_request(&mut rng, &GenOpts { max_fields: 4, max_body: 20, allow_xff: false });
    let mut req = parse_req(&reqm, peer).unwrap();
    let kind = case % 7;
    if kind == 5 {
        // a request larger than the socket buffers, for the upstream that accepts and never reads (the stall is on the write)
        req.method = humphrey::http::method::Method::Post;
        req.headers.remove(humphrey::http::headers::HeaderType::ContentLength);
        let body = vec![b'u'; 12 << 20];
        req.headers.add(humphrey::http::headers::HeaderType::ContentLength, body.len().to_string());
        req.content = Some(body);
    }
    let valid = b"HTTP/1.1 200 OK\r\nContent-Length: 40\r\nX-A: b\r\n\r\n0123456789012345678901234567890123456789".to_vec();
    let (name, target): (&str, SocketAddr) = match kind {
        0 => ("connection-refused", closed_port()),
        1 => {
            cx.srv.push(Play::Silence { hold_ms: 4500 });
            ("accept-then-silence", cx.srv.addr)
        }
        2 => {
            cx.srv.push(Play::CloseImmediately);
            ("accept-then-close", cx.srv.addr)
        }
        3 => {
            cx.srv.push(Play::Trickle { bytes: valid.clone(), per_byte_ms: 50 });
            ("trickle-50ms-per-byte", cx.srv.addr)
        }
        4 => {
            // head promptly, then silence before the body
            cx.srv.push(Play::Respond { bytes: valid[..valid.len() - 40].to_vec(), seg: vec![], gap_us: 0, linger_ms: 4500 });
            ("head-then-silence", cx.srv.addr)
        }
        6 => {
            // a close-delimited body (no length, not chunked) that stops part-way without the close that would end it
            cx.srv.push(Play::Respond { bytes: b"HTTP/1.1 200 OK\r\nX-A: b\r\n\r\nthe first part of a body that nev".to_vec(), seg: vec![], gap_us: 0, linger_ms: 4500 });
            ("close-delimited-body-then-silence", cx.srv.addr)
        }
        _ => {
            cx.srv.push(Play::AcceptNoRead { hold_ms: 4500 });
            ("accept-never-read-12MiB-request", cx.srv.addr)
        }
    };
    r.eval();
    r.count("exchanges", 1);
    r.count("stall_and_refusal_cases", 1);
    r.nontrivial(fnv(name.as_bytes()) ^ case);
    let replay = vec!["c09".to_string(), "--seed".into(), cx.seed.to_string(), "--stall".into(), case.to_string()];
    let ex = |why: &str| J::obj(vec![("upstream_behaviour", J::s(name)), ("timeout_ms", J::u(TIMEOUT_MS)), ("why", J::s(why))]);
    match call_proxy(req, target) {
        Outcome::Hung => {
            let sig = match kind {
                1 | 4 | 6 => "C09/no-read-timeout",
                5 => "C09/no-write-timeout",
                3 => "C09/trickle-exceeds-timeout",
                _ => "C09/no-return-within-timeout",
            };
            r.violation(sig, format!("proxy_request had not returned {} ms after the call (timeout {} ms) with upstream behaviour {}", TIMEOUT_MS + SLACK_MS, TIMEOUT_MS, name), ex("hung"), replay);
        }
        Outcome::Panicked(p, _) => r.violation("C09/panic", format!("proxy_request panicked ({}): {}", name, p.chars().take(80).collect::<String>()), ex(&p), replay),
        Outcome::Returned(got, dt) => {
            r.max("max_return_ms_stall_cases", dt.as_millis() as u64);
            if is_502(&got) {
                r.count("stall_cases_answered_502_in_time", 1);
            } else {
                r.violation(&format!("C09/stalled-upstream-not-502:{}", name), format!("upstream behaviour {} answered {} instead of 502", name, u16::from(got.status_code)), ex("not 502"), replay);
            }
        }
    }
}

/// Largest overshoot of three 20 ms sleeps: is this machine scheduling threads promptly right now?
fn scheduling_overshoot_ms() -> u64 {
    (0..3)
        .map(|_| {
            let t = Instant::now();
            std::thread::sleep(Duration::from_millis(20));
            t.elapsed().as_millis().saturating_sub(20) as u64
        })
        .max()
        .unwrap_or(0)
}

/// The timeout bounds the whole exchange: bytes that arrive late must not extend it.
fn case_late_bytes(r: &mut Report, cx: &Ctx, case: u64) {
    let mut rng = Rng::derive(cx.seed, 0x0925_0000 + case);
    let peer: SocketAddr = "10.20.30.40:5555".parse().unwrap();
    let reqm = gen_request(&mut rng, &GenOpts { max_fields: 4, max_body: 20, allow_xff: false });
    let req = parse_req(&reqm, peer).unwrap();
    let timeout = 1000u64;
    let slack = 500u64;
    let first = [500u64, 700, 900][(case % 3) as usize];
    let partial = b"HTTP/1.1 200 OK\r\nContent-Length: 40\r\n\r\n0123456789".to_vec();
    cx.srv.push(Play::LateThenStall { first_delay_ms: first, bytes: partial, hold_ms: 4000 });
    r.eval();
    r.count("exchanges", 1);
    r.count("late_bytes_cases", 1);
    r.nontrivial(fnv(b"late") ^ case);
    let replay = vec!["c09".to_string(), "--seed".into(), cx.seed.to_string(), "--late".into(), case.to_string()];
    let ex = |why: &str| J::obj(vec![("upstream_behaviour", J::s(format!("silent for {} ms, then a partial response, then silence with the connection held open", first))), ("timeout_ms", J::u(timeout)), ("why", J::s(why))]);
    match call_proxy_t(req, cx.srv.addr, timeout, timeout + 3000) {
        Outcome::Hung => r.violation("C09/no-return-within-timeout", format!("proxy_request had not returned {} ms after the call (timeout {} ms): late partial response then stall", timeout + 3000, timeout), ex("hung"), replay),
        Outcome::Panicked(p, _) => r.violation("C09/panic", format!("proxy_request panicked: {}", p.chars().take(80).collect::<String>()), ex(&p), replay),
        Outcome::Returned(got, dt) => {
            let ms = dt.as_millis() as u64;
            r.max("max_return_ms_late_bytes_cases(timeout 1000)", ms);
            if !is_502(&got) {
                r.violation("C09/stalled-upstream-not-502:late-bytes", format!("late partial response then stall answered {}", u16::from(got.status_code)), ex("not 502"), replay);
            } else if ms > timeout + slack {
                // wall time is the property here; make sure the lateness is the proxy's and not the machine's
                let over = scheduling_overshoot_ms();
                if over > 100 {
                    r.count("late_bytes_cases_discarded_machine_overloaded", 1);
                } else {
                    r.violation("C09/timeout-extended-by-late-bytes", format!("502 came {} ms after the call with a timeout of {} ms: bytes arriving {} ms into the exchange restarted the wait (scheduling overshoot measured right after: {} ms)", ms, timeout, first, over), ex("late"), replay);
                }
            } else {
                r.count("late_bytes_cases_in_time", 1);
            }
        }
    }
}

/// The timeout is a budget for the whole exchange, and all of it is usable: a valid response whose parts arrive slowly
/// but completely before the deadline (the last ones inside the final second) is relayed, not answered 502 (seeded C09-L).
fn case_slow_valid(r: &mut Report, cx: &Ctx, case: u64) {
    let mut rng = Rng::derive(cx.seed, 0x0926_0000 + case);
    let peer: SocketAddr = "10.20.30.41:5556".parse().unwrap();
    let reqm = gen_request(&mut rng, &GenOpts { max_fields: 4, max_body: 20, allow_xff: false });
    let req = parse_req(&reqm, peer).unwrap();
    let timeout = 3000u64;
    let body: Vec<u8> = (0..24 + case as usize % 7).map(|i| b'a' + ((i + case as usize) % 26) as u8).collect();
    let (h1, h2) = body.split_at(body.len() / 2);
    let (kind, parts): (&str, Vec<(u64, Vec<u8>)>) = match case % 3 {
        0 => ("content-length", vec![(100, format!("HTTP/1.1 200 OK\r\nContent-Length: {}\r\nX-Slow: 1\r\n\r\n", body.len()).into_bytes()), (2000, h1.to_vec()), (200, h2.to_vec())]),
        1 => ("chunked", vec![(100, b"HTTP/1.1 200 OK\r\nTransfer-Encoding: chunked\r\nX-Slow: 1\r\n\r\n".to_vec()), (2000, format!("{:x}\r\n{}\r\n", h1.len(), String::from_utf8_lossy(h1)).into_bytes()), (200, format!("{:x}\r\n{}\r\n0\r\n\r\n", h2.len(), String::from_utf8_lossy(h2)).into_bytes())]),
        _ => ("close-delimited", vec![(100, b"HTTP/1.1 200 OK\r\nX-Slow: 1\r\n\r\n".to_vec()), (2000, h1.to_vec()), (200, h2.to_vec())]),
    };
    cx.srv.push(Play::Parts { parts });
    r.eval();
    r.count("exchanges", 1);
    r.count("slow_valid_cases", 1);
    r.nontrivial(fnv(b"slowvalid") ^ case);
    let replay = vec!["c09".to_string(), "--seed".into(), cx.seed.to_string(), "--slow".into(), case.to_string()];
    let ex = |why: &str| J::obj(vec![("upstream_behaviour", J::s(format!("valid {} response: head after 100 ms, first half of the body 2000 ms later, second half 200 ms after that, then close (complete ~2.3 s into a 3 s budget)", kind))), ("timeout_ms", J::u(timeout)), ("why", J::s(why))]);
    match call_proxy_t(req, cx.srv.addr, timeout, timeout + 3000) {
        Outcome::Hung => r.violation("C09/no-return-within-timeout", format!("proxy_request had not returned {} ms after the call (timeout {} ms): slow valid {} response", timeout + 3000, timeout, kind), ex("hung"), replay),
        Outcome::Panicked(p, _) => r.violation("C09/panic", format!("proxy_request panicked: {}", p.chars().take(80).collect::<String>()), ex(&p), replay),
        Outcome::Returned(got, dt) => {
            let ms = dt.as_millis() as u64;
            if u16::from(got.status_code) == 200 && got.body == body {
                r.count("slow_valid_cases_relayed", 1);
                r.max("max_return_ms_slow_valid_cases(timeout 3000)", ms);
            } else if is_502(&got) && ms + 150 >= timeout {
                // the answer came when the budget was (nearly) used up: on this machine the upstream's parts were late
                r.count("slow_valid_cases_discarded_budget_used_up", 1);
            } else {
                r.violation("C09/valid-response-within-timeout-not-relayed", format!("a valid {} response that was complete ~2.3 s into a {} ms budget was answered {} after {} ms (body {} bytes instead of {})", kind, timeout, u16::from(got.status_code), ms, got.body.len(), body.len()), ex("not relayed"), replay);
            }
        }
    }
}

/// Round-robin over a history that mixes proxied requests with requests refused locally (403 for a blacklisted origin):
/// only proxied requests take a turn, so consecutive proxied requests reach consecutive targets (seeded C09-K).
fn rotation_with_refusals(r: &mut Report, seed: u64, case: u64) {
    let mut rng = Rng::derive(seed, 0x0960_0000 + case);
    let nt = rng.urange(2, 4);
    let ups: Vec<ScriptedServer> = match (0..nt).map(|_| ScriptedServer::start("127.0.0.1:0")).collect::<Result<Vec<_>, _>>() {
        Ok(u) => u,
        Err(e) => {
            r.harness_error(format!("cannot start upstreams: {}", e));
            return;
        }
    };
    let mut c = Config::default();
    c.logging.console = false;
    c.logging.level = humphrey_server::server::logger::LogLevel::Error;
    c.blacklist.list = vec!["10.66.66.66".parse().unwrap()];
    let state = Arc::new(AppState::from(c));
    let lb = EqMutex::new(LoadBalancer { targets: ups.iter().map(|u| u.addr.to_string()).collect(), mode: LoadBalancerMode::RoundRobin, index: 0, lcg: Lcg::new() });
    let len = rng.urange(6, 14);
    // 'p' proxied, 'x' refused; runs of refusals of every length 1..nt+1 occur over the cases
    let history: Vec<char> = (0..len).map(|i| if i == 0 || rng.chance(3, 5) { 'p' } else { 'x' }).collect();
    for u in &ups {
        for _ in 0..len {
            u.push(Play::Respond { bytes: b"HTTP/1.1 200 OK\r\nContent-Length: 2\r\n\r\nok".to_vec(), seg: vec![], gap_us: 0, linger_ms: 0 });
        }
    }
    r.eval();
    r.count("rotation_with_refusals_histories", 1);
    r.nontrivial(fnv(format!("rwr{}-{}-{:?}", case, nt, history).as_bytes()));
    let replay = vec!["c09".to_string(), "--seed".into(), seed.to_string(), "--refusals".into(), case.to_string()];
    let mut hits: Vec<usize> = Vec::new();
    let mut seen = vec![0usize; nt];
    for (i, k) in history.iter().enumerate() {
        let m = ReqModel { method: "GET".into(), path: format!("/p/{}", i), query: None, version: "HTTP/1.1".into(), fields: vec![("Host".into(), 1, "hv".into())], body: None, xff: None, cookies: None };
        let peer: SocketAddr = if *k == 'x' { "10.66.66.66:999".parse().unwrap() } else { "10.1.1.1:999".parse().unwrap() };
        let req = parse_req(&m, peer).unwrap();
        let status = catch_unwind(AssertUnwindSafe(|| u16::from(proxy_handler(req, state.clone(), &lb, "/*").status_code))).unwrap_or(0);
        let want = if *k == 'x' { 403 } else { 200 };
        if status != want {
            r.violation("C09/proxy-handler-wrong-response", format!("request #{} of history {:?} answered {} instead of {}", i, history.iter().collect::<String>(), status, want), J::Null, replay.clone());
            return;
        }
        if *k == 'p' {
            // which upstream got it?
            let t = Instant::now();
            let mut who = None;
            while who.is_none() && t.elapsed() < Duration::from_millis(1000) {
                for (j, u) in ups.iter().enumerate() {
                    let n = u.log_len();
                    if n > seen[j] {
                        seen[j] = n;
                        who = Some(j);
                    }
                }
                if who.is_none() {
                    std::thread::sleep(Duration::from_millis(1));
                }
            }
            match who {
                Some(j) => hits.push(j),
                None => {
                    r.violation("C09/proxy-handler-no-upstream-request", "a proxied request reached no upstream", J::Null, replay.clone());
                    return;
                }
            }
        }
    }
    let in_rotation = hits.windows(2).all(|w| w[1] == (w[0] + 1) % nt);
    let ex = J::obj(vec![("targets", J::u(nt as u64)), ("history (p = proxied, x = refused with 403)", J::s(history.iter().collect::<String>())), ("targets_hit_by_the_proxied_requests", J::s(format!("{:?}", hits)))]);
    if !in_rotation {
        r.violation("C09/round-robin-not-in-rotation:refused-requests-take-a-turn", format!("over the history {:?} (x = refused locally with 403) the proxied requests reached targets {:?} of {}: not a strict rotation", history.iter().collect::<String>(), hits, nt), ex, replay);
    } else {
        r.count("rotation_with_refusals_exact", 1);
        r.count("refusals_interleaved", history.iter().filter(|k| **k == 'x').count() as u64);
    }
}

/// Round-robin under concurrent *requests*: T overlapping proxy_handler calls against slow upstreams.
fn concurrent_rotation(r: &mut Report, seed: u64, case: u64) {
    let mut rng = Rng::derive(seed, 0x0950_0000 + case);
    let nt = rng.urange(2, 4);
    let ups: Vec<ScriptedServer> = match (0..nt).map(|_| ScriptedServer::start("127.0.0.1:0")).collect::<Result<Vec<_>, _>>() {
        Ok(u) => u,
        Err(e) => {
            r.harness_error(format!("cannot start upstreams: {}", e));
            return;
        }
    };
    let rounds = rng.urange(1, 3);
    let threads = nt * rounds;
    let mut c = Config::default();
    c.logging.console = false;
    c.logging.level = humphrey_server::server::logger::LogLevel::Error;
    let state = Arc::new(AppState::from(c));
    let lb = Arc::new(EqMutex::new(LoadBalancer { targets: ups.iter().map(|u| u.addr.to_string()).collect(), mode: LoadBalancerMode::RoundRobin, index: 0, lcg: Lcg::new() }));
    for u in &ups {
        for _ in 0..threads {
            u.push(Play::DelayedRespond { delay_ms: 250, bytes: b"HTTP/1.1 200 OK\r\nContent-Length: 2\r\n\r\nok".to_vec() });
        }
    }
    // monitor: how many upstream exchanges are in progress at once, over all targets (sampled at the upstreams)
    let done = Arc::new(std::sync::atomic::AtomicBool::new(false));
    let actives: Vec<Arc<std::sync::Mutex<usize>>> = ups.iter().map(|u| u.active.clone()).collect();
    let d2 = done.clone();
    let watcher = std::thread::spawn(move || {
        let mut max = 0usize;
        while !d2.load(std::sync::atomic::Ordering::SeqCst) {
            let now: usize = actives.iter().map(|a| *a.lock().unwrap()).sum();
            max = max.max(now);
            std::thread::sleep(Duration::from_millis(2));
        }
        max
    });
    let barrier = Arc::new(std::sync::Barrier::new(threads));
    let hs: Vec<_> = (0..threads)
        .map(|i| {
            let (state, lb, barrier) = (state.clone(), lb.clone(), barrier.clone());
            std::thread::spawn(move || {
                let m = ReqModel { method: "GET".into(), path: format!("/p/{}", i), query: None, version: "HTTP/1.1".into(), fields: vec![("Host".into(), 1, "hv".into())], body: None, xff: None, cookies: None };
                let req = parse_req(&m, "10.1.1.1:999".parse().unwrap()).unwrap();
                barrier.wait();
                catch_unwind(AssertUnwindSafe(|| u16::from(proxy_handler(req, state, &lb, "/*").status_code))).unwrap_or(0)
            })
        })
        .collect();
    let t0 = Instant::now();
    let statuses: Vec<u16> = hs.into_iter().map(|h| h.join().unwrap_or(0)).collect();
    let all_ms = t0.elapsed().as_millis() as u64;
    done.store(true, std::sync::atomic::Ordering::SeqCst);
    let max_overlap = watcher.join().unwrap_or(0);
    r.eval();
    r.count("concurrent_rotation_rounds", 1);
    r.max("max_upstream_exchanges_in_progress_at_once", max_overlap as u64);
    r.nontrivial(fnv(format!("rot{}-{}-{}", case, nt, threads).as_bytes()));
    let replay = vec!["c09".to_string(), "--seed".into(), seed.to_string(), "--rotation".into(), case.to_string()];
    let counts: Vec<usize> = ups.iter().map(|u| u.take_log().len()).collect();
    let ex = J::obj(vec![("targets", J::u(nt as u64)), ("overlapping_requests", J::u(threads as u64)), ("requests_received_per_target", J::s(format!("{:?}", counts))), ("statuses", J::s(format!("{:?}", statuses)))]);
    if statuses.iter().any(|s| *s != 200) {
        r.violation("C09/proxy-handler-wrong-response", format!("concurrent proxy_handler calls returned {:?}", statuses), ex, replay);
    } else if counts.iter().any(|c| *c != rounds) {
        r.violation("C09/round-robin-not-in-rotation:concurrent-requests", format!("{} overlapping requests over {} round-robin targets reached them {:?} times; strict rotation gives {} each", threads, nt, counts, rounds), ex, replay);
    } else {
        r.count("concurrent_rotations_exact", 1);
    }
    // each caller is answered within ITS OWN exchange time: overlapping calls are not queued behind one another.
    // Decided on what the upstreams saw (never two exchanges in progress at once although the calls began together
    // and each upstream holds its exchange for 250 ms), not on the wall clock; a machine that schedules threads late discards it.
    if max_overlap < 2 && all_ms >= 250 * threads as u64 {
        if scheduling_overshoot_ms() > 60 {
            r.count("concurrent_rotations_overlap_discarded_machine_overloaded", 1);
        } else {
            let ex = J::obj(vec![("overlapping_calls", J::u(threads as u64)), ("upstream_hold_ms", J::u(250)), ("max_exchanges_in_progress_at_once", J::u(max_overlap as u64)), ("all_calls_returned_after_ms", J::u(all_ms))]);
            r.violation("C09/handler:calls-serialised", format!("{} proxy_handler calls that began together reached the upstreams one at a time (never 2 exchanges in progress at once; all returned after {} ms with a 250 ms upstream): a caller waits for the exchanges of the others, so a stalled upstream delays it by multiples of the timeout", threads, all_ms), ex, vec!["c09".to_string(), "--seed".into(), seed.to_string(), "--rotation".into(), case.to_string()]);
        }
    } else if max_overlap >= 2 {
        r.count("concurrent_rotations_with_overlapping_exchanges", 1);
    }
}

fn handler_level(r: &mut Report, cx: &Ctx, case: u64) {
    let mut rng = Rng::derive(cx.seed, 0x0930_0000 + case);
    let mut c = Config::default();
    c.logging.console = false;
    c.logging.level = humphrey_server::server::logger::LogLevel::Error;
    let listed: std::net::IpAddr = "10.66.66.66".parse().unwrap();
    c.blacklist.list = vec![listed];
    let state = Arc::new(AppState::from(c));
    let lb = EqMutex::new(LoadBalancer { targets: vec![cx.srv.addr.to_string()], mode: LoadBalancerMode::RoundRobin, index: 0, lcg: Lcg::new() });
    let (route, uri, want_target): (String, String, String) = match case {
        0 => ("/api/*".into(), "/api/users/7".into(), "/users/7".into()),
        1 => ("/*".into(), "/plain".into(), "/plain".into()),
        2 => ("/app*".into(), "/app".into(), "/".into()),
        3 => ("/x/y/*".into(), "/x/y/".into(), "/".into()),
        _ => {
            // generated: the literal prefix of the route is removed exactly once, whatever follows it - including
            // further copies of the prefix itself - reaches the upstream (with a leading slash)
            let prefix: &str = *rng.pick(&["/api/", "/", "/app", "/x/y/", "/v1", "/caf\u{e9}/", "/a"]);
            let bare = prefix.trim_start_matches('/');
            let mut rest = String::new();
            for _ in 0..rng.urange(0, 4) {
                match rng.below(6) {
                    0 => rest.push_str(prefix),
                    1 => rest.push_str(bare),
                    2 => rest.push('/'),
                    3 => rest.push_str("users/7"),
                    4 => rest.push_str(&prefix.repeat(2)),
                    _ => rest.push_str(*rng.pick(&["x", "index.html", "v1", "app", "api"])),
                }
            }
            let want = if rest.starts_with('/') { rest.clone() } else { format!("/{}", rest) };
            (format!("{}*", prefix), format!("{}{}", prefix, rest), want)
        }
    };
    let route: &str = &route;
    if case >= 4 && uri[route.len() - 1..].contains(&route[..route.len() - 1]) {
        r.count("prefix_repeated_in_remainder", 1);
    }
    let blacklisted = case % 5 == 4;
    let mut reqm = gen_request(&mut rng, &GenOpts { max_fields: 5, max_body: 40, allow_xff: false });
    reqm.path = uri.clone();
    let peer: SocketAddr = if blacklisted { "10.66.66.66:999".parse().unwrap() } else { "10.1.1.1:999".parse().unwrap() };
    let req = parse_req(&reqm, peer).unwrap();
    let body = format!("upstream-{}", case);
    cx.srv.take_log();
    if !blacklisted {
        cx.srv.push(Play::Respond { bytes: format!("HTTP/1.1 200 OK\r\nContent-Length: {}\r\n\r\n{}", body.len(), body).into_bytes(), seg: vec![], gap_us: 0, linger_ms: 0 });
    }
    r.eval();
    r.count("proxy_handler_calls", 1);
    r.nontrivial(fnv(format!("h{}{}", case, uri).as_bytes()));
    let replay = vec!["c09".to_string(), "--seed".into(), cx.seed.to_string(), "--handler".into(), case.to_string()];
    let res = catch_unwind(AssertUnwindSafe(|| proxy_handler(req.clone(), state.clone(), &lb, route)));
    match res {
        Err(p) => r.violation("C09/proxy-handler-panic", format!("proxy_handler panicked: {}", panic_msg(&*p)), J::s(&uri), replay),
        Ok(resp) => {
            if blacklisted {
                if u16::from(resp.status_code) != 403 {
                    r.violation("C09/blacklisted-origin-proxied", format!("request from a blacklisted address answered {}", u16::from(resp.status_code)), J::s(&uri), replay.clone());
                }
                if !cx.srv.take_log().is_empty() {
                    r.violation("C09/blacklisted-origin-proxied", "request from a blacklisted address reached the upstream", J::s(&uri), replay);
                }
            } else {
                if u16::from(resp.status_code) != 200 || resp.body != body.as_bytes() {
                    r.violation("C09/proxy-handler-wrong-response", format!("proxy_handler returned {} {:?}", u16::from(resp.status_code), show(&resp.body, 40)), J::s(&uri), replay.clone());
                }
                let t = Instant::now();
                let mut log = cx.srv.take_log();
                while log.is_empty() && t.elapsed() < Duration::from_millis(500) {
                    std::thread::sleep(Duration::from_millis(2));
                    log = cx.srv.take_log();
                }
                match log.first() {
                    Some(rec) => {
                        let target = format!("{}{}", want_target, match &reqm.query { Some(q) if !q.is_empty() => format!("?{}", q), _ => String::new() });
                        let mut m2 = reqm.clone();
                        m2.path = want_target.clone();
                        judge_received(r, rec, &m2, &req, &target, &replay);
                        r.count("prefix_stripping_checked", 1);
                    }
                    None => r.violation("C09/proxy-handler-no-upstream-request", "no request reached the upstream", J::s(&uri), replay),
                }
            }
        }
    }
}

fn load_balancer(r: &mut Report, seed: u64, case: u64) {
    let mut rng = Rng::derive(seed, 0x0940_0000 + case);
    let nt = rng.urange(1, 4);
    let targets: Vec<String> = (0..nt).map(|i| format!("10.0.0.{}:80", i + 1)).collect();
    let threads = rng.urange(1, 8);
    let per = rng.urange(1, 200);
    let random_mode = case % 4 == 3;
    let lb = Arc::new(EqMutex::new(LoadBalancer { targets: targets.clone(), mode: if random_mode { LoadBalancerMode::Random } else { LoadBalancerMode::RoundRobin }, index: 0, lcg: Lcg::new() }));
    let hs: Vec<_> = (0..threads)
        .map(|_| {
            let lb = lb.clone();
            std::thread::spawn(move || {
                let mut v = Vec::with_capacity(per);
                for _ in 0..per {
                    let t = lb.lock().unwrap().select_target();
                    v.push(t);
                    std::thread::yield_now();
                }
                v
            })
        })
        .collect();
    let mut per_thread: Vec<Vec<String>> = Vec::new();
    for h in hs {
        match h.join() {
            Ok(v) => per_thread.push(v),
            Err(p) => {
                r.violation("C09/select-target-panic", format!("select_target panicked: {}", panic_msg(&*p)), J::Null, vec![]);
                return;
            }
        }
    }
    r.eval();
    r.count("load_balancer_histories", 1);
    r.count("targets_selected", (threads * per) as u64);
    r.max("max_selecting_threads", threads as u64);
    r.nontrivial(fnv(format!("lb{}-{}-{}-{}", case, nt, threads, per).as_bytes()));
    let replay = vec!["c09".to_string(), "--seed".into(), seed.to_string(), "--lb".into(), case.to_string()];
    let ex = J::obj(vec![("targets", J::u(nt as u64)), ("threads", J::u(threads as u64)), ("selections_per_thread", J::u(per as u64)), ("mode", J::s(if random_mode { "random" } else { "round-robin" }))]);
    let all: Vec<&String> = per_thread.iter().flatten().collect();
    if all.iter().any(|t| !targets.contains(t)) {
        r.violation("C09/target-outside-configured-set", "select_target returned a target that is not configured", ex, replay);
        return;
    }
    if !random_mode {
        // conservation: the multiset of selections equals the first T*M elements of the rotation
        let total = threads * per;
        for (i, t) in targets.iter().enumerate() {
            let want = total / nt + if i < total % nt { 1 } else { 0 };
            let got = all.iter().filter(|x| **x == t).count();
            if got != want {
                r.violation("C09/round-robin-not-in-rotation", format!("target #{} was selected {} times in {} selections over {} targets, strict rotation gives {}", i, got, total, nt, want), ex, replay);
                return;
            }
        }
        if threads == 1 {
            for (k, t) in per_thread[0].iter().enumerate() {
                if *t != targets[k % nt] {
                    r.violation("C09/round-robin-not-in-rotation", format!("selection #{} was {} instead of {}", k, t, targets[k % nt]), ex, replay);
                    return;
                }
            }
        }
    }
}

/// Random mode at the edges of the generator's range: the generator is put into a state from which its next output
/// is a chosen value (with the library's own modulus, multiplier and increment), for every target count; the
/// selection must be one of the configured targets and must not panic.
fn lcg_boundaries(r: &mut Report) {
    use humphrey_server::server::rand::Choose;
    const M: u128 = (1u128 << 31) - 1; // prime
    const A: u128 = 1103515245;
    const C: u128 = 12345;
    fn pow_mod(mut b: u128, mut e: u128, m: u128) -> u128 {
        let mut acc = 1u128;
        b %= m;
        while e > 0 {
            if e & 1 == 1 {
                acc = acc * b % m;
            }
            b = b * b % m;
            e >>= 1;
        }
        acc
    }
    let inv_a = pow_mod(A, M - 2, M);
    let mut values: Vec<u128> = vec![0, 1, 2, 3, 4, 5, (1 << 24) - 1, 1 << 24, (1 << 24) + 1, (1 << 30) - 1, 1 << 30, (1 << 30) + 1];
    for k in 1..=130u128 {
        values.push(M - k); // the largest outputs the generator can produce
    }
    for nt in 1..=4usize {
        let targets: Vec<String> = (0..nt).map(|i| format!("10.0.0.{}:80", i + 1)).collect();
        for v in &values {
            // seed such that (A * seed + C) mod M == v
            let seed = ((v + M - C % M) % M) * inv_a % M;
            r.eval();
            r.count("lcg_boundary_states", 1);
            let ex = J::obj(vec![("targets", J::u(nt as u64)), ("next_generator_output", J::u(*v as u64)), ("generator_state", J::u(seed as u64))]);
            let mut lb = LoadBalancer { targets: targets.clone(), mode: LoadBalancerMode::Random, index: 0, lcg: Lcg::with_parameters(M as usize, A as usize, C as usize, seed as usize) };
            match catch_unwind(AssertUnwindSafe(|| (0..3).map(|_| lb.select_target()).collect::<Vec<String>>())) {
                Ok(sel) => {
                    if sel.iter().any(|t| !targets.contains(t)) {
                        r.violation("C09/target-outside-configured-set", format!("select_target returned {:?} with {} targets configured", sel, nt), ex, vec![]);
                    }
                }
                Err(p) => r.violation("C09/select-target-panic", format!("select_target panicked in random mode when the generator's next output is {} ({} targets): {}", v, nt, panic_msg(&*p)), ex, vec![]),
            }
            // the sampling primitive itself, with a generator that returns exactly v
            let mut g = Lcg::with_parameters(M as usize, 1, 0, *v as usize);
            match catch_unwind(AssertUnwindSafe(|| targets[..].choose(&mut g).cloned())) {
                Ok(Some(t)) if targets.contains(&t) => {}
                Ok(other) => r.violation("C09/target-outside-configured-set", format!("choose returned {:?} from {} targets for generator output {}", other, nt, v), J::Null, vec![]),
                Err(p) => r.violation("C09/select-target-panic", format!("choose panicked for generator output {}: {}", v, panic_msg(&*p)), J::Null, vec![]),
            }
        }
    }
    r.nontrivial(0x1c9b);
}

pub fn main(args: &Args) {
    let out = args.get("out").expect("--out");
    let seed = args.seed();
    let thorough = args.thorough();
    let _ = observe;
    let (n_valid, n_malformed, n_stall, n_handler, n_lb): (u64, u64, u64, u64, u64) = if thorough { (1400, 2000, 160, 800, 2000) } else { (110, 200, 40, 100, 200) };
    let single = ["case", "malformed", "stall", "handler", "lb", "late", "rotation", "slow", "refusals"].iter().find_map(|k| args.get(k).map(|v| (k.to_string(), v.parse::<u64>().unwrap())));
    let reports = par(if single.is_some() { 1 } else { ncpu() }, move |shard, nsh| {
        let mut r = Report::new();
        let srv = match ScriptedServer::start("127.0.0.1:0") {
            Ok(s) => s,
            Err(e) => {
                r.harness_error(format!("cannot start the scripted upstream: {}", e));
                return r;
            }
        };
        let cx = Ctx { srv: &srv, seed };
        if let Some((k, v)) = &single {
            match k.as_str() {
                "case" => case_valid_and_cuts(&mut r, &cx, *v, thorough),
                "malformed" => case_malformed(&mut r, &cx, *v),
                "stall" => case_stall(&mut r, &cx, *v),
                "handler" => handler_level(&mut r, &cx, *v),
                "late" => case_late_bytes(&mut r, &cx, *v),
                "slow" => case_slow_valid(&mut r, &cx, *v),
                "refusals" => rotation_with_refusals(&mut r, seed, *v),
                "rotation" => concurrent_rotation(&mut r, seed, *v),
                _ => load_balancer(&mut r, seed, *v),
            }
            r.nontrivial(1);
            r.nontrivial(2);
            return r;
        }
        let mine = |c: u64| c % nsh as u64 == shard as u64;
        for c in (0..n_stall).filter(|c| mine(*c)) {
            case_stall(&mut r, &cx, c);
        }
        for c in (0..n_stall / 2).filter(|c| mine(*c)) {
            case_late_bytes(&mut r, &cx, c);
        }
        for c in (0..n_stall / 2).filter(|c| mine(*c)) {
            case_slow_valid(&mut r, &cx, c);
        }
        for c in (0..n_stall).filter(|c| mine(*c)) {
            rotation_with_refusals(&mut r, seed, c);
        }
        for c in (0..n_stall).filter(|c| mine(*c)) {
            concurrent_rotation(&mut r, seed, c);
        }
        for c in (0..n_valid).filter(|c| mine(*c)) {
            case_valid_and_cuts(&mut r, &cx, c, thorough);
        }
        for c in (0..n_malformed).filter(|c| mine(*c)) {
            case_malformed(&mut r, &cx, c);
        }
        for c in (0..n_handler).filter(|c| mine(*c)) {
            handler_level(&mut r, &cx, c);
        }
        for c in (0..n_lb).filter(|c| mine(*c)) {
            load_balancer(&mut r, seed, c);
        }
        if shard == 0 {
            lcg_boundaries(&mut r);
        }
        if shard == 0 {
            r.sample(J::obj(vec![("kind", J::s("cut response")), ("example", J::s("HTTP/1.1 200 OK\\r\\nTransfer-Encoding: chunked\\r\\n\\r\\n5\\r\\nhel<FIN>")), ("expected", J::s("502"))]));
            r.sample(J::obj(vec![("kind", J::s("stall")), ("example", J::s("accept, read the request, say nothing for 4.5 s")), ("expected", J::s("502 within 300 ms + slack"))]));
        }
        r
    });
    let total = Report::merge_all(reports);
    total.write(out, "proxy_request (timeout 300 ms) against a scripted loopback upstream that records the request and then plays: valid responses over every modelled status code with Content-Length / chunked (random chunkings) / close-delimited bodies; every third one additionally cut at every byte offset (<= 260 B, sampled above) followed by FIN; 10 kinds of non-HTTP / header-malformed answers; connection refused, accept-then-silence, accept-then-close, 50 ms-per-byte trickle, head-then-silence, accept-and-never-read with a 12 MiB request, late partial response then stall (timeout 1000 ms, bound +500 ms), slow but complete valid responses in three parts ending ~2.3 s into a 3 s budget (Content-Length / chunked / close-delimited: relayed); client requests as in C02 (<= 12 fields); proxy_handler with route-prefix stripping and blacklist; LoadBalancer::select_target from 1..8 threads over 1..4 targets, and overlapping proxy_handler calls against slow upstreams (per-target request counts must equal the rotation), and sequential histories of proxied requests interleaved with requests refused locally (403), where consecutive proxied requests must reach consecutive targets. distinct = distinct upstream byte strings / histories; non-trivial = upstream messages that are complete valid responses, plus every malformed/stall/handler/balancer case", None, &["wall time is the property here: a call must return within timeout + 3 s (10x the timeout as slack)", "bare-LF line endings and an unknown HTTP version may be relayed or answered 502 (both accepted)", "status codes outside the 39 the library models are not generated"]);
}

//! C19: a blacklisted address never receives content.
//! The real `humphrey` server binary (built from the working tree) is started per generated
//! configuration; clients bound to chosen loopback source addresses observe bytes / EOF.

use hvcommon::args::Args;
use hvcommon::httpref::{parse_response, Parse};
use hvcommon::json::J;
use hvcommon::net::{read_to_eof, Play, ScriptedServer};
use hvcommon::report::Report;
use hvcommon::rng::Rng;
use hvcommon::util::{fnv, ncpu, par, show};
use socket2::{Domain, Socket, Type};
use std::io::Write;
use std::net::{SocketAddr, TcpListener, TcpStream};
use std::process::{Child, Command, Stdio};
use std::time::{Duration, Instant};

const FILE_TAG: &str = "HV19-FILE-CONTENT";
const DIR_TAG: &str = "HV19-DIR-CONTENT";
const UP_TAG: &str = "HV19-UPSTREAM-CONTENT";

#[derive(Clone, Debug)]
struct Cfg {
    mode: &'static str,
    list: Vec<String>,
    cache: bool,
    v6: bool,
    log_level: &'static str,
}

struct Server {
    child: Child,
    port: u16,
    dir: String,
}

impl Drop for Server {
    fn drop(&mut self) {
        let _ = self.child.kill();
        let _ = self.child.wait();
        let _ = std::fs::remove_dir_all(&self.dir);
    }
}

fn connect_from(src: &str, dst: SocketAddr) -> std::io::Result<TcpStream> {
    let dom = if dst.is_ipv4() { Domain::IPV4 } else { Domain::IPV6 };
    let s = Socket::new(dom, Type::STREAM, None)?;
    let local: SocketAddr = if dst.is_ipv4() { format!("{}:0", src).parse().unwrap() } else { "[::1]:0".parse().unwrap() };
    s.bind(&local.into())?;
    s.connect_timeout(&dst.into(), Duration::from_secs(5))?;
    let t: TcpStream = s.into();
    t.set_nodelay(true)?;
    Ok(t)
}

fn start_server(exe: &str, work: &str, id: &str, cfg: &Cfg, upstream: SocketAddr) -> Result<Server, String> {
    let dir = format!("{}/c19/{}-{}", work, std::process::id(), id);
    let _ = std::fs::remove_dir_all(&dir);
    std::fs::create_dir_all(format!("{}/www/sub", dir)).map_err(|e| e.to_string())?;
    std::fs::write(format!("{}/one.html", dir), format!("{}|one", FILE_TAG)).unwrap();
    std::fs::write(format!("{}/www/a.txt", dir), format!("{}|a", DIR_TAG)).unwrap();
    std::fs::write(format!("{}/www/sub/index.html", dir), format!("{}|index", DIR_TAG)).unwrap();
    std::fs::write(format!("{}/blacklist.txt", dir), cfg.list.join("\n")).unwrap();
    let port = hvcommon::net::free_port(if cfg.v6 { "::1" } else { "127.0.0.1" });
    let conf = format!(
        "server {{\n  address \"{}\"\n  port {}\n  threads 4\n  blacklist {{\n    file \"{}/blacklist.txt\"\n    mode \"{}\"\n  }}\n  log {{\n    level \"{}\"\n    console false\n  }}\n{}  route /file {{\n    file \"{}/one.html\"\n  }}\n  route /dir/* {{\n    directory \"{}/www\"\n  }}\n  route /proxy/* {{\n    proxy \"{}\"\n  }}\n  route /redir {{\n    redirect \"https://example.com/elsewhere?cfg={}\"\n  }}\n}}\n",
        if cfg.v6 { "[::1]" } else { "127.0.0.1" },
        port,
        dir,
        cfg.mode,
        // the log level is a neighbouring setting that must not matter (seeded C19-M): all four occur over the configurations
        cfg.log_level,
        if cfg.cache { "  cache {\n    size 1M\n    time 60\n  }\n" } else { "" },
        dir,
        dir,
        upstream,
        id
    );
    let conf_path = format!("{}/humphrey.conf", dir);
    std::fs::write(&conf_path, conf).unwrap();
    let child = Command::new(exe).arg(&conf_path).current_dir(&dir).stdin(Stdio::null()).stdout(Stdio::null()).stderr(Stdio::null()).spawn().map_err(|e| format!("cannot start {}: {}", exe, e))?;
    let mut srv = Server { child, port, dir };
    let dst: SocketAddr = if cfg.v6 { format!("[::1]:{}", port).parse().unwrap() } else { format!("127.0.0.1:{}", port).parse().unwrap() };
    // readiness probe from an address that is never listed (IPv4) / by connecting only (IPv6)
    let t = Instant::now();
    while t.elapsed() < Duration::from_secs(10) {
        if let Ok(Some(st)) = srv.child.try_wait() {
            return Err(format!("server exited at start-up: {:?}", st));
        }
        let ok = if cfg.v6 { TcpStream::connect(dst).is_ok() } else { connect_from("127.0.0.250", dst).is_ok() };
        if ok {
            // make sure it is *this* server that answers on the port (another process may have taken the port
            // between the free-port probe and the server's bind)
            std::thread::sleep(Duration::from_millis(3));
            if let Ok(Some(st)) = srv.child.try_wait() {
                return Err(format!("server exited at start-up: {:?}", st));
            }
            if cfg.v6 || is_this_server(dst, id) {
                return Ok(srv);
            }
            return Err("another server answers on the chosen port".into());
        }
        std::thread::sleep(Duration::from_millis(5));
    }
    Err("server did not start listening within 10 s".into())
}

fn is_this_server(dst: SocketAddr, id: &str) -> bool {
    if let Ok(mut s) = connect_from("127.0.0.250", dst) {
        let _ = s.write_all(b"GET /redir HTTP/1.1\r\nHost: hv\r\n\r\n");
        let (buf, _) = read_to_eof(&mut s, Duration::from_secs(5));
        let want = format!("cfg={}", id);
        return buf.windows(want.len()).any(|w| w == want.as_bytes());
    }
    false
}

#[derive(Debug, Clone, PartialEq)]
enum Expect {
    /// zero response bytes, connection closed
    Dropped,
    Forbidden,
    Normal,
    Unjudged,
}

struct Case {
    src: String,
    route: &'static str,
    xff: Vec<String>,
    xff_spaces: bool,
    xff_case: u8,
}

fn expect_for(cfg: &Cfg, c: &Case) -> Expect {
    let listed = |a: &str| cfg.list.iter().any(|l| l.parse::<std::net::IpAddr>().ok() == a.parse::<std::net::IpAddr>().ok());
    let peer = if cfg.v6 { "::1" } else { c.src.as_str() };
    if listed(peer) {
        return if cfg.mode == "block" { Expect::Dropped } else { Expect::Forbidden };
    }
    if let Some(origin) = c.xff.last() {
        if listed(origin) {
            return Expect::Forbidden;
        }
        if c.xff[..c.xff.len() - 1].iter().any(|p| listed(p)) {
            return Expect::Unjudged;
        }
    }
    Expect::Normal
}

fn run_config(r: &mut Report, exe: &str, work: &str, seed: u64, k: u64, up: &ScriptedServer, ncases: usize) {
    let mut rng = Rng::derive(seed, 0x1900_0000 + k);
    let v6 = k % 8 == 7;
    let client_srcs: Vec<String> = (0..4).map(|i| format!("127.0.{}.{}", 10 + rng.below(200), 1 + i * 7 + rng.below(5))).collect();
    let others: Vec<String> = vec!["10.9.9.9".into(), "192.168.77.1".into(), "2001:db8::77".into(), "127.77.0.9".into()];
    let mut list: Vec<String> = Vec::new();
    match rng.below(5) {
        0 => {}
        1 => list.push(client_srcs[0].clone()),
        2 => list.extend(others.iter().take(rng.urange(1, 3)).cloned()),
        3 => {
            list.push(client_srcs[1].clone());
            list.push(others[2].clone());
            list.push(others[0].clone());
        }
        _ => {
            list.push(client_srcs[0].clone());
            list.push(client_srcs[2].clone());
            list.push("::1".into());
        }
    }
    if v6 && rng.chance(1, 2) && !list.contains(&"::1".to_string()) {
        list.push("::1".into());
    }
    let cfg = Cfg { mode: if rng.chance(1, 2) { "block" } else { "forbidden" }, list, cache: rng.chance(1, 2), v6, log_level: ["error", "warn", "info", "debug"][(k % 4) as usize] };
    let replay = vec!["c19".to_string(), "--seed".into(), seed.to_string(), "--config".into(), k.to_string()];
    let mut srv_opt = None;
    let mut last_err = String::new();
    for _ in 0..4 {
        match start_server(exe, work, &format!("{}-{}", seed, k), &cfg, up.addr) {
            Ok(s) => {
                srv_opt = Some(s);
                break;
            }
            Err(e) => last_err = e,
        }
    }
    let mut srv = match srv_opt {
        Some(s) => s,
        None => {
            r.inconclusive(format!("config {}: {}", k, last_err));
            return;
        }
    };
    r.count("configurations", 1);
    r.count(&format!("mode_{}", cfg.mode), 1);
    let dst: SocketAddr = if v6 { format!("[::1]:{}", srv.port).parse().unwrap() } else { format!("127.0.0.1:{}", srv.port).parse().unwrap() };
    if k < 2 {
        r.sample(J::obj(vec![("mode", J::s(cfg.mode)), ("blacklist", J::arr_s(&cfg.list)), ("cache", J::Bool(cfg.cache)), ("listener", J::s(dst.to_string())), ("client_sources", J::arr_s(&client_srcs))]));
    }
    for ci in 0..ncases {
        let src = client_srcs[rng.usize(client_srcs.len())].clone();
        let route = *rng.pick(&["/file", "/dir/a.txt", "/dir/sub/", "/dir/sub", "/proxy/x", "/redir"]);
        let pool: Vec<String> = cfg.list.iter().cloned().chain(others.iter().cloned()).chain(client_srcs.iter().cloned()).collect();
        let xff: Vec<String> = match rng.below(4) {
            0 | 1 => vec![],
            2 => vec![rng.pick(&pool).clone()],
            _ => (0..rng.urange(2, 3)).map(|_| rng.pick(&pool).clone()).collect(),
        };
        // a forwarder's list may contain elements that are not addresses ("unknown", an obfuscated identifier, an address
        // with a port): one list in four gets one in a position before the last, so the origin - the last element - stays
        // an address and the expectation is unchanged (seeded C19-K)
        let mut xff = xff;
        if !xff.is_empty() && rng.chance(1, 4) {
            let junk = *rng.pick(&["unknown", "_hidden", "10.1.2.3:5678", "[2001:db8::5]:80", "", "proxy.example"]);
            let at = rng.usize(xff.len());
            xff.insert(at, junk.to_string());
            r.count("forwarded_lists_with_a_non_address_element", 1);
        }
        let case = Case { src, route, xff, xff_spaces: rng.chance(1, 2), xff_case: rng.below(3) as u8 };
        let want = expect_for(&cfg, &case);
        r.eval();
        r.count("requests", 1);
        r.count(match want { Expect::Dropped => "expected_dropped", Expect::Forbidden => "expected_403", Expect::Normal => "expected_normal", Expect::Unjudged => "unjudged_listed_proxy_position" }, 1);
        r.nontrivial(fnv(format!("{}-{}-{:?}-{}-{:?}", k, ci, case.xff, case.src, route).as_bytes()));
        up.clear();
        up.take_log();
        if route.starts_with("/proxy") {
            let body = format!("{}|{}", UP_TAG, ci);
            up.push(Play::Respond { bytes: format!("HTTP/1.1 200 OK\r\nContent-Length: {}\r\n\r\n{}", body.len(), body).into_bytes(), seg: vec![], gap_us: 0, linger_ms: 0 });
        }
        let mut req = format!("GET {} HTTP/1.1\r\nHost: hv\r\n", route);
        // one request in six carries many other fields BEFORE X-Forwarded-For (a forwarder appends it after its client's own)
        if !case.xff.is_empty() && rng.chance(1, 3) || rng.chance(1, 12) {
            let n = *rng.pick(&[30usize, 62, 63, 64, 65, 100, 200]);
            for i in 0..n {
                req.push_str(&format!("X-Filler-{}: {}\r\n", i, i * 7));
            }
            r.count("requests_with_many_fields_before_xff", 1);
        }
        if !case.xff.is_empty() {
            let name = ["X-Forwarded-For", "x-forwarded-for", "X-FORWARDED-FOR"][case.xff_case as usize];
            req.push_str(&format!("{}: {}\r\n", name, case.xff.join(if case.xff_spaces { ", " } else { "," })));
        }
        if rng.chance(1, 3) {
            req.push_str("User-Agent: hv\r\nAccept: */*\r\n");
        }
        req.push_str("\r\n");
        let mut s = match connect_from(&case.src, dst) {
            Ok(s) => s,
            Err(e) => {
                if want == Expect::Dropped {
                    r.count("dropped_at_connect", 1);
                } else {
                    r.inconclusive(format!("connect from {} failed: {}", case.src, e));
                }
                continue;
            }
        };
        let _ = s.write_all(req.as_bytes());
        hvcommon::net::LAST_READ_ERROR.with(|c| *c.borrow_mut() = None);
        let t_req = Instant::now();
        let (buf, eof) = read_to_eof(&mut s, Duration::from_secs(10));
        let read_err = hvcommon::net::LAST_READ_ERROR.with(|c| c.borrow().clone());
        let ex = |why: &str, got: &[u8]| J::obj(vec![("mode", J::s(cfg.mode)), ("blacklist", J::arr_s(&cfg.list)), ("cache", J::Bool(cfg.cache)), ("client_source", J::s(if v6 { "::1" } else { case.src.as_str() })), ("request", J::s(show(req.as_bytes(), 200))), ("expected", J::s(format!("{:?}", want))), ("received", J::s(show(got, 160))), ("read_error", J::s(format!("{:?} after {:?}", read_err, t_req.elapsed()))), ("why", J::s(why))]);
        let has_content = [FILE_TAG, DIR_TAG, UP_TAG].iter().any(|t| buf.windows(t.len()).any(|w| w == t.as_bytes()));
        let parsed = match parse_response(&buf, true) {
            Parse::Complete(m) => Some(m),
            _ => None,
        };
        let status = parsed.as_ref().map(|m| m.status()).unwrap_or(0);
        let sid = format!("{}-{}", seed, k);
        let mut vio = |r: &mut Report, sig: &str, what: String| {
            if !cfg.v6 && !is_this_server(dst, &sid) {
                r.inconclusive("the server under test stopped answering on its port (port taken over or process died): observation discarded");
            } else {
                r.violation(sig, what.clone(), ex(&what, &buf), replay.clone());
            }
        };
        match want {
            Expect::Dropped => {
                if has_content {
                    vio(r, "C19/listed-peer-received-content:block", format!("blacklisted address {} (block mode) received content from {}", case.src, route));
                } else if !buf.is_empty() {
                    vio(r, "C19/listed-peer-received-response:block", format!("blacklisted address {} (block mode) received {} response bytes (status {})", case.src, buf.len(), status));
                } else if !eof {
                    r.inconclusive("connection of a blocked peer neither answered nor closed within 10 s");
                } else {
                    r.count("blocked_connections_closed_silently", 1);
                }
            }
            Expect::Forbidden => {
                let listed_peer = cfg.list.iter().any(|l| l == &case.src) || (v6 && cfg.list.iter().any(|l| l == "::1"));
                if has_content || (status != 403) {
                    let sig = if listed_peer && !case.xff.is_empty() { "C19/forbidden-bypass-via-xff" } else if listed_peer { "C19/listed-peer-served:forbidden" } else { "C19/forwarded-listed-address-served" };
                    vio(r, sig, format!("{} answered {} {} (content leaked: {}) instead of 403 [peer listed: {}, X-Forwarded-For {:?}]", route, status, if parsed.is_none() { "(no parsable response)" } else { "" }, has_content, listed_peer, case.xff));
                } else {
                    r.count("answered_403", 1);
                }
            }
            Expect::Normal => {
                let ok = match route {
                    "/file" => status == 200 && buf.windows(FILE_TAG.len()).any(|w| w == FILE_TAG.as_bytes()),
                    "/dir/a.txt" | "/dir/sub/" => status == 200 && buf.windows(DIR_TAG.len()).any(|w| w == DIR_TAG.as_bytes()),
                    "/dir/sub" => status == 301,
                    "/redir" => status == 301 && parsed.as_ref().and_then(|m| m.header("location").map(|l| l.starts_with("https://example.com/elsewhere"))).unwrap_or(false),
                    _ => status == 200 && buf.windows(UP_TAG.len()).any(|w| w == UP_TAG.as_bytes()),
                };
                if !ok {
                    vio(r, "C19/unlisted-client-not-served", format!("unlisted client {} (X-Forwarded-For {:?}) got status {} for {} instead of the route's normal answer", case.src, case.xff, status, route));
                } else {
                    r.count("served_normally", 1);
                }
            }
            Expect::Unjudged => {}
        }
    }
    // keep-alive connections from an unlisted peer (e.g. a reverse proxy reusing its upstream connection) carrying two
    // requests with different X-Forwarded-For values: each request is judged on ITS OWN forwarded address
    let unlisted_srcs: Vec<String> = client_srcs.iter().filter(|c| !cfg.list.contains(c)).cloned().collect();
    let peer_listed_v6 = v6 && cfg.list.iter().any(|l| l == "::1");
    if !unlisted_srcs.is_empty() && !peer_listed_v6 {
        let listed_origin: Option<String> = cfg.list.first().cloned();
        for pi in 0..4 {
            let src = unlisted_srcs[rng.usize(unlisted_srcs.len())].clone();
            let route = *rng.pick(&["/file", "/dir/a.txt", "/redir"]);
            // (first, second) forwarded origins: unlisted then listed, listed then unlisted, none then listed, listed then none
            let unl = others[3].clone();
            let combos: [(Option<String>, Option<String>); 4] = [(Some(unl.clone()), listed_origin.clone()), (listed_origin.clone(), Some(unl.clone())), (None, listed_origin.clone()), (listed_origin.clone(), None)];
            let (x1, x2) = combos[pi % 4].clone();
            let mut stream = match connect_from(&src, dst) {
                Ok(s) => s,
                Err(_) => continue,
            };
            let _ = stream.set_nodelay(true);
            let mut c = hvcommon::httplab::Conn { s: stream, buf: Vec::new(), eof: false, reset: false };
            for (qi, x) in [x1.clone(), x2.clone()].iter().enumerate() {
                let case = Case { src: src.clone(), route, xff: x.iter().cloned().collect(), xff_spaces: false, xff_case: 0 };
                let want = expect_for(&cfg, &case);
                let mut req = format!("GET {} HTTP/1.1\r\nHost: hv\r\nConnection: {}\r\n", route, if qi == 0 { "keep-alive" } else { "close" });
                if let Some(v) = x {
                    req.push_str(&format!("X-Forwarded-For: {}\r\n", v));
                }
                req.push_str("\r\n");
                if c.s.write_all(req.as_bytes()).is_err() {
                    r.count("keepalive_pair_second_request_unsendable", 1);
                    break;
                }
                r.eval();
                r.count("keepalive_pair_requests", 1);
                let m = match c.read_response(Duration::from_secs(10)) {
                    Ok(Some(m)) => m,
                    _ => {
                        r.count("keepalive_pair_no_response", 1);
                        break;
                    }
                };
                if !m.body.is_empty() {
                    hvcommon::httplab::eat_body_crlf(&mut c);
                }
                let has_content = [FILE_TAG, DIR_TAG].iter().any(|t| m.body.windows(t.len()).any(|w| w == t.as_bytes()));
                let ex = J::obj(vec![("mode", J::s(cfg.mode)), ("blacklist", J::arr_s(&cfg.list)), ("cache", J::Bool(cfg.cache)), ("client_source", J::s(&src)), ("connection", J::s(format!("request 1 X-Forwarded-For {:?}, request 2 X-Forwarded-For {:?}, same keep-alive connection", x1, x2))), ("request_index", J::u(qi as u64)), ("expected", J::s(format!("{:?}", want))), ("status", J::u(m.status() as u64)), ("content_leaked", J::Bool(has_content))]);
                match want {
                    Expect::Forbidden if m.status() != 403 || has_content => {
                        if cfg.v6 || is_this_server(dst, &format!("{}-{}", seed, k)) {
                            r.violation("C19/keep-alive:forwarded-listed-address-served", format!("request #{} of a keep-alive connection, forwarded for the listed address {:?}, was answered {} (content leaked: {}) instead of 403; the other request on the connection was forwarded for {:?}", qi + 1, x, m.status(), has_content, if qi == 0 { &x2 } else { &x1 }), ex, replay.clone());
                        }
                        break;
                    }
                    Expect::Normal if m.status() == 403 => {
                        if cfg.v6 || is_this_server(dst, &format!("{}-{}", seed, k)) {
                            r.violation("C19/keep-alive:unlisted-client-not-served", format!("request #{} of a keep-alive connection (forwarded for {:?}, unlisted) was answered 403; the other request on the connection was forwarded for {:?}", qi + 1, x, if qi == 0 { &x2 } else { &x1 }), ex, replay.clone());
                        }
                        break;
                    }
                    Expect::Forbidden => r.count("keepalive_pair_answered_403", 1),
                    Expect::Normal => r.count("keepalive_pair_served", 1),
                    _ => {}
                }
            }
        }
    }
    if let Ok(Some(st)) = srv.child.try_wait() {
        r.inconclusive(format!("server process of config {} exited during the run: {:?}", k, st));
    }
    drop(srv);
}

pub fn main(args: &Args) {
    let out = args.get("out").expect("--out");
    let seed = args.seed();
    let work = args.get("work").unwrap_or("/verif/.work").to_string();
    let exe = format!("{}/target-repo/release/humphrey", work);
    if !std::path::Path::new(&exe).exists() {
        let mut r = Report::new();
        r.harness_error(format!("server binary {} not built", exe));
        r.write(out, "", None, &[]);
        return;
    }
    let only = args.get("config").map(|s| s.parse::<u64>().unwrap());
    let (n, per): (u64, usize) = if args.thorough() { (4000, 30) } else { (256, 20) };
    let reports = par(if only.is_some() { 1 } else { ncpu() }, move |shard, nsh| {
        let mut r = Report::new();
        let up = match ScriptedServer::start("127.0.0.1:0") {
            Ok(s) => s,
            Err(e) => {
                r.harness_error(format!("cannot start scripted upstream: {}", e));
                return r;
            }
        };
        let mut k = only.unwrap_or(shard as u64);
        while k < n || only == Some(k) {
            run_config(&mut r, &exe, &work, seed, k, &up, per);
            if only.is_some() {
                break;
            }
            k += nsh as u64;
        }
        r
    });
    let mut total = Report::merge_all(reports);
    if only.is_some() {
        total.nontrivial(1);
        total.nontrivial(2);
    }
    total.write(out, "the real humphrey server binary started from generated configurations: blacklist mode {block, forbidden} x list {empty, the client's address, other addresses, IPv4+IPv6 entries, several client addresses} x cache on/off x log level {error, warn, info, debug}, with file, directory, proxy (scripted upstream) and redirect routes, bound to 127.0.0.1 (every 8th configuration to [::1]); clients bound to chosen 127/8 source addresses (or ::1) send requests with and without X-Forwarded-For naming listed and unlisted addresses, with and without blanks after commas, in three header spellings, one list in four with a non-address element (unknown, _hidden, address:port, empty, a host name) before its last element. distinct = distinct (configuration, request); all are non-trivial (the answer is judged against the blacklist rule)", None, &["'on behalf of' = the origin as C02 defines it (last listed entry); a listed address appearing only in an earlier proxy position is not judged", "a dual-stack [::] listener (IPv4 peers seen as ::ffff:a.b.c.d) is not explored", "the readiness probe connects from 127.0.0.250, which is never listed"]);
}

//! C17: passwords and session tokens authenticate exactly their owner, only while valid.
//! Monitor: a reference model is stepped alongside `AuthProvider<Vec<User>>`; after every operation the
//! return value is compared and every token ever issued is probed; after every change of the user set
//! every password is verified against every uid. Expiry is logical: lifetime 0 = expired at birth,
//! 3600 = valid for the whole run. The authenticated-route clause runs a real App on loopback.

use humphrey::http::{Request, Response, StatusCode};
use humphrey::App;
use humphrey_auth::app::{AuthApp, AuthState};
use humphrey_auth::config::AuthConfig;
use humphrey_auth::error::AuthError;
use humphrey_auth::user::User;
use humphrey_auth::AuthProvider;
use hvcommon::args::Args;
use hvcommon::httpref::{parse_response, Parse};
use hvcommon::json::J;
use hvcommon::net::read_to_eof;
use hvcommon::report::Report;
use hvcommon::rng::Rng;
use hvcommon::util::{fnv, ncpu, panic_msg, par};
use std::collections::HashSet;
use std::io::Write;
use std::net::TcpStream;
use std::panic::{catch_unwind, AssertUnwindSafe};
use std::sync::mpsc::{channel, Sender};
use std::sync::{Arc, Mutex, MutexGuard};
use std::time::Duration;

struct St {
    p: Mutex<AuthProvider<Vec<User>>>,
}

impl AuthState<Vec<User>> for St {
    fn auth_provider(&self) -> MutexGuard<'_, AuthProvider<Vec<User>>> {
        self.p.lock().unwrap()
    }
}

#[derive(Clone, Debug)]
struct MUser {
    uid: String,
    password: String,
    /// (token, live)
    session: Option<(String, bool)>,
}

#[derive(Default)]
struct Model {
    users: Vec<MUser>,
    removed_uids: Vec<String>,
    /// every token ever issued
    tokens: Vec<String>,
    default_lifetime: u64,
    refresh_lifetime: u64,
}

impl Model {
    fn owner_of_live(&self, token: &str) -> Option<&MUser> {
        self.users.iter().find(|u| matches!(&u.session, Some((t, true)) if t == token))
    }
    fn holder(&mut self, token: &str) -> Option<&mut MUser> {
        self.users.iter_mut().find(|u| matches!(&u.session, Some((t, _)) if t == token))
    }
}

struct Lab {
    state: Arc<St>,
    port: u16,
    _stop: Sender<()>,
}

fn auth_handler(_: Request, _: Arc<St>, uid: String) -> Response {
    Response::new(StatusCode::OK, format!("uid={}", uid))
}

/// A handler that itself uses the provider, as a sign-out endpoint does.
fn signout_handler(_: Request, state: Arc<St>, uid: String) -> Response {
    state.auth_provider().invalidate_user_session(&uid);
    Response::new(StatusCode::OK, format!("bye={}", uid))
}

impl Lab {
    fn new() -> Result<Lab, String> {
        let state_holder = St { p: Mutex::new(AuthProvider::new(Vec::new())) };
        let (tx, rx) = channel();
        // find a free port by binding to 0 first
        let port = hvcommon::net::free_port("127.0.0.1");
        let app: App<St> = App::new_with_config(2, state_holder).with_auth_route("/auth", auth_handler).with_auth_route("/signout", signout_handler).with_shutdown(rx);
        let state = app.get_state();
        std::thread::spawn(move || {
            let _ = app.run(("127.0.0.1", port));
        });
        for _ in 0..200 {
            if TcpStream::connect(("127.0.0.1", port)).is_ok() {
                return Ok(Lab { state, port, _stop: tx });
            }
            std::thread::sleep(Duration::from_millis(5));
        }
        Err("auth lab app did not start".into())
    }

    /// one request to the authenticated route; returns (status, body)
    fn route(&self, cookie_header: Option<&str>) -> Result<(u16, String), String> {
        self.route_at("/auth", cookie_header, Duration::from_secs(10))
    }

    fn route_at(&self, path: &str, cookie_header: Option<&str>, wait: Duration) -> Result<(u16, String), String> {
        let mut s = TcpStream::connect(("127.0.0.1", self.port)).map_err(|e| e.to_string())?;
        let req = match cookie_header {
            Some(c) => format!("GET {} HTTP/1.1\r\nHost: x\r\nCookie: {}\r\n\r\n", path, c),
            None => format!("GET {} HTTP/1.1\r\nHost: x\r\n\r\n", path),
        };
        s.write_all(req.as_bytes()).map_err(|e| e.to_string())?;
        let (buf, _) = read_to_eof(&mut s, wait);
        match parse_response(&buf, true) {
            Parse::Complete(m) => Ok((m.status(), String::from_utf8_lossy(&m.body).to_string())),
            Parse::Malformed(e) => Err(format!("malformed response: {}", e)),
            Parse::Incomplete => Err("no response".into()),
        }
    }
}

fn is_token_shape(t: &str) -> bool {
    t.len() == 64 && t.bytes().all(|c| c.is_ascii_digit() || (b'a'..=b'f').contains(&c))
}

fn run_sequence(r: &mut Report, lab: &Lab, seed: u64, seq: u64, all_tokens: &mut HashSet<String>) {
    let mut rng = Rng::derive(seed, 0x1700_0000 + seq);
    let pepper = rng.chance(1, 2);
    let dl = *rng.pick(&[0u64, 3600, 3600]);
    let rl = *rng.pick(&[0u64, 3600, 3600]);
    let mut cfg = AuthConfig::default().with_default_lifetime(dl).with_default_refresh_lifetime(rl);
    if pepper {
        cfg = cfg.with_pepper(format!("pepper-{}", seq));
    }
    *lab.state.p.lock().unwrap() = AuthProvider::new(Vec::new()).with_config(cfg);
    let mut m = Model { default_lifetime: dl, refresh_lifetime: rl, ..Default::default() };
    let max_users = rng.urange(1, 5);
    let nops = rng.urange(10, 60);
    // long passwords that agree on a long prefix (64, 72 and 299 bytes) and differ only after it
    let long: Vec<String> = vec!["k".repeat(64), format!("{}a", "k".repeat(64)), format!("{}b", "k".repeat(64)), format!("{}1", "q".repeat(72)), format!("{}2", "q".repeat(72)), format!("{}x", "z".repeat(299)), format!("{}y", "z".repeat(299))];
    let mut passwords: Vec<&str> = vec!["pw-alpha", "pw-beta", "", "pässwörd 😀", "pw-alpha "];
    // each sequence works with three of the long ones (verification is deliberately slow)
    for i in 0..3 {
        passwords.push(&long[((seq as usize) * 3 + i) % long.len()]);
    }
    let mut trace: Vec<String> = Vec::new();
    let replay = vec!["c17".to_string(), "--seed".into(), seed.to_string(), "--seq".into(), seq.to_string()];
    let mut violated = false;
    macro_rules! bad {
        ($sig:expr, $what:expr) => {{
            let what: String = $what;
            r.violation($sig, what.clone(), J::obj(vec![("sequence", J::u(seq)), ("pepper", J::Bool(pepper)), ("default_lifetime", J::u(dl)), ("refresh_lifetime", J::u(rl)), ("trace", J::arr_s(&trace)), ("observed", J::s(&what))]), replay.clone());
            violated = true;
        }};
    }
    let unknown_tokens = ["", "0", "zz", "0000000000000000000000000000000000000000000000000000000000000000"];
    for step in 0..nops {
        r.eval();
        r.count("operations", 1);
        let mut users_changed = false;
        let pick_uid = |rng: &mut Rng, m: &Model| -> String {
            match rng.below(10) {
                0 => "no-such-uid".to_string(),
                1 if !m.removed_uids.is_empty() => rng.pick(&m.removed_uids).clone(),
                _ if !m.users.is_empty() => rng.pick(&m.users).uid.clone(),
                _ => "no-such-uid".to_string(),
            }
        };
        let pick_token = |rng: &mut Rng, m: &Model| -> String {
            match rng.below(9) {
                0 => rng.pick(&unknown_tokens).to_string(),
                1 if !m.tokens.is_empty() => {
                    // near misses of real tokens: a prefix, or the token with trailing characters
                    let t = rng.pick(&m.tokens).clone();
                    match rng.below(4) {
                        0 => t[..8].to_string(),
                        1 => t[..63].to_string(),
                        2 => format!("{}00", t),
                        _ => t.to_ascii_uppercase(),
                    }
                }
                _ if !m.tokens.is_empty() => {
                    // bias towards recent tokens, but old (superseded / invalidated / expired) ones are probed too
                    if rng.chance(1, 2) { m.tokens[m.tokens.len() - 1].clone() } else { rng.pick(&m.tokens).clone() }
                }
                _ => rng.pick(&unknown_tokens).to_string(),
            }
        };
        let op = rng.below(13);
        let mut p = lab.state.p.lock().unwrap();
        let res = catch_unwind(AssertUnwindSafe(|| -> Result<(), (String, String)> {
            match op {
                0 | 1 if m.users.len() < max_users => {
                    let pw = rng.pick(&passwords).to_string();
                    let got = p.create_user(&pw);
                    trace.push(format!("{}: create_user({:?}) -> {:?}", step, pw, got));
                    r.count("op_create_user", 1);
                    match got {
                        Ok(uid) => {
                            if m.users.iter().any(|u| u.uid == uid) || m.removed_uids.contains(&uid) {
                                return Err(("C17/uid-reused".into(), format!("create_user returned uid {} again", uid)));
                            }
                            m.users.push(MUser { uid, password: pw, session: None });
                            users_changed = true;
                        }
                        Err(e) => return Err(("C17/create-user-failed".into(), format!("create_user failed: {:?}", e))),
                    }
                }
                2 => {
                    let uid = pick_uid(&mut rng, &m);
                    let got = p.remove_user(&uid);
                    trace.push(format!("{}: remove_user({}) -> {:?}", step, uid, got));
                    r.count("op_remove_user", 1);
                    let exists = m.users.iter().any(|u| u.uid == uid);
                    match (&got, exists) {
                        (Ok(()), true) => {
                            m.users.retain(|u| u.uid != uid);
                            m.removed_uids.push(uid);
                            users_changed = true;
                        }
                        (Err(AuthError::UserNotFound), false) => {}
                        _ => return Err(("C17/remove-user".into(), format!("remove_user({}) = {:?} but user exists = {}", uid, got, exists))),
                    }
                }
                3 => {
                    let uid = pick_uid(&mut rng, &m);
                    let pw = rng.pick(&passwords).to_string();
                    let got = p.verify(&uid, &pw);
                    let want = m.users.iter().any(|u| u.uid == uid && u.password == pw);
                    trace.push(format!("{}: verify({}, {:?}) -> {}", step, uid, pw, got));
                    r.count("op_verify", 1);
                    if got != want {
                        return Err((if got { "C17/verify-accepts-wrong-password".into() } else { "C17/verify-rejects-right-password".into() }, format!("verify({}, {:?}) = {}, expected {}", uid, pw, got, want)));
                    }
                }
                4 | 5 | 6 => {
                    let uid = pick_uid(&mut rng, &m);
                    let (got, live, how) = match op {
                        4 => (p.create_session(&uid), m.default_lifetime > 0, "create_session".to_string()),
                        5 => (p.create_session_with_lifetime(&uid, 0), false, "create_session_with_lifetime(0)".to_string()),
                        _ => (p.create_session_with_lifetime(&uid, 3600), true, "create_session_with_lifetime(3600)".to_string()),
                    };
                    trace.push(format!("{}: {}({}) -> {:?}", step, how, uid, got.as_ref().map(|t| &t[..t.len().min(8)])));
                    r.count("op_create_session", 1);
                    let user = m.users.iter_mut().find(|u| u.uid == uid);
                    match (user, got) {
                        (None, Err(AuthError::UserNotFound)) => {}
                        (None, g) => return Err(("C17/create-session-unknown-user".into(), format!("{} for unknown uid = {:?}", how, g))),
                        (Some(u), g) => {
                            let has_live = matches!(u.session, Some((_, true)));
                            match (has_live, g) {
                                (true, Err(AuthError::SessionAlreadyExists)) => {}
                                (true, g) => return Err(("C17/second-live-session".into(), format!("{} while a live session exists = {:?} (a user has at most one live session)", how, g.map(|_| "Ok(token)")))),
                                (false, Ok(t)) => {
                                    if !is_token_shape(&t) {
                                        return Err(("C17/token-shape".into(), format!("token {:?} is not 64 lowercase hex characters", t)));
                                    }
                                    if !all_tokens.insert(t.clone()) {
                                        return Err(("C17/token-repeated".into(), format!("token {} was issued twice", t)));
                                    }
                                    m.tokens.push(t.clone());
                                    u.session = Some((t, live));
                                    r.count(if live { "sessions_live_created" } else { "sessions_expired_at_birth" }, 1);
                                }
                                (false, Err(e)) => return Err(("C17/create-session-failed".into(), format!("{} without a live session failed: {:?}", how, e))),
                            }
                        }
                    }
                }
                7 | 8 => {
                    let t = pick_token(&mut rng, &m);
                    let got = p.refresh_session(&t);
                    trace.push(format!("{}: refresh_session({}…) -> {:?}", step, &t[..t.len().min(8)], got));
                    r.count("op_refresh", 1);
                    let live = m.owner_of_live(&t).is_some();
                    let known_expired = !live && m.users.iter().any(|u| matches!(&u.session, Some((x, false)) if *x == t));
                    match (live, &got) {
                        (true, Ok(())) => {
                            let rl = m.refresh_lifetime;
                            if let Some(u) = m.holder(&t) {
                                u.session = Some((t.clone(), rl > 0));
                            }
                        }
                        (false, Err(AuthError::InvalidToken)) => {}
                        (false, Ok(())) => {
                            // keep the model in step with the SUT so that later probes show the consequence too
                            let rl = m.refresh_lifetime;
                            if let Some(u) = m.holder(&t) {
                                u.session = Some((t.clone(), rl > 0));
                            }
                            return Err((if known_expired { "C17/refresh-accepts-expired-token".into() } else { "C17/refresh-accepts-unknown-token".into() }, format!("refresh_session succeeded on {} token {}…", if known_expired { "an expired" } else { "an unknown/invalidated" }, &t[..t.len().min(8)])));
                        }
                        (true, e) => return Err(("C17/refresh-rejects-live-token".into(), format!("refresh_session on a live token = {:?}", e))),
                        (false, e) => return Err(("C17/refresh-wrong-error".into(), format!("refresh_session on a dead token = {:?}", e))),
                    }
                }
                9 => {
                    let t = pick_token(&mut rng, &m);
                    p.invalidate_session(&t);
                    trace.push(format!("{}: invalidate_session({}…)", step, &t[..t.len().min(8)]));
                    r.count("op_invalidate", 1);
                    if let Some(u) = m.holder(&t) {
                        u.session = None;
                    }
                }
                10 => {
                    let uid = pick_uid(&mut rng, &m);
                    p.invalidate_user_session(&uid);
                    trace.push(format!("{}: invalidate_user_session({})", step, uid));
                    r.count("op_invalidate_user", 1);
                    if let Some(u) = m.users.iter_mut().find(|u| u.uid == uid) {
                        u.session = None;
                    }
                }
                _ => {
                    let t = pick_token(&mut rng, &m);
                    let got = p.get_uid_by_token(&t);
                    let want = m.owner_of_live(&t).map(|u| u.uid.clone());
                    trace.push(format!("{}: get_uid_by_token({}…) -> {:?}", step, &t[..t.len().min(8)], got));
                    r.count("op_get_uid", 1);
                    if got.clone().ok() != want {
                        return Err(("C17/get-uid-by-token".into(), format!("get_uid_by_token = {:?}, expected {:?}", got, want)));
                    }
                }
            }
            Ok(())
        }));
        match res {
            Err(pn) => {
                drop(p);
                // the mutex is poisoned by a panic under the lock: rebuild the lab state for the next sequence
                bad!("C17/panic", format!("operation panicked: {}", panic_msg(&*pn)));
                lab.state.p.clear_poison();
                return;
            }
            Ok(Err((sig, what))) => {
                bad!(&sig, what);
            }
            Ok(Ok(())) => {}
        }
        // full probe after every step: every token ever issued, through get_uid_by_token
        for t in &m.tokens {
            let got = p.get_uid_by_token(t).ok();
            let want = m.owner_of_live(t).map(|u| u.uid.clone());
            r.count("token_probes", 1);
            if got != want {
                let sig = if want.is_none() { "C17/dead-token-authenticates" } else { "C17/live-token-rejected" };
                bad!(sig, format!("after step {}: token {}… authenticates {:?}, expected {:?}", step, &t[..8], got, want));
                break;
            }
        }
        let live_count = m.users.iter().filter(|u| matches!(u.session, Some((_, true)))).count();
        r.max("max_live_sessions_at_once", live_count as u64);
        if users_changed {
            // every password against every uid (Argon2: only when the user set changed)
            for u in m.users.iter() {
                for pw in passwords.iter() {
                    let got = p.verify(&u.uid, pw);
                    r.count("verify_probes", 1);
                    if got != (u.password == *pw) {
                        bad!(if got { "C17/verify-accepts-wrong-password" } else { "C17/verify-rejects-right-password" }, format!("after step {}: verify({}, {:?}) = {}", step, u.uid, pw, got));
                    }
                }
            }
            for uid in &m.removed_uids {
                if p.verify(uid, "pw-alpha") || p.exists(uid) {
                    bad!("C17/removed-user-still-verifies", format!("removed uid {} still exists/verifies", uid));
                }
            }
        }
        drop(p);
        // authenticated route (real App over loopback) one step in four
        if step % 4 == 3 {
            let t = if m.tokens.is_empty() { "deadbeef".to_string() } else { rng.pick(&m.tokens).clone() };
            let want = m.owner_of_live(&t).map(|u| u.uid.clone());
            let variants: Vec<(Option<String>, Option<String>)> = vec![
                (Some(format!("HumphreyToken={}", t)), want.clone()),
                (Some(format!("other=1; HumphreyToken={}; z=2", t)), want.clone()),
                // cookie pairs separated by a bare `;` (no blank), and a neighbour whose value contains `=`
                (Some(format!("theme=dark;HumphreyToken={}", t)), want.clone()),
                (Some(format!("HumphreyToken={};theme=dark", t)), want.clone()),
                (Some(format!("pad=YQ==; HumphreyToken={}", t)), want.clone()),
                (None, None),
                (Some("HumphreyToken=".to_string()), None),
                (Some(format!("humphreytoken={}", t)), None),
                (Some(format!("HumphreyToken={}x", t)), None),
            ];
            let (c, w) = &variants[rng.usize(variants.len())];
            r.count("route_requests", 1);
            match lab.route(c.as_deref()) {
                Err(e) => r.inconclusive(format!("auth route request failed: {}", e)),
                Ok((status, body)) => {
                    trace.push(format!("{}: GET /auth Cookie: {:?} -> {} {:?}", step, c.as_ref().map(|x| x.chars().take(30).collect::<String>()), status, body.chars().take(20).collect::<String>()));
                    match w {
                        Some(uid) => {
                            if status != 200 || body != format!("uid={}", uid) {
                                bad!("C17/route-rejects-live-token", format!("authenticated route answered {} {:?} for a live token of {}", status, body, uid));
                            }
                        }
                        None => {
                            if status != 401 {
                                bad!("C17/route-accepts-dead-token", format!("authenticated route answered {} {:?} without a live token", status, body));
                            }
                        }
                    }
                }
            }
        }
        if violated {
            break;
        }
    }
    r.nontrivial(fnv(trace.join("\n").as_bytes()));
    if seq < 2 {
        r.sample(J::obj(vec![("sequence", J::u(seq)), ("pepper", J::Bool(pepper)), ("default_lifetime", J::u(dl)), ("refresh_lifetime", J::u(rl)), ("first_operations", J::arr_s(&trace[..trace.len().min(10)]))]));
    }
}

/// The handler of an authenticated route is called with the user id and the state, and may use the provider itself
/// (a sign-out endpoint invalidates the caller's session): it is answered, and what it did to the session holds.
/// Runs on an app of its own, so that a provider left locked cannot disturb the sequences.
fn signout_scenario(r: &mut Report, seed: u64) {
    let replay = vec!["c17".to_string(), "--seed".into(), seed.to_string()];
    let lab = match Lab::new() {
        Ok(l) => l,
        Err(e) => {
            r.harness_error(e);
            return;
        }
    };
    for round in 0..3 {
        r.eval();
        let (uid, token) = {
            let mut p = lab.state.auth_provider();
            let uid = match p.create_user(format!("pw{}", round)) {
                Ok(u) => u,
                Err(_) => return,
            };
            let t = match p.create_session(&uid) {
                Ok(t) => t,
                Err(_) => return,
            };
            (uid, t)
        };
        let cookie = format!("HumphreyToken={}", token);
        match lab.route_at("/signout", Some(&cookie), Duration::from_secs(6)) {
            Ok((200, body)) if body == format!("bye={}", uid) => {}
            Ok((status, body)) => {
                r.violation("C17/route-rejects-live-token", format!("a route whose handler uses the provider answered {} {:?} for a live token of {}", status, body, uid), J::s(&uid), replay.clone());
                return;
            }
            Err(e) => {
                r.violation("C17/route:handler-cannot-use-provider", format!("a request with a live token to an authenticated route whose handler locks the provider (sign-out) got no answer within 6 s ({}): the handler runs while the provider is still locked", e), J::s(&uid), replay.clone());
                return;
            }
        }
        // the provider must be usable afterwards (try_lock: a provider left locked or poisoned is the finding, not a hang of the harness)
        let after = match lab.state.p.try_lock() {
            Ok(p) => p.get_uid_by_token(&token).ok(),
            Err(e) => {
                r.violation("C17/route:handler-cannot-use-provider", format!("after a sign-out request the provider cannot be locked: {}", e), J::s(&uid), replay.clone());
                return;
            }
        };
        if after.is_some() {
            r.violation("C17/dead-token-authenticates", format!("token of {} still authenticates after the sign-out handler invalidated the session", uid), J::s(&uid), replay.clone());
            return;
        }
        match lab.route_at("/auth", Some(&cookie), Duration::from_secs(6)) {
            Ok((401, _)) => r.count("signouts_through_a_route_handler_effective", 1),
            Ok((status, body)) => {
                r.violation("C17/route-accepts-dead-token", format!("authenticated route answered {} {:?} for a token invalidated by a sign-out handler", status, body), J::s(&uid), replay.clone());
                return;
            }
            Err(e) => {
                r.inconclusive(format!("request after sign-out failed: {}", e));
                return;
            }
        }
    }
}

/// "Tokens are 256-bit random values": a statistical monitor over all tokens one shard saw. Every one of the 32 byte
/// positions must show the variety 8 random bits give (the expected number of distinct values among N draws from 256
/// is 256(1-e^(-N/256)); 80 % of that is more than 7 standard deviations away for N >= 300), and every one of the
/// 256 bit positions must be set in 25..75 % of the tokens (8 standard deviations at N = 300).
fn token_randomness(r: &mut Report, tokens: &HashSet<String>, seed: u64) {
    let n = tokens.len();
    if n < 300 {
        return;
    }
    let mut seen = vec![[false; 256]; 32];
    let mut ones = vec![0usize; 256];
    for t in tokens {
        let b = t.as_bytes();
        if b.len() != 64 {
            continue;
        }
        for p in 0..32 {
            if let Ok(v) = u8::from_str_radix(&t[2 * p..2 * p + 2], 16) {
                seen[p][v as usize] = true;
                for bit in 0..8 {
                    if v >> bit & 1 == 1 {
                        ones[p * 8 + bit] += 1;
                    }
                }
            }
        }
    }
    r.eval();
    let expect = 256.0 * (1.0 - (-(n as f64) / 256.0).exp());
    let min_distinct = seen.iter().map(|s| s.iter().filter(|x| **x).count()).min().unwrap_or(0);
    let poor_byte = seen.iter().position(|s| (s.iter().filter(|x| **x).count() as f64) < 0.8 * expect);
    let poor_bit = ones.iter().position(|c| *c * 4 < n || *c * 4 > 3 * n);
    r.max("token_byte_positions_min_distinct_values", min_distinct as u64);
    r.count("tokens_in_randomness_monitor", n as u64);
    if poor_byte.is_some() || poor_bit.is_some() {
        let what = match (poor_byte, poor_bit) {
            (Some(p), _) => format!("byte {} of the token took only {} distinct values over {} tokens (8 random bits give about {:.0})", p, seen[p].iter().filter(|x| **x).count(), n, expect),
            (_, Some(b)) => format!("bit {} of the token was set in {} of {} tokens", b, ones[b], n),
            _ => unreachable!(),
        };
        let sample: Vec<String> = tokens.iter().take(4).cloned().collect();
        r.violation("C17/token-not-256-bit-random", what, J::obj(vec![("tokens_observed", J::u(n as u64)), ("sample", J::arr_s(&sample))]), vec!["c17".to_string(), "--seed".into(), seed.to_string()]);
    }
}

pub fn main(args: &Args) {
    let out = args.get("out").expect("--out");
    let seed = args.seed();
    let one = args.get("seq").map(|s| s.parse::<u64>().unwrap());
    let nseq: u64 = if args.thorough() { 2500 } else { 160 };
    let reports = par(if one.is_some() { 1 } else { ncpu() }, move |shard, nsh| {
        let mut r = Report::new();
        let lab = match Lab::new() {
            Ok(l) => l,
            Err(e) => {
                r.harness_error(e);
                return r;
            }
        };
        let mut all_tokens = HashSet::new();
        match one {
            Some(s) => run_sequence(&mut r, &lab, seed, s, &mut all_tokens),
            None => {
                let mut s = shard as u64;
                while s < nseq {
                    run_sequence(&mut r, &lab, seed, s, &mut all_tokens);
                    r.count("sequences", 1);
                    s += nsh as u64;
                }
            }
        }
        if one.is_none() && shard % 4 == 0 {
            signout_scenario(&mut r, seed);
        }
        if one.is_none() {
            // a burst of sessions for one user (each replaces the one before), so that every shard has a population of
            // tokens large enough for the randomness monitor; they take part in the uniqueness check as well
            let mut p: AuthProvider<Vec<User>> = AuthProvider::new(Vec::new());
            if let Ok(uid) = p.create_user("burst") {
                for k in 0..320 {
                    p.invalidate_user_session(&uid);
                    match p.create_session(&uid) {
                        Ok(t) => {
                            if !is_token_shape(&t) {
                                r.violation("C17/token-shape", format!("token {:?} is not 64 lowercase hex characters", t), J::s(&t), vec!["c17".to_string(), "--seed".into(), seed.to_string()]);
                                break;
                            }
                            if !all_tokens.insert(t.clone()) {
                                r.violation("C17/token-repeated", format!("token {} was issued twice (session burst, session #{})", t, k), J::s(&t), vec!["c17".to_string(), "--seed".into(), seed.to_string()]);
                                break;
                            }
                        }
                        Err(e) => {
                            r.inconclusive(format!("session burst: create_session failed after invalidate_user_session: {:?}", e));
                            break;
                        }
                    }
                }
            }
        }
        r.count("distinct_tokens_issued", all_tokens.len() as u64);
        token_randomness(&mut r, &all_tokens, seed);
        r
    });
    let mut total = Report::merge_all(reports);
    if one.is_some() {
        total.nontrivial(1);
        total.nontrivial(2);
    }
    total.write(out, "model-based operation sequences (10..60 operations, 1..5 users, with/without pepper, default lifetime and refresh lifetime in {0 = expired at birth, 3600 = valid for the run}) over create_user, remove_user, verify (right / wrong / other user's password incl. 64..300-byte passwords that differ only in their last byte, unknown and removed uid), create_session, create_session_with_lifetime(0 | 3600), refresh_session, invalidate_session, invalidate_user_session, get_uid_by_token (current, superseded, invalidated, expired, malformed tokens) and requests to a with_auth_route route of a real App with 9 cookie spellings; after every step every token ever issued is probed, after every change of the user set every password x uid. distinct = distinct operation traces; every sequence is non-trivial (>= 10 operations)", None, &["expiry is logical (lifetime 0 vs 3600 seconds), no sleeping: the one-second clock granularity is never on the decision boundary", "token uniqueness is checked across all sequences of a shard"]);
}

//! C16: the file cache returns only the latest bytes for the same key and keeps its limits.
//! Monitor: a shadow map of the latest value per (host, path); after every operation every key ever
//! stored is probed. Concurrent histories through the RwLock are checked per key with an interval rule;
//! the handler level is observed on files rewritten between requests.

use humphrey::http::address::Address;
use humphrey::http::headers::{HeaderType, Headers};
use humphrey::http::method::Method;
use humphrey::http::mime::MimeType;
use humphrey::http::Request;
use humphrey_server::config::Config;
use humphrey_server::server::cache::Cache;
use humphrey_server::server::r#static::{directory_handler, file_handler};
use humphrey_server::server::server::AppState;
use hvcommon::args::Args;
use hvcommon::json::J;
use hvcommon::report::Report;
use hvcommon::rng::Rng;
use hvcommon::util::{fnv, ncpu, panic_msg, par};
use std::collections::HashMap;
use std::panic::{catch_unwind, AssertUnwindSafe};
use std::sync::{Arc, RwLock};
use std::time::{Duration, Instant};

const MIMES: [&str; 4] = ["txt", "html", "png", "bin"];

fn mk_cache(limit: usize, time: usize) -> Cache {
    let mut c = Config::default();
    c.cache.size_limit = limit;
    c.cache.time_limit = time;
    Cache::from(&c)
}

fn value_for(id: u64, size: usize) -> Vec<u8> {
    // unique content: the id in the leading bytes (as far as the size allows), then a pattern
    let idb = id.to_le_bytes();
    (0..size).map(|i| if i < 8 { idb[i] } else { (i as u64 * 31 + id) as u8 }).collect()
}

#[derive(Clone, Copy, PartialEq, Debug)]
pub enum Op {
    Set { key: u8, host: u8, size_class: u8 },
    Get { key: u8, host: u8 },
}

fn op_str(o: &Op) -> String {
    match o {
        Op::Set { key, host, size_class } => format!("set(k{},h{},s{})", key, host, size_class),
        Op::Get { key, host } => format!("get(k{},h{})", key, host),
    }
}

const KEYS: [&str; 3] = ["/k0", "/k1", "/k2"];

/// latest store per (key, host): (id, bytes, mime extension, stored at)
type ShadowEntry = Option<(u64, Vec<u8>, &'static str, Instant)>;

fn sizes_for(limit: usize) -> [usize; 3] {
    [0, (limit + 1) / 2, limit]
}

/// Runs one sequence on a fresh cache under the shadow-map monitor. Returns a violation (sig, what).
fn run_seq(ops: &[Op], limit: usize, time: usize, stats: &mut (u64, u64, u64)) -> Option<(String, String)> {
    let mut cache = mk_cache(limit, time);
    let mut sh: [ShadowEntry; 6] = Default::default();
    let sizes = sizes_for(limit);
    let mut next_id = 1u64;
    for (step, op) in ops.iter().enumerate() {
        let mut just_set: Option<usize> = None;
        match *op {
            Op::Set { key, host, size_class } => {
                let size = sizes[size_class as usize];
                let id = next_id;
                next_id += 1;
                let ext = MIMES[(id % 4) as usize];
                let val = value_for(id, size);
                let r = catch_unwind(AssertUnwindSafe(|| cache.set(KEYS[key as usize], host as usize, val.clone(), MimeType::from_extension(ext))));
                if let Err(p) = r {
                    return Some(("C16/panic".into(), format!("step {} {} panicked: {}", step, op_str(op), panic_msg(&*p))));
                }
                let slot = key as usize * 2 + host as usize;
                sh[slot] = Some((id, val, ext, Instant::now()));
                just_set = Some(slot);
                stats.0 += 1;
            }
            Op::Get { key, host } => {
                stats.1 += 1;
                // judged by the probe below (which covers this key as well when it was ever stored)
                let _ = cache.get(KEYS[key as usize], host as usize).map(|i| i.data.len());
            }
        }
        // probe every key ever stored
        let mut retrievable = 0usize;
        for (slot, e) in sh.iter().enumerate() {
            let (id, val, ext, at) = match e {
                Some(x) => x,
                None => continue,
            };
            let (k, h) = (slot / 2, slot % 2);
            stats.2 += 1;
            match cache.get(KEYS[k], h) {
                Some(item) => {
                    if item.data != *val || std::mem::discriminant(&item.mime_type) != std::mem::discriminant(&MimeType::from_extension(ext)) {
                        // whose data is it?
                        let other = sh.iter().enumerate().find(|(_, v)| v.as_ref().map(|v| v.1 == item.data && !v.1.is_empty()).unwrap_or(false)).map(|(s2, _)| format!("the latest value of (k{},h{})", s2 / 2, s2 % 2)).unwrap_or_else(|| "an older or foreign value".into());
                        return Some(("C16/wrong-data".into(), format!("after step {} {}: get(k{},h{}) returned {} ({} bytes, {}) instead of the latest store (id {}, {} bytes, {})", step, op_str(op), k, h, other, item.data.len(), item.mime_type.to_string(), id, val.len(), ext)));
                    }
                    if at.elapsed() >= Duration::from_secs(time as u64 + 1) + Duration::from_millis(50) {
                        return Some(("C16/stale-hit".into(), format!("get(k{},h{}) returned data {} ms old with time limit {} s", k, h, at.elapsed().as_millis(), time)));
                    }
                    retrievable += item.data.len();
                }
                None => {
                    if just_set == Some(slot) && time >= 1 && val.len() <= limit {
                        return Some(("C16/not-retrievable-after-set".into(), format!("after step {} {}: the item just stored ({} bytes <= limit {}) is not retrievable", step, op_str(op), val.len(), limit)));
                    }
                }
            }
        }
        if retrievable > limit {
            return Some(("C16/size-limit-exceeded".into(), format!("after step {} {}: retrievable entries total {} bytes > limit {}", step, op_str(op), retrievable, limit)));
        }
    }
    None
}

fn all_ops() -> Vec<Op> {
    let mut v = Vec::new();
    for key in 0..3 {
        for host in 0..2 {
            for size_class in 0..3 {
                v.push(Op::Set { key, host, size_class });
            }
            v.push(Op::Get { key, host });
        }
    }
    v
}

fn seq_json(ops: &[Op], limit: usize, time: usize) -> J {
    J::obj(vec![("ops", J::arr_s(&ops.iter().map(op_str).collect::<Vec<_>>())), ("size_limit", J::u(limit as u64)), ("time_limit", J::u(time as u64)), ("sizes", J::s(format!("{:?}", sizes_for(limit))))])
}

fn encode_ops(ops: &[Op]) -> String {
    ops.iter().map(|o| match o { Op::Set { key, host, size_class } => format!("s{}{}{}", key, host, size_class), Op::Get { key, host } => format!("g{}{}", key, host) }).collect::<Vec<_>>().join(",")
}

fn decode_ops(s: &str) -> Vec<Op> {
    s.split(',').filter(|x| !x.is_empty()).map(|t| { let b = t.as_bytes(); if b[0] == b's' { Op::Set { key: b[1] - b'0', host: b[2] - b'0', size_class: b[3] - b'0' } } else { Op::Get { key: b[1] - b'0', host: b[2] - b'0' } } }).collect()
}

// ---------------------------------------------------------------- concurrent histories

struct Ev {
    key: u8,
    is_set: bool,
    /// set: id written; get: id observed (0 = miss)
    id: u64,
    call: Instant,
    ret: Instant,
}

fn concurrent_case(r: &mut Report, seed: u64, case: u64) {
    let mut rng = Rng::derive(seed, 0x1610_0000 + case);
    let nthreads = rng.urange(1, 8);
    let nkeys = rng.urange(1, 4) as u8;
    let limit = *rng.pick(&[64usize, 256, 4096, 65536]);
    let nops = rng.urange(50, 400);
    let cache = Arc::new(RwLock::new(mk_cache(limit, 60)));
    let t0 = Instant::now();
    let hs: Vec<_> = (0..nthreads)
        .map(|t| {
            let cache = cache.clone();
            let mut rng = Rng::derive(seed, 0x1620_0000 + case * 16 + t as u64);
            std::thread::spawn(move || {
                let mut evs = Vec::with_capacity(nops);
                for i in 0..nops {
                    let key = rng.below(nkeys as u64) as u8;
                    if rng.chance(2, 5) {
                        let id = ((t as u64 + 1) << 32) | (i as u64 + 1);
                        let size = rng.urange(8, 8.max(limit / 3));
                        let v = value_for(id, size);
                        let call = Instant::now();
                        cache.write().unwrap().set(&format!("/k{}", key), 0, v, MimeType::from_extension("txt"));
                        evs.push(Ev { key, is_set: true, id, call, ret: Instant::now() });
                    } else {
                        let call = Instant::now();
                        let got = {
                            let g = cache.read().unwrap();
                            g.get(&format!("/k{}", key), 0).map(|it| it.data.clone())
                        };
                        let ret = Instant::now();
                        let id = match got {
                            None => 0,
                            Some(d) => {
                                let mut b = [0u8; 8];
                                b.copy_from_slice(&d[..8]);
                                let id = u64::from_le_bytes(b);
                                if d != value_for(id, d.len()) { u64::MAX } else { id }
                            }
                        };
                        evs.push(Ev { key, is_set: false, id, call, ret });
                    }
                    if rng.chance(1, 20) {
                        std::thread::yield_now();
                    }
                }
                evs
            })
        })
        .collect();
    let mut evs: Vec<Ev> = Vec::new();
    for h in hs {
        match h.join() {
            Ok(e) => evs.extend(e),
            Err(p) => {
                r.violation("C16/panic", format!("a cache operation panicked under concurrency: {}", panic_msg(&*p)), J::obj(vec![("case", J::u(case))]), vec!["c16".into(), "--concurrent-case".into(), case.to_string(), "--seed".into(), seed.to_string()]);
                return;
            }
        }
    }
    r.eval();
    r.count("concurrent_histories", 1);
    r.count("concurrent_events", evs.len() as u64);
    r.max("max_threads", nthreads as u64);
    r.nontrivial(fnv(format!("c{}-{}-{}", case, nthreads, evs.len()).as_bytes()));
    // per-key interval check
    let sets: HashMap<u64, &Ev> = evs.iter().filter(|e| e.is_set).map(|e| (e.id, e)).collect();
    let replay = vec!["c16".to_string(), "--concurrent-case".into(), case.to_string(), "--seed".into(), seed.to_string()];
    for g in evs.iter().filter(|e| !e.is_set && e.id != 0) {
        r.count("concurrent_hits_checked", 1);
        let us = |i: Instant| i.duration_since(t0).as_micros() as u64;
        if g.id == u64::MAX {
            r.violation("C16/concurrent:torn-value", "a hit returned bytes that no single store wrote", J::obj(vec![("case", J::u(case)), ("key", J::u(g.key as u64))]), replay.clone());
            return;
        }
        let w = match sets.get(&g.id) {
            Some(w) => *w,
            None => {
                r.violation("C16/concurrent:phantom-value", "a hit returned a value that was never stored", J::obj(vec![("case", J::u(case))]), replay.clone());
                return;
            }
        };
        if w.key != g.key {
            r.violation("C16/concurrent:other-keys-data", format!("get(k{}) returned the value stored under k{}", g.key, w.key), J::obj(vec![("case", J::u(case)), ("get_key", J::u(g.key as u64)), ("value_key", J::u(w.key as u64))]), replay.clone());
            return;
        }
        if w.call > g.ret {
            r.violation("C16/concurrent:value-from-the-future", "a hit returned a value whose store was called after the lookup returned", J::obj(vec![("case", J::u(case))]), replay.clone());
            return;
        }
        // superseded: another set on the same key called after w returned and returned before g was called
        if let Some(s2) = evs.iter().find(|s| s.is_set && s.key == g.key && s.id != w.id && s.call > w.ret && s.ret < g.call) {
            r.violation("C16/concurrent:superseded-value", format!("get(k{}) returned a value that had been overwritten before the lookup started", g.key), J::obj(vec![("case", J::u(case)), ("key", J::u(g.key as u64)), ("write_us", J::s(format!("{}..{}", us(w.call), us(w.ret)))), ("overwrite_us", J::s(format!("{}..{}", us(s2.call), us(s2.ret)))), ("lookup_us", J::s(format!("{}..{}", us(g.call), us(g.ret))))]), replay.clone());
            return;
        }
    }
}

// ---------------------------------------------------------------- handler level

fn mk_req(uri: &str) -> Request {
    Request { method: Method::Get, uri: uri.into(), query: String::new(), version: "HTTP/1.1".into(), headers: Headers::new(), content: None, address: Address::new("10.0.0.9:999").unwrap() }
}

fn handler_level(r: &mut Report, work: &str, seed: u64, slow: bool) {
    let dir = format!("{}/c16/{}-{}", work, std::process::id(), seed);
    let _ = std::fs::remove_dir_all(&dir);
    std::fs::create_dir_all(format!("{}/d", dir)).unwrap();
    let mut rng = Rng::derive(seed, 0x1630);
    let time_limit = 1usize;
    let mut c = Config::default();
    c.logging.console = false;
    c.logging.level = humphrey_server::server::logger::LogLevel::Error;
    c.cache.size_limit = 4096;
    c.cache.time_limit = time_limit;
    let state = Arc::new(AppState::from(c));
    let files = ["a.txt", "b.html", "d/c.txt", "d/index.html"];
    // every version ever written per file, with the instant it was written
    let mut version: HashMap<&str, Vec<(Vec<u8>, Instant)>> = HashMap::new();
    let mut gen = 0u64;
    let mut write = |f: &str, version: &mut HashMap<&str, Vec<(Vec<u8>, Instant)>>, files: &[&'static str]| {
        gen += 1;
        let size = [10usize, 100, 3000, 5000][(gen % 4) as usize];
        let mut content = format!("HV16|{}|{}|", f, gen).into_bytes();
        content.resize(size.max(content.len()), b'.');
        std::fs::write(format!("{}/{}", dir, f), &content).unwrap();
        let key = *files.iter().find(|x| **x == f).unwrap();
        version.entry(key).or_default().push((content, Instant::now()));
    };
    for f in files {
        write(f, &mut version, &files);
    }
    let rounds = if slow { 4 } else { 2 };
    let replay = vec!["c16".to_string(), "--handler-level".into(), "1".into(), "--seed".into(), seed.to_string()];
    for round in 0..rounds {
        for _ in 0..60 {
            let f = *rng.pick(&files);
            if rng.chance(1, 4) {
                write(f, &mut version, &files);
                r.count("handler_file_rewrites", 1);
            }
            let (uri, via_dir) = if rng.chance(1, 2) { (format!("/{}", f), true) } else { (format!("/{}", f), false) };
            let req = mk_req(&uri);
            let fpath = format!("{}/{}", dir, f);
            let resp = catch_unwind(AssertUnwindSafe(|| if via_dir { directory_handler(req, state.clone(), &dir, "/*", 0) } else { file_handler(req, state.clone(), &fpath, 0) }));
            r.eval();
            r.count("handler_requests", 1);
            let resp = match resp {
                Ok(p) => p,
                Err(p) => {
                    r.violation("C16/handler:panic", format!("handler panicked: {}", panic_msg(&*p)), J::s(&uri), replay.clone());
                    return;
                }
            };
            let vs = version.get(f).unwrap();
            if u16::from(resp.status_code) != 200 {
                r.violation("C16/handler:not-served", format!("{} answered {}", uri, u16::from(resp.status_code)), J::s(&uri), replay.clone());
                return;
            }
            match vs.iter().position(|v| v.0 == resp.body) {
                None => {
                    let whose = version.iter().find(|(_, v)| v.iter().any(|x| x.0 == resp.body)).map(|(k, _)| k.to_string()).unwrap_or("no file at all".into());
                    r.violation("C16/handler:foreign-content", format!("request for {} returned content of {} (none of the versions ever written to it)", f, whose), J::obj(vec![("uri", J::s(&uri)), ("body_head", J::s(String::from_utf8_lossy(&resp.body[..resp.body.len().min(30)])))]), replay.clone());
                    return;
                }
                Some(i) if i + 1 == vs.len() => r.count("handler_new_content", 1),
                Some(i) => {
                    // an older version is acceptable only while the cache entry holding it may still be fresh
                    let superseded = vs[i + 1].1;
                    if superseded.elapsed() > Duration::from_millis(time_limit as u64 * 1000 + 1100) {
                        r.violation("C16/handler:stale-after-time-limit", format!("{} still served content that was overwritten {} ms ago (time limit {} s)", f, superseded.elapsed().as_millis(), time_limit), J::s(&uri), replay.clone());
                        return;
                    }
                    r.count("handler_cached_old_content", 1);
                }
            }
            let ct = resp.headers.get(&HeaderType::ContentType).unwrap_or("").to_string();
            let want_ct = if f.ends_with(".html") { "text/html" } else { "text/plain" };
            if ct != want_ct {
                r.violation("C16/handler:content-type", format!("{} served as {:?}", f, ct), J::s(&uri), replay.clone());
                return;
            }
        }
        if round + 1 < rounds {
            // let the time limit pass: afterwards only new content is acceptable
            std::thread::sleep(Duration::from_millis(2150));
            r.count("real_sleeps", 1);
        }
    }
    // files whose length at stat time says nothing about what a read returns (procfs reports size 0): the size limit
    // applies to the bytes actually read and served
    {
        let mut c2 = Config::default();
        c2.logging.console = false;
        c2.logging.level = humphrey_server::server::logger::LogLevel::Error;
        c2.cache.size_limit = 64;
        c2.cache.time_limit = 60;
        let st2 = Arc::new(AppState::from(c2));
        std::fs::write(format!("{}/tiny.txt", dir), b"tiny").unwrap();
        for (path, uri) in [("/proc/version".to_string(), "/version"), (format!("{}/tiny.txt", dir), "/tiny.txt"), ("/proc/self/status".to_string(), "/status"), (format!("{}/tiny.txt", dir), "/tiny.txt")] {
            r.eval();
            r.count("handler_requests", 1);
            let expected_len = std::fs::read(&path).map(|b| b.len()).unwrap_or(0);
            match hvcommon::util::catch_panic(|| file_handler(mk_req(uri), st2.clone(), &path, 0)) {
                Err((msg, loc)) => {
                    r.violation(&format!("C16/handler:panic@{}", loc), format!("file_handler panicked at {} serving {} (stat size differs from the bytes read; cache limit 64): {}", loc, path, msg), J::s(&path), replay.clone());
                    break;
                }
                Ok(resp) => {
                    if u16::from(resp.status_code) != 200 || (path.ends_with("tiny.txt") && resp.body != b"tiny") || (path == "/proc/version" && resp.body.len() != expected_len) {
                        r.violation("C16/handler:not-served", format!("{} answered {} with {} bytes", path, u16::from(resp.status_code), resp.body.len()), J::s(&path), replay.clone());
                    } else {
                        r.count("stat_size_mismatch_files_served", 1);
                    }
                }
            }
        }
    }
    // A read that fails (file route whose file is missing, or is a directory) is the handler's own business - whether it
    // panics or answers an error is not judged here - but the shared cache must come out of it usable: later requests
    // through the same state are still served, from the cache or from disk.
    {
        let mut c3 = Config::default();
        c3.logging.console = false;
        c3.logging.level = humphrey_server::server::logger::LogLevel::Error;
        c3.cache.size_limit = 4096;
        c3.cache.time_limit = 60;
        let st3 = Arc::new(AppState::from(c3));
        std::fs::write(format!("{}/kept.txt", dir), b"kept").unwrap();
        let good = format!("{}/kept.txt", dir);
        for (k, bad) in [format!("{}/no-such-file.txt", dir), dir.to_string(), good.clone()].iter().enumerate() {
            r.eval();
            let first = hvcommon::util::catch_panic(|| file_handler(mk_req("/kept.txt"), st3.clone(), &good, 0));
            let failed = hvcommon::util::catch_panic(|| file_handler(mk_req(&format!("/bad{}", k)), st3.clone(), bad, 0));
            r.count(if failed.is_err() { "failed_reads_that_panicked" } else { "failed_reads_answered" }, 1);
            let mut broken = None;
            for (uri, path) in [("/kept.txt", &good), ("/kept-again.txt", &good)] {
                match hvcommon::util::catch_panic(|| file_handler(mk_req(uri), st3.clone(), path, 0)) {
                    Err((msg, loc)) => broken = Some(format!("{} panicked at {}: {}", uri, loc, msg.chars().take(80).collect::<String>())),
                    Ok(resp) if u16::from(resp.status_code) != 200 || resp.body != b"kept" => broken = Some(format!("{} answered {} with {} bytes", uri, u16::from(resp.status_code), resp.body.len())),
                    Ok(_) => r.count("requests_served_after_a_failed_read", 1),
                }
            }
            if let (Some(why), Ok(_)) = (broken, &first) {
                r.violation("C16/handler:cache-unusable-after-failed-read", format!("after a request whose file could not be read ({}), requests for a readable file through the same state fail: {}", bad, why), J::s(bad), replay.clone());
                break;
            }
        }
    }
    // Frequent hits must not keep an entry alive beyond its time limit (seeded C16-M): the file is stored once, rewritten,
    // and then requested every 200 ms for 3.6 s. A cache entry holding the old bytes can only have been stored before the
    // rewrite, so 2.2 s after the rewrite (time limit 1 s + the clock's one-second granularity) no answer may carry them.
    {
        let mut c4 = Config::default();
        c4.logging.console = false;
        c4.logging.level = humphrey_server::server::logger::LogLevel::Error;
        c4.cache.size_limit = 4096;
        c4.cache.time_limit = 1;
        let st4 = Arc::new(AppState::from(c4));
        let hot = format!("{}/hot.txt", dir);
        let (v1, v2) = (b"HV16|hot|version-one".to_vec(), b"HV16|hot|version-two".to_vec());
        std::fs::write(&hot, &v1).unwrap();
        let first = file_handler(mk_req("/hot.txt"), st4.clone(), &hot, 0);
        std::fs::write(&hot, &v2).unwrap();
        let rewritten = Instant::now();
        let (mut late, mut late_stale, mut early_hits) = (0u64, 0u64, 0u64);
        while rewritten.elapsed() < Duration::from_millis(3600) {
            std::thread::sleep(Duration::from_millis(200));
            let at = rewritten.elapsed();
            let resp = file_handler(mk_req("/hot.txt"), st4.clone(), &hot, 0);
            if at > Duration::from_millis(2200) {
                late += 1;
                if resp.body == v1 {
                    late_stale += 1;
                }
            } else if resp.body == v1 {
                early_hits += 1;
            }
        }
        r.eval();
        r.count("real_sleeps", 1);
        r.count("frequent_hit_requests_after_the_time_limit", late);
        r.count("frequent_hit_requests_served_from_cache_within_the_time_limit", early_hits);
        if first.body != v1 {
            r.inconclusive("frequent-hit scenario: the first request did not return the file");
        } else if late_stale > 0 {
            r.violation("C16/stale-hit:kept-alive-by-hits", format!("a file stored once (time limit 1 s), then rewritten and requested every 200 ms: {} of {} answers later than 2.2 s after the rewrite still carried the old bytes - hits keep the entry alive beyond the time limit", late_stale, late), J::Null, replay.clone());
        }
    }
    // direct expiry: an entry with time limit 1 must be gone after 2.1 s; with time limit 0 after one clock second
    let mut cache0 = mk_cache(100, 0);
    cache0.set("/z", 0, vec![5; 10], MimeType::from_extension("txt"));
    let mut cache = mk_cache(100, 1);
    cache.set("/x", 0, vec![1, 2, 3], MimeType::from_extension("txt"));
    let hit_now = cache.get("/x", 0).is_some();
    std::thread::sleep(Duration::from_millis(2150));
    r.count("real_sleeps", 1);
    r.eval();
    if !hit_now {
        r.violation("C16/not-retrievable-after-set", "item not retrievable right after set (time limit 1)", J::Null, replay.clone());
    }
    if cache.get("/x", 0).is_some() {
        r.violation("C16/stale-hit", "entry with time limit 1 s still returned after 2.15 s", J::Null, replay.clone());
    }
    r.eval();
    if cache0.get("/z", 0).is_some() {
        r.violation("C16/stale-hit", "entry with time limit 0 s still returned 2.15 s after it was stored (data older than the configured time limit)", J::Null, replay.clone());
    } else {
        r.count("time_limit_zero_expired", 1);
    }
    // replacing an EXPIRED entry (same length, shorter, longer; also on another host) makes the new bytes
    // retrievable at once: the stored item's age counts from this store, not from the one it replaces
    cache.set("/y", 1, vec![9; 7], MimeType::from_extension("txt"));
    // a second cache whose expired content plus the next item exceeds the limit (size accounting of expired entries)
    let mut cache2 = mk_cache(100, 1);
    cache2.set("/p", 0, vec![1; 60], MimeType::from_extension("txt"));
    cache2.set("/p2", 1, vec![2; 30], MimeType::from_extension("txt"));
    std::thread::sleep(Duration::from_millis(2150));
    r.count("real_sleeps", 1);
    for (key, host, size) in [("/q", 0usize, 60usize), ("/r", 1, 60), ("/s", 0, 100), ("/t", 1, 1)] {
        r.eval();
        cache2.set(key, host, vec![7; size], MimeType::from_extension("txt"));
        match cache2.get(key, host) {
            Some(item) if item.data.len() == size => r.count("stores_after_expiry_retrievable", 1),
            _ => r.violation("C16/not-retrievable-after-set", format!("an item of {} bytes (limit 100) stored after all earlier entries had expired is not retrievable right after set ({} on host {})", size, key, host), J::Null, replay.clone()),
        }
    }
    for (key, host, new) in [("/x", 0usize, vec![4u8, 5, 6]), ("/y", 1usize, vec![7u8; 7]), ("/x", 0, vec![8u8; 2]), ("/y", 1, vec![6u8; 40])] {
        r.eval();
        cache.set(key, host, new.clone(), MimeType::from_extension("txt"));
        match cache.get(key, host) {
            Some(item) if item.data == new => r.count("expired_entries_replaced_and_retrievable", 1),
            Some(item) => r.violation("C16/wrong-data", format!("after replacing the expired entry {} (host {}) get returns {:?} instead of the {} new bytes", key, host, &item.data[..item.data.len().min(8)], new.len()), J::Null, replay.clone()),
            None => r.violation("C16/not-retrievable-after-set", format!("an item of {} bytes stored over an EXPIRED entry of the same key ({} on host {}, time limit 1 s, old entry 2.15 s old) is not retrievable right after set", new.len(), key, host), J::Null, replay.clone()),
        }
    }
    let _ = std::fs::remove_dir_all(&dir);
}

/// The real server binary with the cache enabled and several virtual hosts whose `directory` routes sit at different
/// route positions: the same URI is requested on every host, in every order, within the cache time. Each answer must be
/// that host's own file (the cache key is (host, path) all the way from the configuration to the lookup).
fn real_server_hosts(r: &mut Report, exe: &str, work: &str, seed: u64, variant: u64) {
    use std::io::Write;
    use std::process::{Command, Stdio};
    let dir = format!("{}/c16/srv-{}-{}-{}", work, std::process::id(), seed, variant);
    let _ = std::fs::remove_dir_all(&dir);
    let hosts = ["a.test", "b.test", "c.test", ""];
    for (i, _) in hosts.iter().enumerate() {
        for f in ["index.html", "x.txt", "sub/y.txt"] {
            let p = format!("{}/h{}/{}", dir, i, f);
            std::fs::create_dir_all(std::path::Path::new(&p).parent().unwrap()).unwrap();
            std::fs::write(&p, format!("HV16-HOST{}-{}-{}|{}", i, seed, variant, f)).unwrap();
            // a second directory of the same host, served under /docs/*, with files of the same relative paths (seeded C16-K)
            let p = format!("{}/h{}d/{}", dir, i, f);
            std::fs::create_dir_all(std::path::Path::new(&p).parent().unwrap()).unwrap();
            std::fs::write(&p, format!("HV16-DOCS{}-{}-{}|{}", i, seed, variant, f)).unwrap();
        }
    }
    std::fs::write(format!("{}/only.html", dir), "HV16-ONLY").unwrap();
    let port = hvcommon::net::free_port("127.0.0.1");
    // host a: the directory route is its first route; host b: second (after a file route); host c: third; default: first
    let pre: [&str; 4] = ["", "    route /only-b {\n      file \"{D}/only.html\"\n    }\n", "    route /only-c1 {\n      file \"{D}/only.html\"\n    }\n    route /only-c2 {\n      redirect \"https://example.com/\"\n    }\n", ""];
    let mut conf = format!("server {{\n  address \"127.0.0.1\"\n  port {}\n  threads 4\n  cache {{\n    size 1M\n    time 60\n  }}\n  log {{\n    level \"{}\"\n    console false\n  }}\n", port, ["error", "info", "warn", "debug"][(variant % 4) as usize]);
    let order: Vec<usize> = if variant % 2 == 0 { vec![0, 1, 2] } else { vec![2, 0, 1] };
    for i in order {
        conf.push_str(&format!("  host \"{}\" {{\n{}    route /docs/* {{\n      directory \"{}/h{}d\"\n    }}\n    route /* {{\n      directory \"{}/h{}\"\n    }}\n  }}\n", hosts[i], pre[i].replace("{D}", &dir), dir, i, dir, i));
    }
    conf.push_str(&format!("  route /docs/* {{\n    directory \"{}/h3d\"\n  }}\n  route /* {{\n    directory \"{}/h3\"\n  }}\n}}\n", dir, dir));
    let conf_path = format!("{}/humphrey.conf", dir);
    std::fs::write(&conf_path, &conf).unwrap();
    let mut child = match Command::new(exe).arg(&conf_path).current_dir(&dir).stdin(Stdio::null()).stdout(Stdio::null()).stderr(Stdio::null()).spawn() {
        Ok(c) => c,
        Err(e) => {
            r.harness_error(format!("cannot start {}: {}", exe, e));
            return;
        }
    };
    let addr: std::net::SocketAddr = format!("127.0.0.1:{}", port).parse().unwrap();
    let t = Instant::now();
    let mut up = false;
    while t.elapsed() < Duration::from_secs(10) {
        if let Ok(Some(_)) = child.try_wait() {
            break;
        }
        if std::net::TcpStream::connect(addr).is_ok() {
            up = true;
            break;
        }
        std::thread::sleep(Duration::from_millis(5));
    }
    if !up {
        r.inconclusive("the real server did not start for the multi-host cache scenario");
        let _ = child.kill();
        let _ = child.wait();
        return;
    }
    let mut rng = Rng::derive(seed, 0x16f0 + variant);
    let replay = vec!["c16".to_string(), "--seed".into(), seed.to_string()];
    let mine = format!("-{}-{}|", seed, variant);
    for round in 0..6 {
        for uri in ["/x.txt", "/docs/x.txt", "/", "/docs/", "/sub/y.txt", "/docs/sub/y.txt", "/index.html", "/docs/index.html", "/x.txt"] {
            // a random order of the four hosts (the last one is an unknown name: default host)
            let mut idx: Vec<usize> = vec![0, 1, 2, 3];
            for i in (1..idx.len()).rev() {
                idx.swap(i, rng.usize(i + 1));
            }
            for hi in idx {
                let host_header = if hosts[hi].is_empty() { "unknown.test" } else { hosts[hi] };
                r.eval();
                r.count("multi_host_requests", 1);
                let mut s = match std::net::TcpStream::connect(addr) {
                    Ok(s) => s,
                    Err(e) => {
                        r.inconclusive(format!("multi-host scenario: connect failed: {}", e));
                        continue;
                    }
                };
                let _ = s.write_all(format!("GET {} HTTP/1.1\r\nHost: {}\r\nConnection: close\r\n\r\n", uri, host_header).as_bytes());
                let (buf, _) = hvcommon::net::read_to_eof(&mut s, Duration::from_secs(10));
                let text = String::from_utf8_lossy(&buf).to_string();
                let docs = uri.starts_with("/docs/");
                let want_tag = format!("HV16-{}{}{}", if docs { "DOCS" } else { "HOST" }, hi, mine);
                if text.contains(&want_tag) {
                    r.count("multi_host_answers_own_file", 1);
                    if docs {
                        r.count("second_directory_route_answers_own_file", 1);
                    }
                } else if let Some(other) = (0..4).find(|o| text.contains(&format!("HV16-{}{}{}", if docs { "DOCS" } else { "HOST" }, o, mine))) {
                    r.violation("C16/server:another-hosts-entry", format!("GET {} with Host {} (round {}) was answered with the file of host #{} ({:?}) instead of its own: the cache returned another (host, path) entry's data", uri, host_header, round, other, if hosts[other].is_empty() { "default" } else { hosts[other] }), J::obj(vec![("config", J::s(&conf)), ("uri", J::s(uri)), ("host", J::s(host_header)), ("response_head", J::s(text.chars().take(200).collect::<String>()))]), replay.clone());
                } else if let Some(other) = (0..4).find(|o| text.contains(&format!("HV16-{}{}{}", if docs { "HOST" } else { "DOCS" }, o, mine))) {
                    r.violation("C16/server:another-routes-entry", format!("GET {} with Host {} (round {}) was answered with the file of the same relative path under the {} directory route of host #{}: the cache returned the entry of another path", uri, host_header, round, if docs { "/*" } else { "/docs/*" }, other), J::obj(vec![("config", J::s(&conf)), ("uri", J::s(uri)), ("host", J::s(host_header)), ("response_head", J::s(text.chars().take(200).collect::<String>()))]), replay.clone());
                } else if !text.starts_with("HTTP/1.1 200") {
                    r.violation("C16/handler:not-served", format!("GET {} with Host {} answered {:?}", uri, host_header, text.chars().take(40).collect::<String>()), J::s(&conf), replay.clone());
                } else {
                    r.inconclusive("multi-host scenario: a response without any of this run's tags (foreign server on the port?)");
                }
            }
        }
    }
    let _ = child.kill();
    let _ = child.wait();
    let _ = std::fs::remove_dir_all(&dir);
}

pub fn main(args: &Args) {
    let out = args.get("out").expect("--out");
    let seed = args.seed();
    let work = args.get("work").unwrap_or("/verif/.work").to_string();
    if let Some(s) = args.get("ops") {
        let ops = decode_ops(s);
        let mut r = Report::new();
        let (limit, time) = (args.u64("limit", 3) as usize, args.u64("time", 60) as usize);
        r.eval();
        if let Some((sig, what)) = run_seq(&ops, limit, time, &mut (0, 0, 0)) {
            r.violation(&sig, what, seq_json(&ops, limit, time), vec![]);
        }
        r.nontrivial(1);
        r.nontrivial(2);
        r.write(out, "replay of one operation sequence", None, &[]);
        return;
    }
    if let Some(c) = args.get("concurrent-case") {
        let mut r = Report::new();
        concurrent_case(&mut r, seed, c.parse().unwrap());
        r.nontrivial(1);
        r.nontrivial(2);
        r.write(out, "replay of one concurrent case (schedule not reproducible; same workload)", None, &[]);
        return;
    }
    if args.get("handler-level").is_some() {
        let mut r = Report::new();
        handler_level(&mut r, &work, seed, false);
        r.nontrivial(1);
        r.nontrivial(2);
        r.write(out, "replay of the handler-level scenario", None, &[]);
        return;
    }
    let thorough = args.thorough();
    let maxlen = if thorough { 5 } else { 4 };
    // 64 KiB values are expensive to build: the largest limit is applied to every 61st sequence only
    let limits = [0usize, 1, 3, 64, 65536];
    let times = [0usize, 1, 60];
    let work2 = work.clone();
    let reports = par(ncpu(), move |shard, nsh| {
        let mut r = Report::new();
        let ops = all_ops();
        let k = ops.len();
        let mut stats = (0u64, 0u64, 0u64);
        // (a) all operation sequences up to maxlen (sequences of length < maxlen are prefixes: every prefix state
        // is probed by run_seq, so only full-length sequences are enumerated)
        let total = k.pow(maxlen as u32);
        let mut code = shard;
        while code < total {
            let mut x = code;
            let mut seq = Vec::with_capacity(maxlen);
            for _ in 0..maxlen {
                seq.push(ops[x % k]);
                x /= k;
            }
            for limit in limits {
                if limit == 65536 && code % 61 != 0 {
                    continue;
                }
                for time in times {
                    r.eval();
                    r.count("exhaustive_sequences", 1);
                    let res = hvcommon::util::catch_panic(|| run_seq(&seq, limit, time, &mut stats));
                    let res = match res {
                        Ok(x) => x,
                        Err((msg, loc)) => Some((format!("C16/panic@{}", loc), format!("cache operation panicked at {}: {}", loc, msg))),
                    };
                    if let Some((sig, what)) = res {
                        r.violation(&sig, what, seq_json(&seq, limit, time), vec!["c16".into(), "--ops".into(), encode_ops(&seq), "--limit".into(), limit.to_string(), "--time".into(), time.to_string()]);
                    }
                }
            }
            if seq.iter().filter(|o| matches!(o, Op::Set { .. })).count() >= 2 {
                r.nontrivial(code as u64);
            }
            if code == 123_457 % total {
                r.sample(seq_json(&seq, 3, 60));
            }
            code += nsh;
        }
        // (a6) thorough only: the depth the property's quantifier names (length 6), for the configuration in which the
        // size limit binds hardest (limit 3 with sizes {0, 1, 3}, time limit 60)
        if thorough {
            let total6 = k.pow(6);
            let mut code = shard;
            while code < total6 {
                let mut x = code;
                let mut seq = Vec::with_capacity(6);
                for _ in 0..6 {
                    seq.push(ops[x % k]);
                    x /= k;
                }
                r.eval();
                r.count("exhaustive_sequences_of_length_6", 1);
                let res = match hvcommon::util::catch_panic(|| run_seq(&seq, 3, 60, &mut stats)) {
                    Ok(x) => x,
                    Err((msg, loc)) => Some((format!("C16/panic@{}", loc), format!("cache operation panicked at {}: {}", loc, msg))),
                };
                if let Some((sig, what)) = res {
                    r.violation(&sig, what, seq_json(&seq, 3, 60), vec!["c16".into(), "--ops".into(), encode_ops(&seq), "--limit".into(), "3".into(), "--time".into(), "60".into()]);
                }
                code += nsh;
            }
        }
        // (b) random long sequences over 32 keys (2 hosts), sizes 0..limit
        let mut rng = Rng::derive(seed, 0x1600 + shard as u64);
        let phase_b = hvcommon::util::catch_panic(|| {
        for _ in 0..(if thorough { 4000 } else { 300 }) / nsh + 1 {
            let limit = *rng.pick(&[16usize, 100, 1000, 65536]);
            let time = *rng.pick(&times);
            let n = rng.urange(100, 2000);
            let mut cache = mk_cache(limit, time);
            let mut latest: HashMap<(u8, u8), (u64, usize)> = HashMap::new();
            let mut id = 0u64;
            let mut fail: Option<(String, String)> = None;
            for step in 0..n {
                let key = rng.below(32) as u8;
                let host = rng.below(2) as u8;
                if rng.chance(1, 2) {
                    id += 1;
                    let size = match rng.below(4) { 0 => 0, 1 => limit, _ => rng.urange(0, limit) };
                    cache.set(&format!("/k{}", key), host as usize, value_for(id, size), MimeType::from_extension("txt"));
                    latest.insert((key, host), (id, size));
                    stats.0 += 1;
                    if time >= 1 && cache.get(&format!("/k{}", key), host as usize).is_none() {
                        fail = Some(("C16/not-retrievable-after-set".into(), format!("random sequence step {}: item of {} bytes (limit {}) not retrievable after set", step, size, limit)));
                        break;
                    }
                } else {
                    stats.1 += 1;
                }
                if step % 8 == 0 || step + 1 == n {
                    let mut sum = 0;
                    for ((k2, h2), (i2, s2)) in latest.iter() {
                        stats.2 += 1;
                        if let Some(it) = cache.get(&format!("/k{}", k2), *h2 as usize) {
                            if it.data != value_for(*i2, *s2) {
                                fail = Some(("C16/wrong-data".into(), format!("random sequence step {}: get(k{},h{}) returned bytes that are not its latest value", step, k2, h2)));
                            }
                            sum += it.data.len();
                        }
                    }
                    if sum > limit {
                        fail = Some(("C16/size-limit-exceeded".into(), format!("random sequence step {}: retrievable total {} > limit {}", step, sum, limit)));
                    }
                    if fail.is_some() {
                        break;
                    }
                }
            }
            r.eval();
            r.count("random_long_sequences", 1);
            r.nontrivial(fnv(format!("r{}-{}-{}", shard, id, n).as_bytes()));
            if let Some((sig, what)) = fail {
                r.violation(&sig, what, J::obj(vec![("kind", J::s("random long sequence")), ("limit", J::u(limit as u64)), ("time", J::u(time as u64))]), vec![]);
            }
        }
        });
        if let Err((msg, loc)) = phase_b {
            r.violation(&format!("C16/panic@{}", loc), format!("cache operation panicked at {} in a random long sequence: {}", loc, msg), J::Null, vec![]);
        }
        // (c) concurrent histories
        let ncon: u64 = if thorough { 3000 } else { 240 };
        let mut c = shard as u64;
        while c < ncon {
            concurrent_case(&mut r, seed, c);
            c += nsh as u64;
        }
        // (d)+(e) handler level with real sleeps, on one shard (two in thorough)
        if shard == 0 || (thorough && shard == 1) {
            if let Err((msg, loc)) = hvcommon::util::catch_panic(|| handler_level(&mut r, &work2, seed + shard as u64, thorough)) {
                r.violation(&format!("C16/panic@{}", loc), format!("cache / static handler code panicked at {} during the handler-level scenario with real sleeps: {}", loc, msg), J::Null, vec!["c16".into(), "--handler-level".into(), "1".into(), "--seed".into(), seed.to_string()]);
            }
        }
        // (f) the real server with several virtual hosts sharing the cache (two configurations)
        if shard == 2 || shard == 3 {
            let exe = format!("{}/target-repo/release/humphrey", work2);
            if std::path::Path::new(&exe).exists() {
                real_server_hosts(&mut r, &exe, &work2, seed, shard as u64);
            } else {
                r.harness_error(format!("server binary {} not built", exe));
            }
        }
        r.count("cache_sets", stats.0);
        r.count("cache_gets", stats.1);
        r.count("cache_probes", stats.2);
        r
    });
    let total = Report::merge_all(reports);
    let rule = format!("(a) every operation sequence of length {} over 24 operations (set x 3 keys x 2 hosts x 3 sizes {{0, limit/2, limit}}, get x 3 keys x 2 hosts) for size limits {{0,1,3,64}} (and 64 KiB on every 61st sequence) x time limits {{0,1,60}}, probing every key ever stored after every operation (so every shorter sequence is covered as a prefix), in the thorough tier also every sequence of length 6 for size limit 3 / time limit 60; (b) random sequences of 100..2000 operations over 32 keys x 2 hosts; (c) 1..8 threads through RwLock<Cache> as the handlers use it, unique values, per-key interval check; (d) file_handler/directory_handler with a cache-enabled AppState over files rewritten between requests, with real sleeps past the time limit, incl. stores over expired entries and a file requested every 200 ms across its entry's time limit; (f) the real server binary with cache on and four virtual hosts whose directory routes sit at different route positions, each host with a second directory route /docs/* holding files of the same relative paths, the same URIs requested on every host in random order. non-trivial = at least two stores; distinct = distinct sequences / histories", maxlen);
    total.write(out, &rule, Some(true), &["a hit's real age is bounded by time limit + 1 s (the cache clock has one-second resolution)", "with time limit 0 an item just stored may or may not be retrievable (the two clauses coincide only at age 0)", "exhaustive refers to part (a)", "stores larger than the size limit are not generated (the handlers never do that and the property quantifies sizes from 0 to the limit)"]);
}

//! C02: request parsing is faithful, segmentation-independent and round-trips.
//! Monitor: the `Request` returned by `Request::from_stream` over a scripted reader is compared field by
//! field with the generating model under every read plan; its serialisation is judged by the strict
//! reference reader and parsed again.

use humphrey::http::Request;
use hvcommon::args::Args;
use hvcommon::httpref::{parse_request, Parse};
use hvcommon::json::J;
use hvcommon::reader::{plan_from_string, plan_to_string, plans_for, Plan, ScriptedReader};
use hvcommon::report::Report;
use hvcommon::reqgen::{gen_request, GenOpts, Obs, ReqModel};
use hvcommon::rng::Rng;
use hvcommon::util::{fnv, hex, ncpu, panic_msg, par, show};
use std::net::SocketAddr;
use std::panic::{catch_unwind, AssertUnwindSafe};

pub fn observe(req: &Request, names: &[String]) -> Obs {
    Obs {
        method: req.method.to_string(),
        uri: req.uri.clone(),
        query: req.query.clone(),
        version: req.version.clone(),
        nheaders: req.headers.len(),
        per_name: names.iter().map(|n| (n.clone(), req.headers.get_all(n.as_str()).into_iter().map(|s| s.to_string()).collect())).collect(),
        cookies: req.get_cookies().into_iter().map(|c| (c.name, c.value)).collect(),
        origin: req.address.origin_addr.to_string(),
        proxies: req.address.proxies.iter().map(|p| p.to_string()).collect(),
        port: req.address.port,
        content: req.content.clone(),
    }
}

fn peer_for(rng: &mut Rng) -> SocketAddr {
    let port = rng.range(1024, 65535) as u16;
    if rng.chance(3, 4) {
        format!("10.{}.{}.{}:{}", rng.below(256), rng.below(256), rng.range(1, 254), port).parse().unwrap()
    } else {
        format!("[2001:db8::{:x}]:{}", rng.range(1, 65535), port).parse().unwrap()
    }
}

fn run_case(r: &mut Report, m: &ReqModel, peer: SocketAddr, plans: &[Plan], seed: u64, case: u64) {
    let bytes = m.render();
    let names = m.names();
    let mut first: Option<Request> = None;
    // where the head ends: an aborted parse (peer gone inside the head) precedes every second parse on this thread;
    // whatever the parser keeps between calls must not leak into the next request (seeded C02-K)
    let head_end = bytes.windows(4).position(|w| w == b"\r\n\r\n").map(|i| i + 2).unwrap_or(bytes.len());
    for (pi, plan) in plans.iter().enumerate() {
        if pi % 2 == 1 || plans.len() == 1 {
            let cut = match pi % 6 { 1 => head_end.saturating_sub(3), 3 => head_end / 2, _ => head_end.saturating_sub(1 + (case as usize + pi) % head_end.max(1)) }.max(1).min(bytes.len());
            let mut ab = ScriptedReader::new(&bytes[..cut], if pi % 4 == 1 { Plan::Fill } else { Plan::Sizes(vec![7]) });
            let _ = catch_unwind(AssertUnwindSafe(|| Request::from_stream(&mut ab, peer)));
            r.count("aborted_parses_before_a_well_formed_one", 1);
        }
        r.eval();
        r.count("parses", 1);
        let mut rd = ScriptedReader::new(&bytes, plan.clone());
        let res = catch_unwind(AssertUnwindSafe(|| Request::from_stream(&mut rd, peer)));
        let replay = vec!["c02".into(), "--seed".into(), seed.to_string(), "--case".into(), case.to_string(), "--plan".into(), plan_to_string(plan)];
        let ex = |why: &str| J::obj(vec![("request", m.to_json()), ("bytes", J::s(show(&bytes, 300))), ("bytes_hex", J::s(hex(&bytes[..bytes.len().min(3000)]))), ("read_plan", J::s(plan_to_string(plan))), ("peer", J::s(peer.to_string())), ("why", J::s(why))]);
        match res {
            Err(p) => {
                let msg = panic_msg(&*p);
                r.violation("C02/panic", format!("Request::from_stream panicked on a well-formed request: {}", msg), ex(&msg), replay);
            }
            Ok(Err(e)) => {
                r.violation(&format!("C02/rejects-well-formed:{:?}", e), format!("well-formed request rejected with {:?} under read plan {}", e, plan_to_string(plan)), ex("rejected"), replay);
            }
            Ok(Ok(req)) => {
                let o = observe(&req, &names);
                for (sig, what) in m.compare(&o, &peer.ip().to_string(), peer.port(), "parse") {
                    r.violation(&sig, what.clone(), ex(&what), replay.clone());
                }
                if rd.consumed() != bytes.len() {
                    // BufReader read-ahead is allowed to consume more from the reader, never less than the message
                    r.count("reader_not_fully_consumed", 1);
                }
                if first.is_none() {
                    first = Some(req);
                }
            }
        }
    }
    // round trip of the first successful parse
    if let Some(req) = first {
        r.eval();
        r.count("roundtrips", 1);
        let replay = vec!["c02".into(), "--seed".into(), seed.to_string(), "--case".into(), case.to_string(), "--plan".into(), "fill".into()];
        let ser: Vec<u8> = match catch_unwind(AssertUnwindSafe(|| Vec::<u8>::from(req.clone()))) {
            Ok(s) => s,
            Err(p) => {
                r.violation("C02/serialize-panic", format!("Vec::<u8>::from(Request) panicked: {}", panic_msg(&*p)), m.to_json(), replay);
                return;
            }
        };
        let ex = |why: &str| J::obj(vec![("request", m.to_json()), ("sent", J::s(show(&bytes, 300))), ("serialised", J::s(show(&ser, 400))), ("serialised_hex", J::s(hex(&ser[..ser.len().min(3000)]))), ("why", J::s(why))]);
        // (a) the serialisation is a well-formed request denoting the same message
        match parse_request(&ser, true) {
            Parse::Complete(rm) => {
                let stray = &ser[rm.consumed..];
                let stray_ok = stray.is_empty() || (m.fields.is_empty() && stray == b"\r\n");
                if !stray_ok {
                    r.violation("C02/roundtrip:stray-bytes", format!("serialised request is followed by {} stray byte(s)", stray.len()), ex("stray bytes after the message"), replay.clone());
                }
                if stray == b"\r\n" {
                    r.count("serialised_with_extra_crlf_when_no_fields", 1);
                }
                let mut probs = Vec::new();
                if rm.first != m.method {
                    probs.push("method");
                }
                let target = format!("{}{}", m.path, match &m.query { Some(q) if !q.is_empty() => format!("?{}", q), _ => String::new() });
                if rm.second != target {
                    probs.push("target");
                }
                if rm.third != m.version {
                    probs.push("version");
                }
                if rm.headers.len() != m.fields.len() {
                    probs.push("field-count");
                }
                for n in &names {
                    let want = m.values_of(n);
                    let got: Vec<String> = rm.headers_all(n).into_iter().map(|s| s.to_string()).collect();
                    if got != want {
                        let (mut a, mut b) = (got.clone(), want.clone());
                        a.sort();
                        b.sort();
                        if a == b {
                            r.violation("C02/roundtrip:same-name-order", format!("serialisation reorders the values of repeated field {:?} ({} fields in the request)", n, m.fields.len()), ex(&format!("field {:?}: {:?} instead of {:?}", n, got, want)), replay.clone());
                        } else {
                            probs.push("field-values");
                        }
                    }
                }
                if rm.body != m.body.clone().unwrap_or_default() {
                    probs.push("body");
                }
                probs.dedup();
                if !probs.is_empty() {
                    r.violation(&format!("C02/roundtrip:serialised-differs:{}", probs.join("+")), format!("serialised request differs from the received one in {}", probs.join(", ")), ex(&probs.join(",")), replay.clone());
                }
            }
            Parse::Malformed(e) => r.violation("C02/roundtrip:serialised-malformed", format!("serialised request is not well-formed HTTP: {}", e), ex(&e), replay.clone()),
            Parse::Incomplete => r.violation("C02/roundtrip:serialised-incomplete", "serialised request is incomplete", ex("incomplete"), replay.clone()),
        }
        // (b) parsing the serialisation again yields an equal request
        let mut rd = ScriptedReader::new(&ser, Plan::Fill);
        match catch_unwind(AssertUnwindSafe(|| Request::from_stream(&mut rd, peer))) {
            Ok(Ok(req2)) => {
                let o2 = observe(&req2, &names);
                for (sig, what) in m.compare(&o2, &peer.ip().to_string(), peer.port(), "reparse") {
                    r.violation(&sig, what.clone(), ex(&what), replay.clone());
                }
            }
            Ok(Err(e)) => r.violation("C02/roundtrip:reparse-rejected", format!("parsing the serialised request fails with {:?}", e), ex("reparse rejected"), replay.clone()),
            Err(p) => r.violation("C02/panic", format!("parsing the serialised request panicked: {}", panic_msg(&*p)), ex("panic"), replay),
        }
    }
}

pub fn gen_case(seed: u64, case: u64, thorough: bool) -> (ReqModel, SocketAddr, Rng) {
    let mut rng = Rng::derive(seed, 0x0200_0000 + case);
    let opts = GenOpts { max_fields: 48, max_body: if thorough || case % 16 == 0 { 65536 } else { 4096 }, allow_xff: true };
    let m = gen_request(&mut rng, &opts);
    let peer = peer_for(&mut rng);
    (m, peer, rng)
}

/// `Request::from_stream_with_timeout` on a real socket: the timeout bounds the wait for the FIRST byte of a request;
/// once a request has begun, the pieces may arrive further apart than the timeout and the parse result must not change.
fn timed_case(r: &mut Report, m: &ReqModel, seed: u64, case: u64) {
    use humphrey::stream::Stream;
    use std::io::Write;
    use std::net::{TcpListener, TcpStream};
    use std::time::Duration;
    let bytes = m.render();
    if bytes.len() < 8 {
        return;
    }
    let names = m.names();
    let mut rng = Rng::derive(seed, 0x02ee_0000 + case);
    let timeout = Duration::from_millis(200);
    let head_end = bytes.windows(4).position(|w| w == b"\r\n\r\n").map(|p| p + 4).unwrap_or(bytes.len());
    let cut = match rng.below(4) {
        0 => 1,
        1 => rng.urange(2, head_end.max(3) - 1),
        2 => head_end.min(bytes.len() - 1).max(1),
        _ => rng.urange(head_end.min(bytes.len() - 1).max(1), bytes.len() - 1),
    };
    let l = match TcpListener::bind("127.0.0.1:0") {
        Ok(l) => l,
        Err(e) => {
            r.inconclusive(format!("timed parse: cannot bind: {}", e));
            return;
        }
    };
    let addr = l.local_addr().unwrap();
    let b2 = bytes.clone();
    let writer = std::thread::spawn(move || {
        if let Ok(mut c) = TcpStream::connect(addr) {
            let _ = c.set_nodelay(true);
            let _ = c.write_all(&b2[..cut]);
            std::thread::sleep(Duration::from_millis(450));
            let _ = c.write_all(&b2[cut..]);
            // keep the connection open until the parser is done
            std::thread::sleep(Duration::from_millis(300));
        }
    });
    let (sock, peer) = match l.accept() {
        Ok(x) => x,
        Err(e) => {
            r.inconclusive(format!("timed parse: accept failed: {}", e));
            return;
        }
    };
    r.eval();
    r.count("timed_parses", 1);
    let mut st = Stream::Tcp(sock);
    let res = catch_unwind(AssertUnwindSafe(|| Request::from_stream_with_timeout(&mut st, peer, timeout)));
    let replay = vec!["c02".into(), "--seed".into(), seed.to_string(), "--timed-case".into(), case.to_string()];
    let ex = |why: &str| J::obj(vec![("request", m.to_json()), ("bytes", J::s(show(&bytes, 300))), ("first_segment_bytes", J::u(cut as u64)), ("pause_ms", J::u(450)), ("timeout_ms", J::u(200)), ("why", J::s(why))]);
    match res {
        Err(p) => r.violation("C02/panic", format!("from_stream_with_timeout panicked: {}", panic_msg(&*p)), ex("panic"), replay),
        // Timeout = no first byte within 200 ms of the call: the writer thread was late (loaded machine), nothing to judge
        Ok(Err(humphrey::http::request::RequestError::Timeout)) => r.count("timed_parses_discarded_writer_late", 1),
        Ok(Err(e)) => r.violation(&format!("C02/timed:rejects-well-formed:{:?}", e), format!("a well-formed request delivered in two segments 450 ms apart (timeout for the wait before a request: 200 ms; first segment {} bytes) was rejected with {:?}", cut, e), ex("rejected"), replay),
        Ok(Ok(req)) => {
            let o = observe(&req, &names);
            let bad = m.compare(&o, &peer.ip().to_string(), peer.port(), "timed-parse");
            if bad.is_empty() {
                r.count("timed_parses_faithful", 1);
            }
            for (sig, what) in bad {
                r.violation(&sig, what.clone(), ex(&what), replay.clone());
            }
        }
    }
    drop(st);
    writer.join().ok();
}

pub fn main(args: &Args) {
    let out = args.get("out").expect("--out");
    let seed = args.seed();
    if let Some(c) = args.get("timed-case") {
        let case: u64 = c.parse().unwrap();
        let (m, _, _) = gen_case(seed, case, false);
        let mut r = Report::new();
        timed_case(&mut r, &m, seed, case);
        r.nontrivial(1);
        r.nontrivial(2);
        r.write(out, "replay of one timed parse", None, &[]);
        return;
    }
    if let Some(c) = args.get("case") {
        let case: u64 = c.parse().unwrap();
        let (m, peer, _) = gen_case(seed, case, args.flag("thorough-case"));
        let plan = plan_from_string(args.get("plan").unwrap_or("fill")).unwrap();
        let mut r = Report::new();
        run_case(&mut r, &m, peer, &[plan], seed, case);
        r.nontrivial(1);
        r.nontrivial(2);
        r.write(out, "replay of one recorded case", None, &[]);
        return;
    }
    let thorough = args.thorough();
    let ncases: u64 = if thorough { 60_000 } else { 3_000 };
    let n = ncpu();
    let reports = par(n, move |shard, nsh| {
        let mut r = Report::new();
        let mut case = shard as u64;
        while case < ncases {
            let (m, peer, mut rng) = gen_case(seed, case, thorough);
            let bytes_len = m.render().len();
            let plans = plans_for(bytes_len, &mut rng, 512, 24, 4);
            r.count("requests", 1);
            r.count(if m.fields.len() > 20 { "requests_over_20_fields" } else { "requests_up_to_20_fields" }, 1);
            if m.xff.is_some() {
                r.count("requests_with_xff", 1);
            }
            if m.body.is_some() {
                r.count("requests_with_body", 1);
            }
            if m.names().len() < m.fields.len() {
                r.count("requests_with_repeated_names", 1);
            }
            r.max("max_body_len", m.body.as_ref().map(|b| b.len()).unwrap_or(0) as u64);
            r.max("max_fields", m.fields.len() as u64);
            if !m.fields.is_empty() {
                r.nontrivial(fnv(&m.render()));
            }
            if case < 3 {
                r.sample(J::obj(vec![("request", m.to_json()), ("read_plans", J::u(plans.len() as u64)), ("peer", J::s(peer.to_string()))]));
            }
            run_case(&mut r, &m, peer, &plans, seed, case);
            // a few requests per shard also through from_stream_with_timeout on a socket, slowly
            if case / nsh as u64 % 97 == 3 && m.xff.is_none() {
                timed_case(&mut r, &m, seed, case);
            }
            case += nsh as u64;
        }
        r
    });
    let total = Report::merge_all(reports);
    let rule = "requests generated from the restricted HTTP/1.x grammar (5 methods, pchar paths with %XX and sub-delims, optional query with ?=&%XX, HTTP/1.0|1.1, 0..48 fields with known/custom names in random case, repeated names interleaved, OWS 0..3, visible-ASCII/inner-blank/non-ASCII values, one Cookie field, one X-Forwarded-For list of IPv4/IPv6 with and without blanks, Content-Length bodies to 4 KiB (64 KiB every 16th case; always in thorough)); each parsed whole, bytewise, at every single split point (<= 512 B, else 24 random), 4 random multi-split plans; then serialised, judged by the strict reference reader and re-parsed; a sample also through Request::from_stream_with_timeout (200 ms) on a socket, in two segments 450 ms apart. non-trivial = at least one header field; distinct = distinct request bytes";
    total.write(out, rule, None, &["the overall (cross-name) order of fields is not observable through the public API (Headers::iter sorts) and is not judged; per-name order is", "with zero header fields the serialisation carries one extra CRLF after the header section; accepted (RFC 9112 2.2 lets a recipient skip an empty line) and counted"]);
}

//! C18: SHA-1, Base64, percent-encoding and HTTP dates are exact.
//! Monitors: every output of the four primitives is compared with an independent reference
//! (hvcommon::wsref / httpref); the references and the SUT are cross-validated by CPython on a
//! dumped sample (direct lines) and on block digests of complete spaces (thorough).

use humphrey::http::date::DateTime;
use humphrey::percent::{PercentDecode, PercentEncode};
use humphrey_ws::verif::{Base64Decode, Base64Encode, SHA1Hash};
use hvcommon::args::Args;
use hvcommon::httpref::format_imf_fixdate;
use hvcommon::json::J;
use hvcommon::report::Report;
use hvcommon::rng::Rng;
use hvcommon::util::{fnv, hex, ncpu, panic_msg, par, show, unhex};
use hvcommon::wsref;
use std::io::Write;
use std::panic::catch_unwind;

const B64: &[u8; 65] = b"ABCDEFGHIJKLMNOPQRSTUVWXYZabcdefghijklmnopqrstuvwxyz0123456789+/=";
const UNRESERVED: &[u8] = b"ABCDEFGHIJKLMNOPQRSTUVWXYZabcdefghijklmnopqrstuvwxyz0123456789-_.~";

fn viol(r: &mut Report, sig: &str, what: String, kind: &str, input: &[u8], got: &str, want: &str) {
    r.violation(
        sig,
        what,
        J::obj(vec![("primitive", J::s(kind)), ("input", J::s(show(input, 120))), ("input_hex", J::s(hex(&input[..input.len().min(4096)]))), ("got", J::s(got)), ("expected", J::s(want))]),
        vec!["c18".into(), "--one".into(), kind.into(), "--input-hex".into(), hex(input)],
    );
}

fn check_sha1(r: &mut Report, msg: &[u8], dump: Option<&mut Vec<String>>) {
    r.eval();
    r.count("sha1_cases", 1);
    if msg.len() > 55 {
        r.nontrivial(fnv(msg) ^ 0x51);
    }
    let want = wsref::sha1(msg);
    match catch_unwind(|| msg.hash()) {
        Ok(got) => {
            if got != want {
                viol(r, "C18/sha1:wrong-digest", format!("SHA-1 of a {}-byte message differs from the reference", msg.len()), "sha1", msg, &hex(&got), &hex(&want));
            }
            if let Some(d) = dump {
                d.push(format!("sha1\t{}\t{}\t{}", hex(msg), hex(&got), hex(&want)));
            }
        }
        Err(e) => viol(r, "C18/sha1:panic", format!("SHA-1 of a {}-byte message panicked: {}", msg.len(), panic_msg(&*e)), "sha1", msg, "panic", &hex(&want)),
    }
}

fn check_b64_encode(r: &mut Report, data: &[u8], dump: Option<&mut Vec<String>>) -> String {
    r.eval();
    r.count("b64_encode_cases", 1);
    if !data.is_empty() {
        r.nontrivial(fnv(data) ^ 0xb64e);
    }
    let want = wsref::b64(data);
    match catch_unwind(|| data.encode()) {
        Ok(got) => {
            if got != want {
                viol(r, "C18/base64-encode:wrong", format!("Base64 of {} differs from RFC 4648", hex(data)), "b64e", data, &got, &want);
            }
            // the decoder must invert the encoder
            match catch_unwind(|| got.decode()) {
                Ok(Ok(back)) if back == data => {}
                Ok(other) => viol(r, "C18/base64-decode:does-not-invert-encoder", format!("decode(encode({})) = {:?}", hex(data), other.map(|v| hex(&v))), "b64e", data, "roundtrip mismatch", &hex(data)),
                Err(e) => viol(r, "C18/base64-decode:panic", format!("decode(encode({})) panicked: {}", hex(data), panic_msg(&*e)), "b64e", data, "panic", &hex(data)),
            }
            if let Some(d) = dump {
                d.push(format!("b64e\t{}\t{}\t{}", hex(data), got, want));
            }
            got
        }
        Err(e) => {
            viol(r, "C18/base64-encode:panic", format!("Base64 encode of {} panicked: {}", hex(data), panic_msg(&*e)), "b64e", data, "panic", &want);
            want
        }
    }
}

fn check_b64_decode(r: &mut Report, s: &[u8], dump: Option<&mut Vec<String>>) {
    r.eval();
    r.count("b64_decode_cases", 1);
    let text = match std::str::from_utf8(s) {
        Ok(t) => t,
        Err(_) => return,
    };
    let want = wsref::b64_decode(text);
    let canonical = wsref::b64_canonical(text);
    r.nontrivial(fnv(s) ^ 0xb64d);
    if want.is_err() {
        r.count("b64_decode_malformed_cases", 1);
    }
    let got = catch_unwind(|| text.decode());
    let gs = match &got {
        Ok(Ok(v)) => format!("ok:{}", hex(v)),
        Ok(Err(())) => "err".to_string(),
        Err(e) => format!("panic:{}", panic_msg(&**e)),
    };
    let ws = match &want {
        Ok(v) => format!("ok:{}", hex(v)),
        Err(e) => format!("err:{}", e),
    };
    match (&got, &want) {
        (Err(_), _) => viol(r, "C18/base64-decode:panic", format!("Base64 decode of {:?} panicked", text), "b64d", s, &gs, &ws),
        (Ok(Ok(v)), Ok(w)) => {
            if v != w {
                viol(r, "C18/base64-decode:wrong-value", format!("Base64 decode of {:?} gives {} instead of {}", text, hex(v), hex(w)), "b64d", s, &gs, &ws);
            }
        }
        (Ok(Ok(_)), Err(why)) => {
            let sig = if s.len() % 4 != 0 { "C18/base64-decode:accepts-bad-length" } else { "C18/base64-decode:accepts-malformed" };
            viol(r, sig, format!("Base64 decode accepts malformed {:?} ({})", text, why), "b64d", s, &gs, &ws);
        }
        (Ok(Err(())), Ok(_)) => {
            // RFC 4648 3.5: a decoder MAY reject non-canonical trailing bits; anything else must be accepted
            if canonical {
                viol(r, "C18/base64-decode:rejects-valid", format!("Base64 decode rejects valid {:?}", text), "b64d", s, &gs, &ws);
            } else {
                r.count("b64_decode_noncanonical_rejected", 1);
            }
        }
        (Ok(Err(())), Err(_)) => {}
    }
    if let Some(d) = dump {
        d.push(format!("b64d\t{}\t{}\t{}", hex(s), gs.split(':').take(2).collect::<Vec<_>>().join(":"), if want.is_ok() { ws.clone() } else { "err".into() }));
    }
}

fn ref_pct_encode(data: &[u8]) -> String {
    let mut s = String::new();
    for b in data {
        if UNRESERVED.contains(b) {
            s.push(*b as char);
        } else {
            s.push('%');
            s.push(b"0123456789ABCDEF"[(b >> 4) as usize] as char);
            s.push(b"0123456789ABCDEF"[(b & 15) as usize] as char);
        }
    }
    s
}

fn ref_pct_decode(s: &[u8]) -> Option<Vec<u8>> {
    let mut out = Vec::new();
    let mut i = 0;
    while i < s.len() {
        if s[i] == b'%' {
            if i + 3 > s.len() {
                return None;
            }
            let h = |c: u8| (c as char).to_digit(16);
            let a = h(s[i + 1])?;
            let b = h(s[i + 2])?;
            out.push((a * 16 + b) as u8);
            i += 3;
        } else {
            out.push(s[i]);
            i += 1;
        }
    }
    Some(out)
}

fn check_pct_encode(r: &mut Report, data: &[u8], dump: Option<&mut Vec<String>>) {
    r.eval();
    r.count("percent_encode_cases", 1);
    r.nontrivial(fnv(data) ^ 0x9c7e);
    let want = ref_pct_encode(data);
    match catch_unwind(|| data.percent_encode()) {
        Ok(got) => {
            if got != want {
                viol(r, "C18/percent-encode:wrong", format!("percent-encoding of {} is {:?}, RFC 3986 gives {:?}", hex(data), got, want), "pcte", data, &got, &want);
            }
            match catch_unwind(|| got.percent_decode()) {
                Ok(Some(back)) if back == data => {}
                Ok(o) => viol(r, "C18/percent-decode:does-not-invert-encoder", format!("decode(encode({})) = {:?}", hex(data), o.map(|v| hex(&v))), "pcte", data, "roundtrip mismatch", &hex(data)),
                Err(e) => viol(r, "C18/percent-decode:panic", format!("decode(encode({})) panicked: {}", hex(data), panic_msg(&*e)), "pcte", data, "panic", &hex(data)),
            }
            if let Some(d) = dump {
                d.push(format!("pcte\t{}\t{}", hex(data), got));
            }
        }
        Err(e) => viol(r, "C18/percent-encode:panic", format!("percent-encoding of {} panicked: {}", hex(data), panic_msg(&*e)), "pcte", data, "panic", &want),
    }
}

fn check_pct_decode(r: &mut Report, s: &str, dump: Option<&mut Vec<String>>) {
    r.eval();
    r.count("percent_decode_cases", 1);
    r.nontrivial(fnv(s.as_bytes()) ^ 0x9c7d);
    let want = ref_pct_decode(s.as_bytes());
    let got = catch_unwind(|| s.percent_decode());
    let ws = want.as_ref().map(|v| format!("ok:{}", hex(v))).unwrap_or("err".into());
    match got {
        Err(e) => viol(r, "C18/percent-decode:panic", format!("percent-decoding {:?} panicked: {}", s, panic_msg(&*e)), "pctd", s.as_bytes(), "panic", &ws),
        Ok(g) => {
            let gs = g.as_ref().map(|v| format!("ok:{}", hex(v))).unwrap_or("err".into());
            match (&g, &want) {
                (Some(a), Some(b)) if a == b => {}
                (None, None) => {}
                (Some(_), None) => viol(r, "C18/percent-decode:accepts-malformed", format!("percent-decoding accepts malformed {:?} -> {}", s, gs), "pctd", s.as_bytes(), &gs, &ws),
                (None, Some(_)) => viol(r, "C18/percent-decode:rejects-valid", format!("percent-decoding rejects valid {:?}", s), "pctd", s.as_bytes(), &gs, &ws),
                _ => viol(r, "C18/percent-decode:wrong-value", format!("percent-decoding {:?} gives {} instead of {}", s, gs, ws), "pctd", s.as_bytes(), &gs, &ws),
            }
            if let Some(d) = dump {
                d.push(format!("pctd\t{}\t{}\t{}", hex(s.as_bytes()), gs, ws));
            }
        }
    }
}

fn check_date(r: &mut Report, ts: i64, dump: Option<&mut Vec<String>>) -> String {
    r.eval();
    r.count("date_cases", 1);
    r.nontrivial((ts as u64).wrapping_mul(0x9E3779B97F4A7C15) ^ 0xda7e);
    let want = format_imf_fixdate(ts);
    match catch_unwind(|| DateTime::from(ts).to_string()) {
        Ok(got) => {
            if got != want {
                viol(r, "C18/date:wrong", format!("timestamp {} formats as {:?}, expected {:?}", ts, got, want), "date", ts.to_string().as_bytes(), &got, &want);
            }
            if let Some(d) = dump {
                d.push(format!("date\t{}\t{}\t{}", ts, got, want));
            }
            got
        }
        Err(e) => {
            viol(r, "C18/date:panic", format!("formatting timestamp {} panicked: {}", ts, panic_msg(&*e)), "date", ts.to_string().as_bytes(), "panic", &want);
            want
        }
    }
}

fn all_strings_over(alpha: &[&str], maxlen: usize) -> Vec<String> {
    let mut out = vec![String::new()];
    let mut fr = vec![String::new()];
    for _ in 0..maxlen {
        let mut nf = Vec::new();
        for s in &fr {
            for a in alpha {
                nf.push(format!("{}{}", s, a));
            }
        }
        out.extend(nf.iter().cloned());
        fr = nf;
    }
    out
}

const LAST_DAY: i64 = 2_932_896; // 9999-12-31

pub fn main(args: &Args) {
    let out = args.get("out").expect("--out");
    if let Some(kind) = args.get("one") {
        let input = unhex(args.get("input-hex").unwrap()).unwrap();
        let mut r = Report::new();
        match kind {
            "sha1" => check_sha1(&mut r, &input, None),
            "b64e" => {
                check_b64_encode(&mut r, &input, None);
            }
            "b64d" => check_b64_decode(&mut r, &input, None),
            "pcte" => check_pct_encode(&mut r, &input, None),
            "pctd" => check_pct_decode(&mut r, std::str::from_utf8(&input).unwrap(), None),
            "date" => {
                check_date(&mut r, std::str::from_utf8(&input).unwrap().parse().unwrap(), None);
            }
            _ => panic!("unknown primitive"),
        }
        r.nontrivial(1);
        r.nontrivial(2);
        r.write(out, "replay of one recorded input", None, &[]);
        return;
    }
    let thorough = args.thorough();
    let seed = args.seed();
    let n = ncpu();
    let work = args.get("work").map(|s| s.to_string()).unwrap_or("/verif/.work".into());
    let results = par(n, move |shard, nsh| {
        let mut r = Report::new();
        let mut dump: Vec<String> = Vec::new();
        let mut rng = Rng::derive(seed, 1800 + shard as u64);
        let mine = |i: usize| i % nsh == shard;

        // ---- SHA-1: every length 0..=1100 with three contents, random up to 1 MiB
        for len in 0..=1100usize {
            if !mine(len) {
                continue;
            }
            let dmp = len % 7 == 0 || len < 130;
            check_sha1(&mut r, &vec![0u8; len], if dmp { Some(&mut dump) } else { None });
            check_sha1(&mut r, &vec![0xffu8; len], None);
            let rnd = rng.bytes(len);
            check_sha1(&mut r, &rnd, if dmp { Some(&mut dump) } else { None });
        }
        let nbig = if thorough { 24 } else { 3 };
        for k in 0..nbig {
            let len = if k == 0 { 1 << 20 } else { rng.urange(1101, 1 << 20) };
            let m = rng.bytes(len);
            check_sha1(&mut r, &m, None);
            // digest-of-digest line for CPython without dumping a megabyte: dump only moderately sized ones
            if len <= 8192 {
                check_sha1(&mut r, &m, Some(&mut dump));
            }
            r.max("sha1_max_len", len as u64);
        }
        for _ in 0..40 {
            let len = rng.urange(1101, 6000);
            let m = rng.bytes(len);
            check_sha1(&mut r, &m, Some(&mut dump));
        }

        // ---- Base64 encode: all 1-, 2-, 3-byte inputs; lengths 0..=64 random
        for a in 0..256usize {
            if !mine(a) {
                continue;
            }
            check_b64_encode(&mut r, &[a as u8], Some(&mut dump));
            for b in 0..256usize {
                let d2 = b % 16 == 3;
                check_b64_encode(&mut r, &[a as u8, b as u8], if d2 { Some(&mut dump) } else { None });
            }
        }
        // all 2^24 three-byte groups, with per-block digests of the SUT's output for the CPython cross-check
        for a in 0..256usize {
            if !mine(a) {
                continue;
            }
            let mut cat = Vec::with_capacity(65536 * 4);
            for b in 0..256usize {
                for c in 0..256usize {
                    let g = [a as u8, b as u8, c as u8];
                    let dmp = (b * 256 + c) % 4099 == 17;
                    let e = check_b64_encode(&mut r, &g, if dmp { Some(&mut dump) } else { None });
                    cat.extend_from_slice(e.as_bytes());
                }
            }
            if thorough {
                dump.push(format!("blk_b64e3\t{}\t{}", a, hex(&wsref::sha1(&cat))));
            }
        }
        r.count("b64_three_byte_groups", 0);
        for len in 0..=64usize {
            for _ in 0..(if thorough { 200 } else { 20 }) {
                let d = rng.bytes(len);
                check_b64_encode(&mut r, &d, if len % 5 == 0 { Some(&mut dump) } else { None });
            }
        }

        // ---- Base64 decode: every 4-symbol group over alphabet + '='
        for a in 0..65usize {
            if !mine(a) {
                continue;
            }
            for b in 0..65usize {
                for c in 0..65usize {
                    for d in 0..65usize {
                        let g = [B64[a], B64[b], B64[c], B64[d]];
                        let dmp = (b * 4225 + c * 65 + d) % 2503 == 11;
                        check_b64_decode(&mut r, &g, if dmp { Some(&mut dump) } else { None });
                    }
                }
            }
        }
        // malformed / multi-group strings: bad lengths, interior padding, foreign symbols
        let nmal = if thorough { 400_000 } else { 40_000 };
        for k in 0..nmal / nsh {
            let len = rng.urange(0, 14);
            let mut s: Vec<u8> = (0..len).map(|_| B64[rng.usize(64)]).collect();
            match rng.below(6) {
                0 if len > 0 => {
                    let i = rng.usize(len);
                    s[i] = b'=';
                }
                1 if len > 0 => {
                    let i = rng.usize(len);
                    s[i] = *rng.pick(&[b'-', b'_', b' ', b'\n', b'.', b'*', b'~', 0u8, 0x7f]);
                }
                2 if len > 1 => {
                    s[len - 1] = b'=';
                    if rng.chance(1, 2) {
                        s[len - 2] = b'=';
                    }
                }
                3 => {
                    let bl = rng.urange(0, 9);
                    let e = wsref::b64(&rng.bytes(bl));
                    s = e.into_bytes();
                    if rng.chance(1, 2) && !s.is_empty() {
                        s.pop();
                    }
                }
                _ => {}
            }
            check_b64_decode(&mut r, &s, if k % 16 == 0 { Some(&mut dump) } else { None });
        }

        // ---- percent-encoding: every byte and byte pair; decode of all strings <= 4 over the alphabet
        for a in 0..256usize {
            if !mine(a) {
                continue;
            }
            check_pct_encode(&mut r, &[a as u8], Some(&mut dump));
            for b in 0..256usize {
                check_pct_encode(&mut r, &[a as u8, b as u8], if b % 32 == 5 { Some(&mut dump) } else { None });
            }
        }
        let alpha = ["%", "0", "9", "a", "F", "g", "+", " ", "é"];
        let strs = all_strings_over(&alpha, if thorough { 5 } else { 4 });
        for (i, s) in strs.iter().enumerate() {
            if !mine(i) {
                continue;
            }
            check_pct_decode(&mut r, s, if i % 3 == 0 { Some(&mut dump) } else { None });
        }
        if shard == 0 {
            r.count("percent_decode_enumerated_strings", strs.len() as u64);
        }
        for _ in 0..(if thorough { 200_000 } else { 20_000 }) / nsh {
            // longer mixed strings, including '%' near the end and upper/lower hex
            let len = rng.urange(0, 24);
            let mut s = String::new();
            for _ in 0..len {
                match rng.below(5) {
                    0 => s.push('%'),
                    1 => s.push(*rng.pick(&['0', '7', 'a', 'f', 'A', 'F', 'g', 'G', '+', '-'])),
                    2 => s.push_str(&format!("%{:02x}", rng.below(256))),
                    3 => s.push_str(&format!("%{:02X}", rng.below(256))),
                    _ => s.push(*rng.pick(&['x', '/', '.', ' ', 'é', '~'])),
                }
            }
            check_pct_decode(&mut r, &s, None);
        }

        // ---- dates: every day 1970-01-01 .. 9999-12-31 at 00:00:00 and 23:59:59
        let blk = 20_000i64;
        let nblk = (LAST_DAY + blk) / blk;
        for bi in 0..nblk {
            if !mine(bi as usize) {
                continue;
            }
            for sod in [0i64, 86399] {
                let mut cat: Vec<u8> = Vec::new();
                let lo = bi * blk;
                let hi = ((bi + 1) * blk).min(LAST_DAY + 1);
                for day in lo..hi {
                    let ts = day * 86400 + sod;
                    let dmp = day % 1009 == 3;
                    let s = check_date(&mut r, ts, if dmp { Some(&mut dump) } else { None });
                    cat.extend_from_slice(s.as_bytes());
                    cat.push(b'\n');
                }
                if thorough {
                    dump.push(format!("blk_date\t{}\t{}\t{}\t{}", lo, hi, sod, hex(&wsref::sha1(&cat))));
                }
            }
        }
        // every second of selected days (leap day, century non-leap, 400-year leap, year ends, 2038, last day)
        let days: [i64; 8] = [0, 11016 /*2000-02-29*/, 47540 /*2100-02-28*/, 47541, 157_000, 24855 /*2038-01-19*/, 19_782 /*2024-02-29*/, LAST_DAY];
        for (i, d) in days.iter().enumerate() {
            if !mine(i) {
                continue;
            }
            for s in 0..86400 {
                check_date(&mut r, d * 86400 + s, if s % 9973 == 0 { Some(&mut dump) } else { None });
            }
            r.count("date_full_days", 1);
        }
        for k in 0..(if thorough { 4_000_000 } else { 200_000 }) / nsh {
            let ts = rng.range(0, 253_402_300_799) as i64;
            check_date(&mut r, ts, if k % 64 == 0 { Some(&mut dump) } else { None });
        }
        (r, dump)
    });
    let mut total = Report::new();
    std::fs::create_dir_all(format!("{}/xcheck", work)).ok();
    let mut f = std::io::BufWriter::new(std::fs::File::create(format!("{}/xcheck/C18.tsv", work)).unwrap());
    for (r, dump) in results {
        total.merge(r);
        for l in dump {
            writeln!(f, "{}", l).unwrap();
        }
    }
    total.sample(J::obj(vec![("primitive", J::s("base64 decode")), ("input", J::s("+A==")), ("reference", J::s(hex(&wsref::b64_decode("+A==").unwrap())))]));
    total.sample(J::obj(vec![("primitive", J::s("date")), ("input", J::Int(951_782_400)), ("reference", J::s(format_imf_fixdate(951_782_400)))]));
    total.sample(J::obj(vec![("primitive", J::s("percent decode")), ("input", J::s("%+f")), ("reference", J::s("reject"))]));
    total.sample(J::obj(vec![("primitive", J::s("sha1")), ("input", J::s("55 zero bytes (padding boundary)")), ("reference", J::s(hex(&wsref::sha1(&[0u8; 55]))))]));
    let rule = "SHA-1: every length 0..1100 x {zeros, 0xff, random} + random lengths to 1 MiB; Base64 encode: all 1-, 2- and 2^24 3-byte inputs, random lengths 0..64, each also decoded back; Base64 decode: all 65^4 four-symbol groups over alphabet+'=' and random malformed strings; percent: every byte and byte pair encoded and decoded back, every string up to length 4 (5 in thorough) over {%,0,9,a,F,g,+,SP,é} decoded, random longer strings; dates: every day 1970-01-01..9999-12-31 at 00:00:00 and 23:59:59, every second of 8 boundary days, random timestamps. distinct = distinct (primitive,input); trivial = empty input / SHA-1 messages of a single block";
    total.write(out, rule, Some(true), &[
        "references: streaming SHA-1, bit-accumulator Base64, strict RFC 4648 section 3 decoder (non-canonical trailing bits: accept or reject both allowed, RFC 4648 3.5), RFC 3986 percent codec, Hinnant civil-from-days; all cross-validated against CPython hashlib/base64/urllib.parse/datetime each run",
        "exhaustive refers to the enumerated finite spaces (byte pairs, 3-byte groups, 4-symbol groups, short percent strings, all days); SHA-1 long messages and random strings are samples",
    ]);
}

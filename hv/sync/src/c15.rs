//! C15: config files load into exactly what they describe, or are rejected with a line.
//! Monitor: the `Config` produced by `parse_conf` + `Config::from_tree` is compared field by field with
//! the model the file was rendered from (under random layout, key order and include splitting); every
//! single-fault mutant must be rejected, syntax faults naming the file and line the generator knows.

use humphrey_server::config::tree::parse_conf;
use humphrey_server::config::{BlacklistMode, Config, LoadBalancerMode, RouteType};
use humphrey_server::server::logger::LogLevel;
use hvcommon::args::Args;
use hvcommon::json::J;
use hvcommon::report::Report;
use hvcommon::rng::Rng;
use hvcommon::util::{fnv, ncpu, panic_msg, par};
use std::panic::{catch_unwind, AssertUnwindSafe};

#[derive(Clone, Debug, PartialEq)]
enum RKind {
    File(String),
    Directory(String),
    Proxy(Vec<String>, Option<&'static str>),
    Redirect(String),
    WsOnly,
}

#[derive(Clone, Debug)]
struct RouteM {
    patterns: Vec<String>,
    kind: RKind,
    websocket: Option<String>,
}

#[derive(Clone, Debug, Default)]
struct Model {
    address: Option<String>,
    port: Option<u16>,
    threads: Option<usize>,
    timeout: Option<u64>,
    websocket: Option<String>,
    blacklist_file: Option<Vec<String>>,
    blacklist_mode: Option<&'static str>,
    log_level: Option<&'static str>,
    log_console: Option<bool>,
    log_file: Option<String>,
    cache_size: Option<(u64, &'static str)>,
    cache_time: Option<usize>,
    hosts: Vec<(String, Vec<RouteM>)>,
    routes: Vec<RouteM>,
}

fn gen_route(rng: &mut Rng) -> RouteM {
    let np = if rng.chance(1, 4) { rng.urange(2, 3) } else { 1 };
    let patterns = (0..np)
        .map(|_| match rng.below(6) {
            0 => "/*".to_string(),
            1 => "/".to_string(),
            2 => format!("/{}/*", rng.pick(&["static", "api", "img", "a-b", "x_y"])),
            3 => format!("/{}", rng.pick(&["index.html", "favicon.ico", "robots.txt"])),
            4 => format!("/*.{}", rng.pick(&["php", "html"])),
            _ => format!("/{}*{}", rng.pick(&["p", "q/r"]), rng.pick(&["", ".js", "/end"])),
        })
        .collect();
    let kind = match rng.below(9) {
        // an empty or blank quoted string is a value like any other (it is present, so not "missing")
        0 | 1 if rng.chance(1, 8) => RKind::File(rng.pick(&["", " ", "  "]).to_string()),
        2 | 3 if rng.chance(1, 8) => RKind::Directory(rng.pick(&["", " "]).to_string()),
        6 | 7 if rng.chance(1, 8) => RKind::Redirect(rng.pick(&["", " "]).to_string()),
        0 | 1 => RKind::File(format!("/srv/{}.html", rng.pick(&["index", "about", "a b"]))),
        2 | 3 => RKind::Directory(format!("/var/www/{}", rng.pick(&["site", "static", "with space", ""]))),
        4 | 5 => {
            let n = rng.urange(1, 4);
            let t: Vec<String> = (0..n).map(|i| format!("127.0.0.1:{}", 8000 + i * 10 + rng.usize(10))).collect();
            RKind::Proxy(t, *rng.pick(&[None, Some("round-robin"), Some("random")]))
        }
        6 | 7 => RKind::Redirect(format!("https://example.com/{}", rng.pick(&["", "new", "a?b=c"]))),
        _ => RKind::WsOnly,
    };
    let websocket = if kind == RKind::WsOnly || rng.chance(1, 6) { Some(format!("localhost:{}", 9000 + rng.usize(100))) } else { None };
    RouteM { patterns, kind, websocket }
}

fn gen_model(rng: &mut Rng) -> Model {
    let mut m = Model::default();
    if rng.chance(2, 3) {
        m.address = Some(rng.pick(&["0.0.0.0", "127.0.0.1", "::1", "192.168.1.10"]).to_string());
    }
    if rng.chance(2, 3) {
        m.port = Some(*rng.pick(&[80u16, 8080, 443, 1, 65535, 8000]));
    }
    if rng.chance(1, 2) {
        m.threads = Some(*rng.pick(&[1usize, 2, 8, 32, 256]));
    }
    if rng.chance(1, 2) {
        m.timeout = Some(*rng.pick(&[0u64, 1, 5, 3600]));
    }
    if rng.chance(1, 4) {
        m.websocket = Some("localhost:1234".into());
    }
    if rng.chance(1, 3) {
        let n = rng.urange(0, 4);
        m.blacklist_file = Some((0..n).map(|i| if i % 3 == 2 { format!("2001:db8::{:x}", rng.below(9999)) } else { format!("10.{}.{}.{}", rng.below(256), rng.below(256), rng.below(256)) }).collect());
    }
    if rng.chance(1, 2) {
        m.blacklist_mode = Some(*rng.pick(&["block", "forbidden"]));
    }
    if rng.chance(1, 2) {
        m.log_level = Some(*rng.pick(&["error", "warn", "info", "debug", "INFO", "Debug"]));
    }
    if rng.chance(1, 2) {
        m.log_console = Some(rng.chance(1, 2));
    }
    if rng.chance(1, 4) {
        m.log_file = Some("humphrey-hv.log".into());
    }
    if rng.chance(1, 2) {
        m.cache_size = Some((*rng.pick(&[0u64, 1, 128, 1023, 4096]), *rng.pick(&["", "K", "M", "G", "k", "m", "g"])));
    }
    if rng.chance(1, 2) {
        m.cache_time = Some(*rng.pick(&[0usize, 1, 60, 86400]));
    }
    for h in 0..rng.urange(0, 4) {
        let name = match rng.below(4) {
            0 => format!("host{}.example.com", h),
            1 => "*.example.com".to_string(),
            2 => "localhost".to_string(),
            _ => format!("*.{}.*", rng.pick(&["a", "b"])),
        };
        let routes = (0..rng.urange(0, 8)).map(|_| gen_route(rng)).collect();
        m.hosts.push((name, routes));
    }
    m.routes = (0..rng.urange(0, 8)).map(|_| gen_route(rng)).collect();
    m
}

/// A rendered item: the lines of one key or one block, and whether it may be moved relative to others.
#[derive(Clone)]
struct Item {
    lines: Vec<String>,
    /// routes and hosts must keep their relative order; plain keys and setting sections are free
    ordered: bool,
}

fn q(s: &str) -> String {
    format!("\"{}\"", s)
}

fn render_route(r: &RouteM, rng: &mut Rng) -> Vec<String> {
    let sep = if rng.chance(1, 2) { ", " } else { "," };
    let mut l = vec![format!("route {} {{", r.patterns.join(sep))];
    let mut keys: Vec<String> = Vec::new();
    match &r.kind {
        RKind::File(p) => keys.push(format!("file {}", q(p))),
        RKind::Directory(p) => keys.push(format!("directory {}", q(p))),
        RKind::Proxy(t, mode) => {
            keys.push(format!("proxy {}", q(&t.join(","))));
            if let Some(m) = mode {
                keys.push(format!("load_balancer_mode {}", q(m)));
            }
        }
        RKind::Redirect(t) => keys.push(format!("redirect {}", q(t))),
        RKind::WsOnly => {}
    }
    if let Some(w) = &r.websocket {
        keys.push(format!("websocket {}", q(w)));
    }
    rng.shuffle(&mut keys);
    l.extend(keys);
    l.push("}".into());
    l
}

fn kv(k: &str, v: String, rng: &mut Rng) -> String {
    format!("{}{}{}", k, " ".repeat(rng.urange(1, 6)), v)
}

fn items_of(m: &Model, rng: &mut Rng, listfile: &str) -> Vec<Item> {
    let mut free: Vec<Item> = Vec::new();
    let one = |s: String| Item { lines: vec![s], ordered: false };
    if let Some(a) = &m.address {
        free.push(one(kv("address", q(a), rng)));
    }
    if let Some(p) = m.port {
        free.push(one(kv("port", if rng.chance(1, 6) { q(&p.to_string()) } else { p.to_string() }, rng)));
    }
    if let Some(t) = m.threads {
        free.push(one(kv("threads", t.to_string(), rng)));
    }
    if let Some(t) = m.timeout {
        free.push(one(kv("timeout", t.to_string(), rng)));
    }
    if let Some(w) = &m.websocket {
        free.push(one(kv("websocket", q(w), rng)));
    }
    if m.blacklist_file.is_some() || m.blacklist_mode.is_some() {
        let mut l = vec!["blacklist {".to_string()];
        let mut ks = Vec::new();
        if m.blacklist_file.is_some() {
            ks.push(kv("file", q(listfile), rng));
        }
        if let Some(md) = m.blacklist_mode {
            ks.push(kv("mode", q(md), rng));
        }
        rng.shuffle(&mut ks);
        l.extend(ks);
        l.push("}".into());
        free.push(Item { lines: l, ordered: false });
    }
    if m.log_level.is_some() || m.log_console.is_some() || m.log_file.is_some() {
        let mut l = vec!["log {".to_string()];
        let mut ks = Vec::new();
        if let Some(v) = m.log_level {
            ks.push(kv("level", q(v), rng));
        }
        if let Some(v) = m.log_console {
            ks.push(kv("console", v.to_string(), rng));
        }
        if let Some(v) = &m.log_file {
            ks.push(kv("file", q(v), rng));
        }
        rng.shuffle(&mut ks);
        l.extend(ks);
        l.push("}".into());
        free.push(Item { lines: l, ordered: false });
    }
    if m.cache_size.is_some() || m.cache_time.is_some() {
        let mut l = vec!["cache {".to_string()];
        let mut ks = Vec::new();
        if let Some((n, u)) = m.cache_size {
            ks.push(kv("size", format!("{}{}", n, u), rng));
        }
        if let Some(t) = m.cache_time {
            ks.push(kv("time", t.to_string(), rng));
        }
        rng.shuffle(&mut ks);
        l.extend(ks);
        l.push("}".into());
        free.push(Item { lines: l, ordered: false });
    }
    let mut ordered: Vec<Item> = Vec::new();
    // hosts and default routes keep their own relative order but may interleave with each other
    let mut hosts: Vec<Item> = m
        .hosts
        .iter()
        .map(|(name, routes)| {
            let mut l = vec![format!("host {} {{", if name.contains(' ') || rng.chance(1, 2) { q(name) } else { name.clone() })];
            for r in routes {
                l.extend(render_route(r, rng));
            }
            l.push("}".into());
            Item { lines: l, ordered: true }
        })
        .collect();
    let mut routes: Vec<Item> = m.routes.iter().map(|r| Item { lines: render_route(r, rng), ordered: true }).collect();
    hosts.reverse();
    routes.reverse();
    while !hosts.is_empty() || !routes.is_empty() {
        if !hosts.is_empty() && (routes.is_empty() || rng.chance(1, 2)) {
            ordered.push(hosts.pop().unwrap());
        } else {
            ordered.push(routes.pop().unwrap());
        }
    }
    // merge: free items at random positions between the ordered ones
    rng.shuffle(&mut free);
    let mut out = ordered;
    for f in free {
        let at = rng.urange(0, out.len());
        out.insert(at, f);
    }
    out
}

struct Rendered {
    /// (path, text); the first is the root file
    files: Vec<(String, String)>,
}

fn decorate(lines: &[String], rng: &mut Rng, base_indent: usize) -> Vec<String> {
    let mut out = Vec::new();
    let mut depth = base_indent;
    let unit = *rng.pick(&["    ", "  ", "\t", ""]);
    for l in lines {
        if rng.chance(1, 8) {
            out.push(String::new());
        }
        if rng.chance(1, 10) {
            out.push(format!("{}# comment {} {{ }} \"x\"", unit.repeat(depth), rng.below(100)));
        }
        if l == "}" {
            depth = depth.saturating_sub(1);
        }
        let mut s = format!("{}{}", unit.repeat(depth), l);
        if rng.chance(1, 8) {
            s.push_str(&format!("{}# trailing comment", " ".repeat(rng.urange(1, 3))));
        } else if rng.chance(1, 8) {
            s.push_str(&" ".repeat(rng.urange(1, 3)));
        }
        if l.ends_with('{') {
            depth += 1;
        }
        out.push(s);
    }
    out
}

fn render(m: &Model, rng: &mut Rng, dir: &str, split: bool) -> Rendered {
    let listfile = format!("{}/blacklist.txt", dir);
    if let Some(ips) = &m.blacklist_file {
        std::fs::write(&listfile, ips.join("\n")).unwrap();
    }
    let items = items_of(m, rng, &listfile);
    let mut files: Vec<(String, String)> = Vec::new();
    let mut root_lines: Vec<String> = Vec::new();
    if rng.chance(1, 2) {
        root_lines.push("# generated by hv c15".into());
        root_lines.push(String::new());
    }
    root_lines.push("server {".into());
    let mut inc_no = 0;
    let mut i = 0;
    while i < items.len() {
        if split && rng.chance(1, 3) {
            // move a run of 1..3 items to an included file (nested include one time in three)
            let n = rng.urange(1, 3.min(items.len() - i));
            inc_no += 1;
            let path = format!("{}/inc{}.conf", dir, inc_no);
            let mut lines: Vec<String> = Vec::new();
            let run = &items[i..i + n];
            if n >= 2 && rng.chance(1, 3) {
                inc_no += 1;
                let path2 = format!("{}/inc{}.conf", dir, inc_no);
                files.push((path2.clone(), decorate(&run[1..].iter().flat_map(|it| it.lines.clone()).collect::<Vec<_>>(), rng, 0).join("\n")));
                lines.extend(run[0].lines.clone());
                lines.push(format!("include {}", q(&path2)));
            } else {
                for it in run {
                    lines.extend(it.lines.clone());
                }
            }
            let mut body = decorate(&lines, rng, 0).join("\n");
            if rng.chance(1, 10) {
                // a long included file: its directives come after 70..300 KiB of comments and blank lines
                let pad: String = (0..rng.urange(1800, 7500)).map(|k| if k % 9 == 0 { "\n".to_string() } else { format!("# padding line {:>6} of a long included file\n", k) }).collect();
                body = format!("{}{}", pad, body);
            }
            files.push((path.clone(), body));
            root_lines.push(format!("include {}", q(&path)));
            i += n;
        } else {
            root_lines.extend(items[i].lines.clone());
            i += 1;
        }
    }
    root_lines.push("}".into());
    let text = decorate(&root_lines, rng, 0).join(if rng.chance(1, 6) { "\r\n" } else { "\n" });
    files.insert(0, (format!("{}/root.conf", dir), if rng.chance(1, 2) { format!("{}\n", text) } else { text }));
    let _ = items.iter().filter(|i| i.ordered).count();
    Rendered { files }
}

fn load(root_text: &str, root_name: &str) -> std::thread::Result<Result<Config, String>> {
    catch_unwind(AssertUnwindSafe(|| match parse_conf(root_text, root_name) {
        Ok(tree) => Config::from_tree(tree).map_err(|e| format!("validation: {}", e)),
        Err(e) => Err(format!("syntax: {}", e)),
    }))
}

fn expected_routes(rs: &[RouteM]) -> Vec<(RouteType, String, Option<String>, Option<(Vec<String>, LoadBalancerMode)>, Option<String>)> {
    let mut out = Vec::new();
    for r in rs {
        for p in &r.patterns {
            let (t, path, lb) = match &r.kind {
                RKind::File(f) => (RouteType::File, Some(f.clone()), None),
                RKind::Directory(d) => (RouteType::Directory, Some(d.clone()), None),
                RKind::Proxy(t, m) => (RouteType::Proxy, None, Some((t.clone(), if *m == Some("random") { LoadBalancerMode::Random } else { LoadBalancerMode::RoundRobin }))),
                RKind::Redirect(t) => (RouteType::Redirect, Some(t.clone()), None),
                RKind::WsOnly => (RouteType::ExclusiveWebSocket, None, None),
            };
            out.push((t, p.clone(), path, lb, r.websocket.clone()));
        }
    }
    out
}

fn compare(m: &Model, c: &Config) -> Vec<String> {
    let mut bad = Vec::new();
    macro_rules! chk {
        ($name:expr, $got:expr, $want:expr) => {
            if $got != $want {
                bad.push(format!("{}: loaded {:?}, file says {:?}", $name, $got, $want));
            }
        };
    }
    chk!("address", c.address, m.address.clone().unwrap_or("0.0.0.0".into()));
    chk!("port", c.port, m.port.unwrap_or(80));
    chk!("threads", c.threads, m.threads.unwrap_or(32));
    chk!("websocket", c.default_websocket_proxy, m.websocket.clone());
    chk!("timeout", c.connection_timeout, m.timeout.filter(|t| *t > 0).map(std::time::Duration::from_secs));
    let want_level = match m.log_level.map(|s| s.to_ascii_lowercase()).as_deref() {
        Some("error") => LogLevel::Error,
        Some("info") => LogLevel::Info,
        Some("debug") => LogLevel::Debug,
        _ => LogLevel::Warn,
    };
    chk!("log.level", c.logging.level, want_level);
    chk!("log.console", c.logging.console, m.log_console.unwrap_or(true));
    chk!("log.file", c.logging.file, m.log_file.clone());
    let mult = |u: &str| match u.to_ascii_uppercase().as_str() {
        "K" => 1024u64,
        "M" => 1024 * 1024,
        "G" => 1024 * 1024 * 1024,
        _ => 1,
    };
    chk!("cache.size", c.cache.size_limit as u64, m.cache_size.map(|(n, u)| n * mult(u)).unwrap_or(0));
    chk!("cache.time", c.cache.time_limit, m.cache_time.unwrap_or(0));
    chk!("blacklist.mode", c.blacklist.mode, if m.blacklist_mode == Some("forbidden") { BlacklistMode::Forbidden } else { BlacklistMode::Block });
    let want_list: Vec<std::net::IpAddr> = m.blacklist_file.clone().unwrap_or_default().iter().map(|s| s.parse().unwrap()).collect();
    chk!("blacklist.list", c.blacklist.list, want_list);
    let cmp_routes = |name: &str, got: &[humphrey_server::config::RouteConfig], want: &[RouteM], bad: &mut Vec<String>| {
        let w = expected_routes(want);
        if got.len() != w.len() {
            bad.push(format!("{}: {} routes loaded, file describes {}", name, got.len(), w.len()));
            return;
        }
        for (i, (g, w)) in got.iter().zip(w.iter()).enumerate() {
            let lb = g.load_balancer.as_ref().map(|l| {
                let l = l.lock().unwrap();
                (l.targets.clone(), l.mode, l.index)
            });
            let wlb = w.3.clone().map(|(t, m)| (t, m, 0usize));
            if g.route_type != w.0 || g.matches != w.1 || g.path != w.2 || lb != wlb || g.websocket_proxy != w.4 {
                bad.push(format!("{} route #{}: loaded ({:?}, {:?}, {:?}, {:?}, {:?}), file says ({:?}, {:?}, {:?}, {:?}, {:?})", name, i, g.route_type, g.matches, g.path, lb, g.websocket_proxy, w.0, w.1, w.2, wlb, w.4));
            }
        }
    };
    if c.default_host.matches != "*" {
        bad.push(format!("default host matches {:?}", c.default_host.matches));
    }
    cmp_routes("default host", &c.default_host.routes, &m.routes, &mut bad);
    if c.hosts.len() != m.hosts.len() {
        bad.push(format!("{} hosts loaded, file describes {}", c.hosts.len(), m.hosts.len()));
    } else {
        for (g, (name, routes)) in c.hosts.iter().zip(m.hosts.iter()) {
            if &g.matches != name {
                bad.push(format!("host order/name: loaded {:?}, file says {:?}", g.matches, name));
            }
            cmp_routes(&format!("host {}", name), &g.routes, routes, &mut bad);
        }
    }
    bad
}

struct Mutant {
    kind: &'static str,
    /// index into files, new text, 1-based fault line in that file, is it a syntax fault (line expected)?
    file: usize,
    text: String,
    line: usize,
    syntax: bool,
    at_or_after: bool,
}

fn mutants(r: &Rendered, rng: &mut Rng) -> Vec<Mutant> {
    let mut out = Vec::new();
    for (fi, (_, text)) in r.files.iter().enumerate() {
        let nl = if text.contains("\r\n") { "\r\n" } else { "\n" };
        let lines: Vec<&str> = text.split(nl).collect();
        let rebuild = |ls: &[String]| ls.join(nl);
        for (li, l) in lines.iter().enumerate() {
            let body = l.split('#').next().unwrap().trim();
            if body.is_empty() {
                continue;
            }
            let owned: Vec<String> = lines.iter().map(|s| s.to_string()).collect();
            let mut with = |kind: &'static str, new_line: Option<String>, syntax: bool, at_or_after: bool, out: &mut Vec<Mutant>| {
                let mut v = owned.clone();
                match new_line {
                    Some(n) => v[li] = n,
                    None => {
                        v.remove(li);
                    }
                }
                out.push(Mutant { kind, file: fi, text: rebuild(&v), line: li + 1, syntax, at_or_after });
            };
            if body == "}" {
                if rng.chance(1, 2) {
                    with("missing-brace", None, true, true, &mut out);
                }
                continue;
            }
            if body.ends_with('{') {
                continue;
            }
            let indent: String = l.chars().take_while(|c| c.is_whitespace()).collect();
            let (k, v) = match body.split_once(' ') {
                Some((k, v)) => (k, v.trim()),
                None => continue,
            };
            if k == "include" {
                continue;
            }
            if rng.chance(1, 3) {
                with("missing-value", Some(format!("{}{}", indent, k)), true, false, &mut out);
            }
            if v.starts_with('"') {
                if rng.chance(1, 3) {
                    with("unterminated-quote", Some(format!("{}{} {}", indent, k, &v[..v.len() - 1])), true, false, &mut out);
                }
                let inner = v.trim_matches('"');
                let still_valid = inner.parse::<i64>().is_ok() || inner.parse::<bool>().is_ok() || (inner.len() > 1 && inner[..inner.len() - 1].parse::<i64>().is_ok() && matches!(inner.chars().last().unwrap().to_ascii_uppercase(), 'K' | 'M' | 'G'));
                if !still_valid && rng.chance(1, 4) {
                    with("unquoted-string", Some(format!("{}{} {}", indent, k, v.trim_matches('"').replace(' ', "_").replace("true", "t"))), true, false, &mut out);
                }
                if k == "file" && inner.ends_with("blacklist.txt") {
                    // a list file that does not exist / cannot be opened is a validation fault, not an empty list
                    with("missing-list-file", Some(format!("{}{} \"{}.does-not-exist\"", indent, k, inner)), false, false, &mut out);
                    with("missing-list-file", Some(format!("{}{} \"{}/\"", indent, k, inner)), false, false, &mut out);
                }
                match k {
                    "mode" => with("bad-enum", Some(format!("{}{} \"blok\"", indent, k)), false, false, &mut out),
                    "load_balancer_mode" => with("bad-enum", Some(format!("{}{} \"fastest\"", indent, k)), false, false, &mut out),
                    "level" => with("bad-enum", Some(format!("{}{} \"loud\"", indent, k)), false, false, &mut out),
                    _ => {}
                }
            } else if v.chars().next().map(|c| c.is_ascii_digit()).unwrap_or(false) {
                let digits: String = v.chars().take_while(|c| c.is_ascii_digit()).collect();
                let unit = &v[digits.len()..];
                with("bad-number", Some(format!("{}{} {}x{}", indent, k, digits, unit)), true, false, &mut out);
                // unit-less faults that are not numbers, booleans or sizes
                with("unknown-unit", Some(format!("{}{} {}T", indent, k, digits)), true, false, &mut out);
                with("non-ascii-in-number", Some(format!("{}{} {}\u{e9}{}", indent, k, &digits[..digits.len() / 2], &v[digits.len() / 2..])), true, false, &mut out);
                with("non-ascii-unit", Some(format!("{}{} {}\u{e9}", indent, k, digits)), true, false, &mut out);
                match k {
                    "port" => with("out-of-range", Some(format!("{}{} 65536", indent, k)), false, false, &mut out),
                    "threads" => with("out-of-range", Some(format!("{}{} 0", indent, k)), false, false, &mut out),
                    // sizes whose byte count does not fit: just past i64, and far enough past u64 to wrap onto a plausible value (seeded C15-M)
                    "size" => {
                        for big in ["8589934592G", "17179869184G", "17179869185G", "34359738369G", "17592186044417M", "18014398509481985K", "9223372036854775807K", "9223372036854775808", "18446744073709551617", "99999999999999999999G"] {
                            with("size-overflow", Some(format!("{}{} {}", indent, k, big)), true, false, &mut out);
                        }
                    }
                    "threads2" => {}
                    _ => {}
                }
                if k == "port" || k == "threads" || k == "time" || k == "timeout" {
                    with("negative", Some(format!("{}{} -1", indent, k)), false, false, &mut out);
                }
            } else if v == "true" || v == "false" {
                with("bad-boolean", Some(format!("{}{} tru\u{e9}", indent, k)), true, false, &mut out);
                with("bad-boolean", Some(format!("{}{} yes", indent, k)), true, false, &mut out);
            }
        }
    }
    out
}

fn run_case(r: &mut Report, seed: u64, case: u64, work: &str) {
    let mut rng = Rng::derive(seed, 0x1500_0000 + case);
    let m = gen_model(&mut rng);
    let dir = format!("{}/c15/{}-{}-{}", work, std::process::id(), seed, case);
    let _ = std::fs::remove_dir_all(&dir);
    std::fs::create_dir_all(&dir).unwrap();
    let replay = vec!["c15".to_string(), "--seed".into(), seed.to_string(), "--case".into(), case.to_string()];
    let nlayouts = 3;
    let mut first: Option<Rendered> = None;
    for layout in 0..nlayouts {
        let rd = render(&m, &mut rng, &dir, layout > 0);
        for (p, t) in &rd.files {
            std::fs::write(p, t).unwrap();
        }
        r.eval();
        r.count("configs_loaded", 1);
        if rd.files.len() > 1 {
            r.count("configs_with_includes", 1);
            r.max("max_included_files", rd.files.len() as u64 - 1);
            r.max("max_included_file_bytes", rd.files[1..].iter().map(|f| f.1.len() as u64).max().unwrap_or(0));
            if rd.files[1..].iter().any(|f| f.1.len() > 65536) {
                r.count("configs_with_an_included_file_over_64KiB", 1);
            }
        }
        let ex = |why: &str| J::obj(vec![("root_file", J::s(&rd.files[0].1)), ("included_files", J::u(rd.files.len() as u64 - 1)), ("model", J::s(format!("{:?}", m).chars().take(600).collect::<String>())), ("why", J::s(why))]);
        match load(&rd.files[0].1, &rd.files[0].0) {
            Err(p) => r.violation("C15/panic", format!("loading a valid configuration panicked: {}", panic_msg(&*p)), ex("panic"), replay.clone()),
            Ok(Err(e)) => r.violation("C15/rejects-valid", format!("a configuration following the documented syntax was rejected: {}", e), ex(&e), replay.clone()),
            Ok(Ok(c)) => {
                let bad = compare(&m, &c);
                if !bad.is_empty() {
                    let sig = format!("C15/wrong-config:{}", bad[0].split(':').next().unwrap_or("?").split(' ').next().unwrap_or("?"));
                    r.violation(&sig, format!("loaded configuration differs from the file ({} differences): {}", bad.len(), bad[0]), ex(&bad.join(" | ")), replay.clone());
                }
            }
        }
        if layout == 1 || (layout == 0 && first.is_none()) {
            first = Some(rd);
        }
    }
    r.nontrivial(fnv(format!("{:?}", m).as_bytes()));
    if case < 2 {
        r.sample(J::obj(vec![("root_file", J::s(&first.as_ref().unwrap().files[0].1)), ("included_files", J::u(first.as_ref().unwrap().files.len() as u64 - 1))]));
    }
    // single-fault mutants of one rendering (with includes when there are any)
    let rd = first.unwrap();
    for (p, t) in &rd.files {
        std::fs::write(p, t).unwrap();
    }
    for mu in mutants(&rd, &mut rng) {
        r.eval();
        r.count("mutants", 1);
        r.count(&format!("mutants_{}", mu.kind), 1);
        let (path, orig) = &rd.files[mu.file];
        std::fs::write(path, &mu.text).unwrap();
        let root_text = if mu.file == 0 { mu.text.clone() } else { rd.files[0].1.clone() };
        let res = load(&root_text, &rd.files[0].0);
        std::fs::write(path, orig).unwrap();
        let ex = |why: &str| J::obj(vec![("fault", J::s(mu.kind)), ("mutated_text", J::s(&mu.text)), ("file", J::s(path)), ("fault_line", J::u(mu.line as u64)), ("mutated_line", J::s(mu.text.lines().nth(mu.line - 1).unwrap_or("<removed>"))), ("in_included_file", J::Bool(mu.file > 0)), ("why", J::s(why))]);
        let mrep = {
            let mut v = replay.clone();
            v.push("--note".into());
            v.push(format!("mutant:{}@{}:{}", mu.kind, mu.file, mu.line));
            v
        };
        match res {
            Err(p) => r.violation(&format!("C15/mutant-panic:{}", mu.kind), format!("{} fault at line {} crashed the loader: {}", mu.kind, mu.line, panic_msg(&*p)), ex("panic"), mrep),
            Ok(Ok(_)) => r.violation(&format!("C15/mutant-accepted:{}", mu.kind), format!("file with a {} fault at line {} was accepted", mu.kind, mu.line), ex("accepted"), mrep),
            Ok(Err(e)) => {
                r.count("mutants_rejected", 1);
                if mu.syntax {
                    // "Configuration error at <file> line <n>: ..."
                    let named_file = e.contains(path.as_str());
                    let line_no: Option<usize> = e.split(" line ").nth(1).and_then(|s| s.split(':').next()).and_then(|s| s.trim().parse().ok());
                    let ok_line = match line_no {
                        // a missing brace can only surface later: at or after the fault line, or at the end of file
                        // (a removed last line may take a preceding blank line with it in `str::lines` counting)
                        Some(n) => if mu.at_or_after { n >= mu.line || n == mu.text.lines().count() + 1 } else { n == mu.line },
                        None => false,
                    };
                    if !e.starts_with("syntax:") {
                        r.violation(&format!("C15/mutant-wrong-error-class:{}", mu.kind), format!("{} fault at line {} reported as {}", mu.kind, mu.line, e), ex(&e), mrep);
                    } else if !named_file || !ok_line {
                        r.violation(&format!("C15/mutant-wrong-location:{}", mu.kind), format!("{} fault in {} line {} reported as: {}", mu.kind, path, mu.line, e), ex(&e), mrep);
                    } else {
                        r.count("syntax_errors_located", 1);
                    }
                }
            }
        }
    }
    let _ = std::fs::remove_dir_all(&dir);
}

pub fn main(args: &Args) {
    let out = args.get("out").expect("--out");
    let seed = args.seed();
    let work = args.get("work").unwrap_or("/verif/.work").to_string();
    if let Some(c) = args.get("case") {
        let mut r = Report::new();
        run_case(&mut r, seed, c.parse().unwrap(), &work);
        r.nontrivial(1);
        r.nontrivial(2);
        r.write(out, "replay of one generated configuration with its layouts and mutants", None, &[]);
        return;
    }
    let n: u64 = if args.thorough() { 14_000 } else { 500 };
    let reports = par(ncpu(), move |shard, nsh| {
        let mut r = Report::new();
        let mut c = shard as u64;
        while c < n {
            run_case(&mut r, seed, c, &work);
            r.count("models", 1);
            c += nsh as u64;
        }
        r
    });
    let total = Report::merge_all(reports);
    total.write(out, "configurations generated from a model (address, port, threads, timeout, websocket, blacklist file+mode, log level/console/file, cache size in every unit + time, 0..4 hosts, 0..8 routes per host of every type incl. multi-pattern, proxy lists, load-balancer mode), each rendered in 3 layouts (random indentation incl. tabs, comments, blank lines, key and section order, quoting, CRLF, two of them split into included files incl. nested includes); then every single-fault mutant of one rendering (missing brace, missing value, bad number, unknown unit, non-ASCII in number/unit, bad boolean, unterminated quote, unquoted string, bad enum, out-of-range, sizes beyond 2^63 and 2^64 bytes, negative, list file that cannot be opened). distinct = distinct models; every model is non-trivial (it is compared field by field)", None, &["`#` and `\"` inside values are not generated (the syntax has no escape)", "LoadBalancer.lcg is excluded from the comparison (time-seeded)", "include paths are absolute (the loader resolves them against the process's working directory)", "for a missing closing brace any line at or after the fault is accepted (the error can only surface later)"]);
}

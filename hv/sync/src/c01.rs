//! C01 (threaded runtime): real `App`s on loopback driven by the shared laboratory (hvcommon::httplab).

use humphrey::http::cors::Cors;
use humphrey::http::method::Method;
use humphrey::http::{Request, Response, StatusCode};
use humphrey::App;
use hvcommon::args::Args;
use hvcommon::httplab::{self, Lab, Logged};
use hvcommon::report::Report;
use hvcommon::util::{ncpu, par};
use std::net::{SocketAddr, TcpListener, TcpStream};
use std::sync::mpsc::{channel, Sender};
use std::sync::{Arc, Mutex};
use std::time::Duration;

pub struct LogState {
    pub log: Mutex<Vec<Logged>>,
}

fn record(req: &Request, st: &LogState) {
    let xid = req.headers.get("X-Id").unwrap_or("").to_string();
    st.log.lock().unwrap().push(Logged { xid, method: req.method.to_string(), uri: req.uri.clone(), query: req.query.clone(), version: req.version.clone(), body: req.content.clone() });
}

pub fn build_app(threads: usize, state: LogState) -> App<LogState> {
    App::new_with_config(threads, state)
        .with_route("/r/*", |req: Request, st: Arc<LogState>| {
            record(&req, &st);
            Response::new(StatusCode::OK, format!("R|{}|{}|{}", req.method, req.uri, req.query))
        })
        .with_route("/echo", |req: Request, st: Arc<LogState>| {
            record(&req, &st);
            Response::new(StatusCode::OK, req.content.clone().unwrap_or_default())
        })
        .with_route("/empty", |req: Request, st: Arc<LogState>| {
            record(&req, &st);
            Response::empty(StatusCode::OK)
        })
        .with_route("/cors/a", |req: Request, st: Arc<LogState>| {
            record(&req, &st);
            Response::new(StatusCode::OK, "C|/cors/a")
        })
        .with_route("/cors/b", |req: Request, st: Arc<LogState>| {
            record(&req, &st);
            Response::new(StatusCode::OK, "C|/cors/b")
        })
        .with_route("/cors/c", |req: Request, st: Arc<LogState>| {
            record(&req, &st);
            Response::new(StatusCode::OK, "C|/cors/c")
        })
        .with_route("/panic", |req: Request, st: Arc<LogState>| -> Response {
            record(&req, &st);
            panic!("hv-handler-panic");
        })
        .with_cors_config("/cors/a", Cors::wildcard())
        .with_cors_config("/cors/b", Cors::new().with_origin("https://a.example").with_origin("https://b.example").with_method(Method::Get).with_method(Method::Post).with_header("X-Custom").with_header("Content-Type"))
        .with_cors_config("/cors/c", Cors::new().with_wildcard_origin())
        // a host whose CORS configuration is set for the whole sub-app first and whose routes are registered afterwards
        .with_host(
            "cors.hv",
            humphrey::SubApp::new()
                .with_cors(Cors::new().with_origin("https://h.example").with_method(Method::Get).with_method(Method::Put).with_header("X-Host"))
                .with_path_aware_route("/pa/*", |req: Request, st: Arc<LogState>, route: &'static str| {
                    record(&req, &st);
                    Response::new(StatusCode::OK, format!("P|{}|{}", route, req.uri))
                })
                .with_route("/late", |req: Request, st: Arc<LogState>| {
                    record(&req, &st);
                    Response::new(StatusCode::OK, "L|/late")
                }),
        )
}

pub fn free_port() -> u16 {
    hvcommon::net::free_port("127.0.0.1")
}

pub struct SyncLab {
    addr: SocketAddr,
    taddr: SocketAddr,
    pool: usize,
    states: Vec<Arc<LogState>>,
    _stops: Vec<Sender<()>>,
}

impl SyncLab {
    pub fn new(pool: usize) -> Result<SyncLab, String> {
        let mut states = Vec::new();
        let mut stops = Vec::new();
        let mut addrs = Vec::new();
        for timeout in [None, Some(Duration::from_millis(httplab::TIMEOUT_MS))] {
            let port = free_port();
            let (tx, rx) = channel();
            let app = build_app(pool, LogState { log: Mutex::new(Vec::new()) }).with_connection_timeout(timeout).with_shutdown(rx);
            states.push(app.get_state());
            stops.push(tx);
            let addr: SocketAddr = format!("127.0.0.1:{}", port).parse().unwrap();
            addrs.push(addr);
            std::thread::spawn(move || {
                let _ = app.run(addr);
            });
            let mut up = false;
            for _ in 0..400 {
                if TcpStream::connect(addr).is_ok() {
                    up = true;
                    break;
                }
                std::thread::sleep(Duration::from_millis(5));
            }
            if !up {
                return Err(format!("lab app on {} did not start", addr));
            }
        }
        Ok(SyncLab { addr: addrs[0], taddr: addrs[1], pool, states, _stops: stops })
    }
}

impl Lab for SyncLab {
    fn addr(&self) -> SocketAddr {
        self.addr
    }
    fn pool(&self) -> usize {
        self.pool
    }
    fn timeout_addr(&self) -> Option<SocketAddr> {
        Some(self.taddr)
    }
    fn take_log(&self, prefix: &str) -> Vec<Logged> {
        let mut out = Vec::new();
        for st in &self.states {
            let mut g = st.log.lock().unwrap();
            let mut keep = Vec::new();
            for l in g.drain(..) {
                if l.xid.starts_with(prefix) {
                    out.push(l);
                } else {
                    keep.push(l);
                }
            }
            *g = keep;
        }
        out
    }
    fn runtime(&self) -> &'static str {
        "threaded"
    }
}

pub fn silence_handler_panics() {
    let prev = std::panic::take_hook();
    std::panic::set_hook(Box::new(move |info| {
        let s = info.payload().downcast_ref::<&str>().map(|s| s.to_string()).or_else(|| info.payload().downcast_ref::<String>().cloned()).unwrap_or_default();
        if !s.contains("hv-handler-panic") {
            prev(info);
        }
    }));
}

pub fn main(args: &Args) {
    let out = args.get("out").expect("--out");
    let seed = args.seed();
    let thorough = args.thorough();
    silence_handler_panics();
    let only = args.get("script").map(|s| s.parse::<u64>().unwrap());
    let nscripts: u64 = if thorough { 6000 } else { 400 };
    let nidle: u64 = if thorough { 64 } else { 16 };
    let reports = par(if only.is_some() { 1 } else { ncpu() }, move |shard, nsh| {
        let mut r = Report::new();
        let pool = 1 + shard % 4;
        let lab = match SyncLab::new(pool.max(2)) {
            Ok(l) => l,
            Err(e) => {
                r.harness_error(e);
                return r;
            }
        };
        r.set_insert("pool_sizes_used", pool.max(2) as u64);
        match only {
            Some(k) => httplab::run_all(&mut r, &lab, seed, (k % 1_000_000) as usize, 1_000_000, k + 1, 0, "t"),
            None => httplab::run_all(&mut r, &lab, seed, shard, nsh, nscripts, nidle, "t"),
        }
        r
    });
    let mut total = Report::merge_all(reports);
    if only.is_some() {
        total.nontrivial(1);
        total.nontrivial(2);
    }
    total.write(out, "scripts of 1..8 requests over methods {GET,POST,PUT,DELETE,OPTIONS} x targets {routed, unrouted, 3 CORS configurations, body-echoing, empty-body, panicking handler} x Connection {keep-alive in 4 spellings, close, absent} x {HTTP/1.0, HTTP/1.1}, optionally ending in one of 8 malformed requests or an idle wait of 3x the timeout; each script played lock-step under 3 segmentations (whole, one byte per segment, random sizes with gaps) and pipelined under the same segmentations scaled across request boundaries; panic-isolation rounds of 3..6 panicking connections interleaved with healthy ones on pools of 2..4 threads. distinct = distinct script byte streams; every script is non-trivial (>= 1 request judged field by field)", None, &["bare-LF line endings are not generated (RFC 9112 lets a recipient accept them)", "400/408 responses are only required to carry the right status and be followed by close", "disposition is decided logically: 'stayed open' = a further request is answered, 'closed' = EOF/RST observed", "scripts on the 250 ms-timeout app are discarded (counted) when the client itself stalled more than 100 ms between requests"]);
}

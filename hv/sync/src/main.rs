//! `hv`: runtime-monitoring harnesses for the threaded (default-feature) build of Humphrey.
//! One sub-command per property; each writes a result file for the driver.

mod c01;
mod c02;
mod c03;
mod c04;
mod c05;
mod c06;
mod c07;
mod c08;
mod c09;
mod c10;
mod c11;
mod c12;
mod c13;
mod c15;
mod c16;
mod c17;
mod c18;
mod c19;
mod c20;
mod jsonref;

use hvcommon::args::Args;

#[global_allocator]
static GLOBAL: hvcommon::alloc::Counting = hvcommon::alloc::Counting;

fn main() {
    let args = Args::from_env();
    match args.cmd() {
        "c01" => c01::main(&args),
        "c02" => c02::main(&args),
        "c03" => c03::main(&args),
        "c03-worker" => c03::worker(&args),
        "c03-one" => c03::one(&args),
        "c04" => c04::main(&args),
        "c05" => c05::main(&args),
        "c06" => c06::main(&args),
        "c07" => c07::main(&args),
        "c08" => c08::main(&args),
        "c08-one" => c08::one(&args),
        "c08-replay" => c08::replay_one(&args),
        "c09" => c09::main(&args),
        "c10" => c10::main(&args),
        "c11" => c11::main(&args),
        "c12" => c12::main(&args),
        "c13" => c13::main(&args),
        "c15" => c15::main(&args),
        "c16" => c16::main(&args),
        "c17" => c17::main(&args),
        "c18" => c18::main(&args),
        "c19" => c19::main(&args),
        "c20" => c20::main(&args),
        other => {
            eprintln!("unknown sub-command {:?}", other);
            std::process::exit(2);
        }
    }
}

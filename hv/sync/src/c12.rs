//! C12: the async WebSocket app delivers connect/message/disconnect exactly once, in order.
//! Monitors: handler-side event log (Connect/Message/Disconnect with peer address) and per-client
//! logs of validated frames; exactly-once / set properties for every pool size, order with one handler
//! thread; failpoints between the poll-loop phases widen the windows.

use humphrey::App;
use humphrey_ws::async_app::{AsyncStream, AsyncWebsocketApp};
use humphrey_ws::handler::async_websocket_handler;
use humphrey_ws::ping::Heartbeat;
use humphrey_ws::Message;
use hvcommon::args::Args;
use hvcommon::httplab::Conn;
use hvcommon::json::J;
use hvcommon::report::Report;
use hvcommon::rng::Rng;
use hvcommon::util::{fnv, ncpu, par, show};
use hvcommon::wsref::{self, Dec, RefFrame};
use std::collections::{HashMap, HashSet};
use std::io::Write;
use std::net::{SocketAddr, TcpListener, TcpStream};
use std::sync::atomic::{AtomicBool, AtomicU64, Ordering};
use std::sync::mpsc::channel;
use std::sync::{Arc, Mutex};
use std::time::{Duration, Instant};

#[derive(Clone, Debug, PartialEq)]
enum Ev {
    Connect(SocketAddr),
    Message(SocketAddr, String),
    Disconnect(SocketAddr),
}

struct St {
    log: Mutex<Vec<(Ev, Instant)>>,
}

static FP_SEED: AtomicU64 = AtomicU64::new(0);
static FP_HITS: AtomicU64 = AtomicU64::new(0);

/// longest time between two consecutive ends of iteration of one poll loop (any app of this process), in ms
static MAX_POLL_GAP_MS: AtomicU64 = AtomicU64::new(0);
/// the same per poll-loop thread, so that a scenario can ask about its own app
static POLL_GAPS: Mutex<Option<std::collections::HashMap<std::thread::ThreadId, u64>>> = Mutex::new(None);
thread_local! {
    static LAST_ITERATION_END: std::cell::Cell<Option<Instant>> = const { std::cell::Cell::new(None) };
}

fn fp_handler(name: &'static str) {
    if !name.starts_with("ws.async") {
        return;
    }
    if name == "ws.async.end_of_iteration" {
        // monitor: the poll loop is one thread per app, so consecutive hits on a thread are consecutive iterations
        let now = Instant::now();
        if let Some(prev) = LAST_ITERATION_END.with(|c| c.replace(Some(now))) {
            let gap = now.duration_since(prev).as_millis() as u64;
            MAX_POLL_GAP_MS.fetch_max(gap, Ordering::Relaxed);
            if gap >= 100 {
                let mut g = POLL_GAPS.lock().unwrap();
                let e = g.get_or_insert_with(Default::default).entry(std::thread::current().id()).or_insert(0);
                *e = (*e).max(gap);
            }
        }
    }
    let n = FP_HITS.fetch_add(1, Ordering::Relaxed);
    let mut x = FP_SEED.load(Ordering::Relaxed) ^ n.wrapping_mul(0x9E3779B97F4A7C15) ^ fnv(name.as_bytes());
    x ^= x >> 31;
    match x % 8 {
        0 => std::thread::sleep(Duration::from_micros(200 + x % 1500)),
        1 | 2 => std::thread::yield_now(),
        _ => {}
    }
}

#[derive(Clone, Debug)]
enum Step {
    /// (kind 'N' none / 'U' unicast echo / 'B' broadcast, id, fragments, binary)
    Send(char, String, usize, bool),
    Ping(Vec<u8>),
    Pause(u64),
}

#[derive(Clone, Debug)]
struct ClientPlan {
    steps: Vec<Step>,
    /// true: send Close at the end (after the barrier); false: abrupt disconnect in mid-script
    graceful: bool,
    /// close early (before the barrier), graceful only
    leaves_early: bool,
}

struct ClientResult {
    local: Option<SocketAddr>,
    /// text payloads received (validated frames), in order
    texts: Vec<String>,
    pongs: Vec<Vec<u8>>,
    bad_frames: Vec<String>,
    /// (id, instant sent)
    sent: Vec<(String, Instant)>,
    closed_gracefully: bool,
    close_reply: bool,
    /// how the wait for the Close reply went (diagnostics), and whether the machine stalled the waiting thread
    close_wait: String,
    close_wait_disturbed: bool,
    stayed_until_barrier: bool,
}

fn ws_connect(addr: SocketAddr) -> Result<(Conn, SocketAddr), String> {
    let mut c = Conn::open(addr).map_err(|e| e.to_string())?;
    let local = c.s.local_addr().map_err(|e| e.to_string())?;
    c.send(b"GET /ws HTTP/1.1\r\nHost: hv\r\nUpgrade: websocket\r\nConnection: Upgrade\r\nSec-WebSocket-Key: dGhlIHNhbXBsZSBub25jZQ==\r\nSec-WebSocket-Version: 13\r\n\r\n", &[], 0).map_err(|e| e.to_string())?;
    match c.read_response(Duration::from_secs(10)) {
        Ok(Some(m)) if m.status() == 101 => Ok((c, local)),
        other => Err(format!("handshake failed: {:?}", other.map(|x| x.map(|m| m.status())))),
    }
}

fn run_client(addr: SocketAddr, plan: ClientPlan, rng_seed: u64, barrier_reached: Arc<AtomicBool>, release: Arc<AtomicBool>, connect_logged: impl Fn(SocketAddr) -> bool) -> ClientResult {
    let mut res = ClientResult { local: None, texts: vec![], pongs: vec![], bad_frames: vec![], sent: vec![], closed_gracefully: false, close_reply: false, close_wait: String::new(), close_wait_disturbed: false, stayed_until_barrier: false };
    let (c, local) = match ws_connect(addr) {
        Ok(x) => x,
        Err(e) => {
            res.bad_frames.push(format!("HARNESS:{}", e));
            return res;
        }
    };
    res.local = Some(local);
    let mut rng = Rng::derive(rng_seed, 0xc12);
    let writer = Arc::new(Mutex::new(c.s.try_clone().unwrap()));
    let stop_reader = Arc::new(AtomicBool::new(false));
    let shared: Arc<Mutex<(Vec<String>, Vec<Vec<u8>>, Vec<String>, bool)>> = Arc::new(Mutex::new((vec![], vec![], vec![], false)));
    // set (under the writer lock) before the client's own Close is written: nothing is written after a Close. A pong
    // written after it would still be unread when the server closes the socket, the kernel would answer it with a
    // reset, and a reset discards what the client has not read yet - the server's Close reply among it.
    let closing = Arc::new(AtomicBool::new(false));
    let closing2 = closing.clone();
    let (w2, sr2, sh2) = (writer.clone(), stop_reader.clone(), shared.clone());
    let reader_end = Arc::new(Mutex::new(String::new()));
    let end2 = reader_end.clone();
    let mut rc = c;
    let reader = std::thread::spawn(move || {
        loop {
            loop {
                match wsref::decode(&rc.buf) {
                    Dec::Frame(f, used) => {
                        let raw: Vec<u8> = rc.buf.drain(..used).collect();
                        let mut g = sh2.lock().unwrap();
                        if let Err(e) = wsref::validate_server_frame(&raw, &f) {
                            g.2.push(format!("{} ({})", e, hvcommon::util::hex(&raw[..raw.len().min(12)])));
                        }
                        match f.opcode {
                            1 => g.0.push(String::from_utf8_lossy(&f.payload).to_string()),
                            9 => {
                                // heartbeat ping from the server: answer it
                                drop(g);
                                let pong = RefFrame::new(10, true, Some([1, 2, 3, 4]), f.payload.clone()).encode();
                                let mut w = w2.lock().unwrap();
                                if !closing2.load(Ordering::SeqCst) {
                                    w.write_all(&pong).ok();
                                }
                            }
                            10 => g.1.push(f.payload.clone()),
                            8 => g.3 = true,
                            _ => g.2.push(format!("unexpected opcode {}", f.opcode)),
                        }
                    }
                    Dec::Incomplete => break,
                }
            }
            if rc.eof || sr2.load(Ordering::SeqCst) {
                if !rc.buf.is_empty() && rc.eof {
                    sh2.lock().unwrap().2.push(format!("{} undecodable trailing bytes: {:?}", rc.buf.len(), show(&rc.buf, 24)));
                }
                *end2.lock().unwrap() = format!("reader ended with eof={} reset={} {} bytes undecoded", rc.eof, rc.reset, rc.buf.len());
                return;
            }
            rc.fill(Duration::from_millis(10));
        }
    });
    // wait until the app has registered the connection: messages of a client are only defined after its Connect
    let t = Instant::now();
    while !connect_logged(local) && t.elapsed() < Duration::from_secs(5) {
        std::thread::sleep(Duration::from_micros(300));
    }
    // `split` != 0: every frame is written in two pieces with a pause, the cut at (split mod length), i.e. anywhere
    // in header, key or payload
    let send_frames_split = |frames: Vec<RefFrame>, split: u64| -> bool {
        let mut w = writer.lock().unwrap();
        for f in frames {
            let enc = f.encode();
            if split != 0 && enc.len() > 2 {
                let cut = 1 + (split as usize) % (enc.len() - 1);
                if w.write_all(&enc[..cut]).is_err() {
                    return false;
                }
                std::thread::sleep(Duration::from_micros(800 + split % 2500));
                if w.write_all(&enc[cut..]).is_err() {
                    return false;
                }
            } else if w.write_all(&enc).is_err() {
                return false;
            }
        }
        true
    };
    let send_frames = |frames: Vec<RefFrame>| -> bool { send_frames_split(frames, 0) };
    let key = |rng: &mut Rng| {
        let k = rng.bytes(4);
        Some([k[0], k[1], k[2], k[3]])
    };
    let mut pings_sent: Vec<Vec<u8>> = Vec::new();
    for st in &plan.steps {
        match st {
            Step::Pause(us) => std::thread::sleep(Duration::from_micros(*us)),
            Step::Ping(p) => {
                pings_sent.push(p.clone());
                send_frames(vec![RefFrame::new(9, true, key(&mut rng), p.clone())]);
            }
            Step::Send(kind, id, nfrag, binary) => {
                let payload = format!("{}:{}:{}", kind, id, "x".repeat(rng.urange(0, 40))).into_bytes();
                let nf = (*nfrag).min(payload.len()).max(1);
                let mut frames = Vec::new();
                let per = payload.len() / nf;
                for f in 0..nf {
                    let a = f * per;
                    let b = if f + 1 == nf { payload.len() } else { (f + 1) * per };
                    frames.push(RefFrame::new(if f == 0 { if *binary { 2 } else { 1 } } else { 0 }, f + 1 == nf, key(&mut rng), payload[a..b].to_vec()));
                    if f + 1 < nf && rng.chance(1, 3) {
                        let p = rng.bytes(3);
                        pings_sent.push(p.clone());
                        frames.push(RefFrame::new(9, true, key(&mut rng), p));
                    }
                }
                res.sent.push((id.clone(), Instant::now()));
                if frames.len() > 1 && rng.chance(1, 2) {
                    // fragments in separate writes with a pause: the next fragment is not yet readable when the
                    // previous one has been consumed
                    for f in frames {
                        send_frames(vec![f]);
                        std::thread::sleep(Duration::from_micros(rng.range(500, 3000)));
                    }
                    continue;
                }
                // one message in three: every frame in two writes, cut anywhere (also inside the payload), with a pause
                let split = if rng.chance(1, 3) { rng.next_u64() | 1 } else { 0 };
                send_frames_split(frames, split);
            }
        }
    }
    if !plan.graceful {
        // abrupt disconnect (heartbeat scenarios only)
        stop_reader.store(true, Ordering::SeqCst);
        writer.lock().unwrap().shutdown(std::net::Shutdown::Both).ok();
    } else {
        if !plan.leaves_early {
            barrier_reached.store(true, Ordering::SeqCst);
            let t = Instant::now();
            while !release.load(Ordering::SeqCst) && t.elapsed() < Duration::from_secs(20) {
                std::thread::sleep(Duration::from_millis(1));
            }
            res.stayed_until_barrier = true;
        }
        {
            let _w = writer.lock().unwrap();
            closing.store(true, Ordering::SeqCst);
        }
        res.closed_gracefully = send_frames(vec![RefFrame::new(8, true, key(&mut rng), vec![0x03, 0xe8])]);
        // wait for the Close reply / EOF. No time bound belongs to the property: the wait is generous, and the largest
        // overshoot of the 1 ms sleeps tells whether this machine was scheduling the client's threads at all.
        let t = Instant::now();
        let mut worst_sleep_ms = 0u64;
        while t.elapsed() < Duration::from_secs(10) {
            if shared.lock().unwrap().3 || reader.is_finished() {
                break;
            }
            let s0 = Instant::now();
            std::thread::sleep(Duration::from_millis(1));
            worst_sleep_ms = worst_sleep_ms.max(s0.elapsed().as_millis() as u64);
        }
        res.close_wait = format!("waited {} ms for the reply, reader thread {}, worst 1 ms sleep took {} ms", t.elapsed().as_millis(), if reader.is_finished() { "had seen EOF" } else { "still reading (no EOF)" }, worst_sleep_ms);
        res.close_wait_disturbed = worst_sleep_ms > 300;
        stop_reader.store(true, Ordering::SeqCst);
    }
    if plan.leaves_early || !plan.graceful {
        barrier_reached.store(true, Ordering::SeqCst);
    }
    reader.join().ok();
    if !res.close_wait.is_empty() {
        res.close_wait = format!("{}; {}", res.close_wait, reader_end.lock().unwrap());
    }
    let g = shared.lock().unwrap();
    res.texts = g.0.clone();
    res.pongs = g.1.clone();
    res.bad_frames.extend(g.2.clone());
    res.close_reply = g.3;
    // every ping must have been answered, in order, by a pong with the same payload (while connected)
    if plan.graceful && res.pongs != pings_sent {
        res.bad_frames.push(format!("PONGS: got {} pongs for {} pings (or payloads differ)", res.pongs.len(), pings_sent.len()));
    }
    res
}

fn scenario(r: &mut Report, seed: u64, k: u64) {
    let mut rng = Rng::derive(seed, 0x1200_0000 + k);
    let nclients = rng.urange(1, 8);
    let handlers = if k % 2 == 0 { 1 } else { rng.urange(2, 8) };
    let poll: Option<Duration> = *rng.pick(&[None, Some(Duration::from_millis(1)), Some(Duration::from_millis(10))]);
    let heartbeat = rng.chance(1, 3);
    FP_SEED.store(rng.next_u64(), Ordering::Relaxed);
    let replay = vec!["c12".to_string(), "--seed".into(), seed.to_string(), "--scenario".into(), k.to_string()];
    // plans
    let mut plans: Vec<ClientPlan> = Vec::new();
    for c in 0..nclients {
        let nsteps = rng.urange(1, 12);
        let mut steps = Vec::new();
        for j in 0..nsteps {
            match rng.below(8) {
                0 => steps.push(Step::Ping(rng.bytes(rng.clone().urange(0, 20)))),
                1 => steps.push(Step::Pause(rng.range(0, 5000))),
                _ => {
                    let kind = *rng.pick(&['N', 'N', 'U', 'U', 'B']);
                    steps.push(Step::Send(kind, format!("c{}m{}", c, j), rng.urange(1, 4), rng.chance(1, 4)));
                    if rng.chance(1, 3) {
                        steps.push(Step::Pause(rng.range(0, 3000)));
                    }
                }
            }
        }
        let graceful = !(heartbeat && rng.chance(1, 4));
        plans.push(ClientPlan { steps, graceful, leaves_early: graceful && rng.chance(1, 4) });
    }
    // apps
    let port = hvcommon::net::free_port("127.0.0.1");
    let addr: SocketAddr = format!("127.0.0.1:{}", port).parse().unwrap();
    let state = Arc::new(St { log: Mutex::new(Vec::new()) });
    let (ws_tx, ws_rx) = channel();
    let (app_tx, app_rx) = channel();
    let st2 = state.clone();
    let mut wsapp: AsyncWebsocketApp<Arc<St>> = AsyncWebsocketApp::new_unlinked_with_config(st2, handlers).with_polling_interval(poll).with_shutdown(ws_rx);
    if heartbeat {
        wsapp = wsapp.with_heartbeat(Heartbeat::new(Duration::from_millis(100), Duration::from_millis(1500)));
    }
    wsapp.on_connect(|s: AsyncStream, st: Arc<Arc<St>>| {
        st.log.lock().unwrap().push((Ev::Connect(s.peer_addr()), Instant::now()));
        // the joining client is connected at this moment, so it is among the recipients of this broadcast
        s.broadcast(Message::new(format!("J:{}", s.peer_addr())));
    });
    wsapp.on_disconnect(|s: AsyncStream, st: Arc<Arc<St>>| {
        st.log.lock().unwrap().push((Ev::Disconnect(s.peer_addr()), Instant::now()));
    });
    wsapp.on_message(|s: AsyncStream, m: Message, st: Arc<Arc<St>>| {
        let text = String::from_utf8_lossy(m.bytes()).to_string();
        let mut parts = text.splitn(3, ':');
        let kind = parts.next().unwrap_or("").to_string();
        let id = parts.next().unwrap_or("").to_string();
        st.log.lock().unwrap().push((Ev::Message(s.peer_addr(), id.clone()), Instant::now()));
        match kind.as_str() {
            "U" => s.send(Message::new(format!("E:{}", id))),
            "B" => s.broadcast(Message::new(format!("BC:{}", id))),
            _ => {}
        }
    });
    let hook = wsapp.connect_hook().unwrap();
    let sender = wsapp.sender();
    let app: App<()> = App::new_with_config(4, ()).with_websocket_route("/ws", async_websocket_handler(hook)).with_shutdown(app_rx);
    std::thread::spawn(move || {
        let _ = app.run(addr);
    });
    let (done_tx, done_rx) = channel();
    let poll_thread = std::thread::spawn(move || {
        wsapp.run();
        done_tx.send(Instant::now()).ok();
    })
    .thread()
    .id();
    for _ in 0..400 {
        if TcpStream::connect(addr).is_ok() {
            break;
        }
        std::thread::sleep(Duration::from_millis(3));
    }
    // clients
    let release = Arc::new(AtomicBool::new(false));
    let mut flags = Vec::new();
    let mut hs = Vec::new();
    for (c, plan) in plans.iter().cloned().enumerate() {
        let flag = Arc::new(AtomicBool::new(false));
        flags.push(flag.clone());
        let (rel, st3) = (release.clone(), state.clone());
        let cs = seed ^ (k << 8) ^ c as u64;
        hs.push(std::thread::spawn(move || run_client(addr, plan, cs, flag, rel, move |a| st3.log.lock().unwrap().iter().any(|(e, _)| *e == Ev::Connect(a)))));
        if rng.chance(1, 2) {
            std::thread::sleep(Duration::from_micros(rng.range(0, 3000)));
        }
    }
    // an external sender broadcasts while the clients are busy
    let ext_ids: Vec<String> = (0..rng.urange(0, 3)).map(|i| format!("x{}", i)).collect();
    let mut ext_sent: Vec<(String, Instant)> = Vec::new();
    for id in &ext_ids {
        std::thread::sleep(Duration::from_micros(rng.range(200, 4000)));
        ext_sent.push((id.clone(), Instant::now()));
        sender.broadcast(Message::new(format!("XB:{}", id)));
    }
    // barrier: every client has finished its sends (or left)
    let t = Instant::now();
    while !flags.iter().all(|f| f.load(Ordering::SeqCst)) && t.elapsed() < Duration::from_secs(20) {
        std::thread::sleep(Duration::from_millis(1));
    }
    // let the app drain: all messages of staying clients dispatched and all replies flushed
    let expected_msgs: usize = plans.iter().filter(|p| p.graceful).map(|p| p.steps.iter().filter(|s| matches!(s, Step::Send(..))).count()).sum();
    let t = Instant::now();
    loop {
        let n = state.log.lock().unwrap().iter().filter(|(e, _)| matches!(e, Ev::Message(..))).count();
        if n >= expected_msgs || t.elapsed() > Duration::from_secs(5) {
            break;
        }
        std::thread::sleep(Duration::from_millis(2));
    }
    std::thread::sleep(Duration::from_millis(60 + poll.map(|p| p.as_millis() as u64 * 3).unwrap_or(0)));
    release.store(true, Ordering::SeqCst);
    let results: Vec<ClientResult> = hs.into_iter().map(|h| h.join().unwrap()).collect();
    // disconnect events: graceful ones promptly, abrupt ones after the heartbeat timeout
    let want_disc = results.iter().filter(|c| c.local.is_some()).count();
    let t = Instant::now();
    // (the loop ends as soon as all of them are there; the limit only matters when one is missing, and no time bound belongs to the property)
    let limit = if plans.iter().any(|p| !p.graceful) { Duration::from_millis(10_000) } else { Duration::from_millis(8000) };
    loop {
        let n = state.log.lock().unwrap().iter().filter(|(e, _)| matches!(e, Ev::Disconnect(..))).count();
        if n >= want_disc || t.elapsed() > limit {
            break;
        }
        std::thread::sleep(Duration::from_millis(5));
    }
    // shutdown: run must return
    let t_sig = Instant::now();
    ws_tx.send(()).ok();
    let returned = done_rx.recv_timeout(Duration::from_secs(10)).ok();
    app_tx.send(()).ok();
    // ------------------------------------------------------------------ oracle
    r.eval();
    r.count("scenarios", 1);
    let log: Vec<(Ev, Instant)> = state.log.lock().unwrap().clone();
    let desc = J::obj(vec![("clients", J::u(nclients as u64)), ("handler_threads", J::u(handlers as u64)), ("poll_interval_ms", poll.map(|p| J::u(p.as_millis() as u64)).unwrap_or(J::Null)), ("heartbeat", J::Bool(heartbeat)), ("plans", J::Arr(plans.iter().map(|p| J::s(format!("{} steps, graceful={}, leaves_early={}", p.steps.len(), p.graceful, p.leaves_early))).collect()))]);
    let mut viol = |r: &mut Report, sig: &str, what: String| {
        r.violation(sig, format!("[{} handler thread(s), poll {:?}, heartbeat {}] {}", handlers, poll, heartbeat, what), J::obj(vec![("scenario", desc.clone()), ("observed", J::s(&what)), ("event_log_head", J::Arr(log.iter().take(30).map(|(e, _)| J::s(format!("{:?}", e))).collect()))]), replay.clone());
    };
    match returned {
        None => viol(r, "C12/run-did-not-return", "AsyncWebsocketApp::run had not returned 10 s after the shutdown signal".into()),
        Some(t) => r.max("max_ms_signal_to_return", t.saturating_duration_since(t_sig).as_millis() as u64),
    }
    r.count("handler_events_observed", log.len() as u64);
    if results.iter().any(|c| c.bad_frames.iter().any(|b| b.starts_with("HARNESS:"))) {
        r.inconclusive("a client could not complete its handshake");
        return;
    }
    let addr_of: HashMap<SocketAddr, usize> = results.iter().enumerate().filter_map(|(i, c)| c.local.map(|a| (a, i))).collect();
    // connect / disconnect exactly once
    for (i, c) in results.iter().enumerate() {
        let a = c.local.unwrap();
        let nc = log.iter().filter(|(e, _)| *e == Ev::Connect(a)).count();
        if nc != 1 {
            viol(r, "C12/connect-not-exactly-once", format!("client {} ({}) has {} Connect events", i, a, nc));
        }
        let nd = log.iter().filter(|(e, _)| *e == Ev::Disconnect(a)).count();
        if nd > 1 || (nd == 0 && (c.closed_gracefully || heartbeat)) {
            viol(r, "C12/disconnect-not-exactly-once", format!("client {} ({}, graceful={}) has {} Disconnect events", i, a, c.closed_gracefully, nd));
        }
        if nd == 1 {
            r.count(if c.closed_gracefully { "disconnects_graceful" } else { "disconnects_abrupt" }, 1);
        }
        // messages: multiset equality (graceful) / at-most-once prefix (abrupt)
        let got: Vec<&String> = log.iter().filter_map(|(e, _)| match e { Ev::Message(x, id) if *x == a => Some(id), _ => None }).collect();
        let sent: Vec<&String> = c.sent.iter().map(|s| &s.0).collect();
        let gs: HashSet<&String> = got.iter().copied().collect();
        if gs.len() != got.len() {
            viol(r, "C12/message-dispatched-twice", format!("client {}: a message was dispatched more than once: {:?}", i, got));
        }
        if plans[i].graceful {
            let ss: HashSet<&String> = sent.iter().copied().collect();
            if gs != ss {
                let missing: Vec<&&String> = ss.difference(&gs).collect();
                let extra: Vec<&&String> = gs.difference(&ss).collect();
                viol(r, if !missing.is_empty() { "C12/message-lost" } else { "C12/message-foreign" }, format!("client {}: dispatched ids differ from sent ids (missing {:?}, extra {:?})", i, missing, extra));
            } else {
                r.count("messages_dispatched_exactly_once", got.len() as u64);
            }
        } else if got.iter().any(|g| !sent.contains(g)) {
            viol(r, "C12/message-foreign", format!("client {}: dispatched ids {:?} not all among sent ids", i, got));
        }
        // frames the client received
        for b in &c.bad_frames {
            viol(r, if b.starts_with("PONGS") { "C12/ping-not-answered" } else { "C11/server-output-not-a-frame" }, format!("client {}: {}", i, b));
        }
        r.count("client_text_frames_received", c.texts.len() as u64);
        // unicast: only to the addressee, at most once, exactly once if it stayed
        let mut seen: HashSet<&String> = HashSet::new();
        for t in &c.texts {
            if !seen.insert(t) {
                viol(r, "C12/delivery-duplicated", format!("client {} received {:?} twice", i, t));
            }
            if let Some(id) = t.strip_prefix("E:") {
                if !c.sent.iter().any(|s| s.0 == id) {
                    viol(r, "C12/unicast-misdelivered", format!("client {} received the unicast reply {:?} addressed to another client", i, t));
                }
            }
        }
        if c.stayed_until_barrier && c.closed_gracefully {
            for st in &plans[i].steps {
                if let Step::Send('U', id, _, _) = st {
                    if !c.texts.contains(&format!("E:{}", id)) {
                        viol(r, "C12/unicast-lost", format!("client {} stayed connected but never received the reply to {}", i, id));
                    } else {
                        r.count("unicasts_delivered", 1);
                    }
                }
            }
        }
        if c.stayed_until_barrier && c.closed_gracefully {
            let own = format!("J:{}", a);
            let n = c.texts.iter().filter(|t| **t == own).count();
            if n != 1 {
                viol(r, "C12/broadcast-missed", format!("client {} received the broadcast its own connect handler sent {} times (it is connected at that moment)", i, n));
            } else {
                r.count("join_broadcasts_received_by_joiner", 1);
            }
        }
        if c.closed_gracefully && !c.close_reply {
            if c.close_wait_disturbed {
                r.count("close_replies_not_judged_machine_stalled", 1);
            } else {
                viol(r, "C12/close-not-answered", format!("client {} sent Close but received no Close frame back ({}; longest iteration of this app's poll loop: {} ms)", i, c.close_wait, POLL_GAPS.lock().unwrap().as_ref().and_then(|m| m.get(&poll_thread).copied()).map(|g| g.to_string()).unwrap_or_else(|| "< 100".to_string())));
            }
        }
    }
    // broadcasts: exactly once to every client connected from before submission until the barrier
    let connect_time = |a: SocketAddr| log.iter().find(|(e, _)| *e == Ev::Connect(a)).map(|(_, t)| *t);
    let mut bcasts: Vec<(String, Instant)> = ext_sent.iter().map(|(id, t)| (format!("XB:{}", id), *t)).collect();
    for (i, c) in results.iter().enumerate() {
        for st in &plans[i].steps {
            if let Step::Send('B', id, _, _) = st {
                if let Some((_, t)) = c.sent.iter().find(|s| s.0 == *id) {
                    // only broadcasts whose trigger was dispatched count
                    if log.iter().any(|(e, _)| matches!(e, Ev::Message(_, x) if x == id)) {
                        bcasts.push((format!("BC:{}", id), *t));
                    }
                }
            }
        }
    }
    for (text, t_sub) in &bcasts {
        r.count("broadcasts", 1);
        for (j, c) in results.iter().enumerate() {
            let n = c.texts.iter().filter(|x| *x == text).count();
            let must = c.stayed_until_barrier && c.closed_gracefully && connect_time(c.local.unwrap()).map(|ct| ct < *t_sub).unwrap_or(false);
            if must && n != 1 {
                viol(r, "C12/broadcast-missed", format!("client {} was connected from before {} was submitted until the barrier but received it {} times", j, text, n));
            } else if must {
                r.count("broadcast_deliveries_checked", 1);
            }
        }
    }
    // order, with a single handler thread: connect before messages, per-client order, nothing after disconnect
    if handlers == 1 {
        r.count("single_handler_thread_scenarios", 1);
        for (a, i) in &addr_of {
            let mine: Vec<&Ev> = log.iter().map(|(e, _)| e).filter(|e| match e { Ev::Connect(x) | Ev::Disconnect(x) => x == a, Ev::Message(x, _) => x == a }).collect();
            if let Some(first) = mine.first() {
                if !matches!(first, Ev::Connect(_)) {
                    viol(r, "C12/order:message-before-connect", format!("client {}: first event is {:?}", i, first));
                }
            }
            if let Some(p) = mine.iter().position(|e| matches!(e, Ev::Disconnect(_))) {
                if p + 1 != mine.len() {
                    viol(r, "C12/order:event-after-disconnect", format!("client {}: events after Disconnect: {:?}", i, &mine[p + 1..]));
                }
            }
            let ids: Vec<&String> = mine.iter().filter_map(|e| if let Ev::Message(_, id) = e { Some(id) } else { None }).collect();
            let sent: Vec<&String> = results[*i].sent.iter().map(|s| &s.0).filter(|s| ids.contains(s)).collect();
            if ids != sent {
                viol(r, "C12/order:per-client-message-order", format!("client {}: dispatched in order {:?}, sent in order {:?}", i, ids, sent));
            }
        }
    }
    r.max("max_ms_poll_loop_iteration_in_main_scenarios", POLL_GAPS.lock().unwrap().as_ref().and_then(|m| m.get(&poll_thread).copied()).unwrap_or(0));
    r.nontrivial(fnv(format!("{}{:?}", k, desc.to_string()).as_bytes()));
    if k < 2 {
        r.sample(J::obj(vec![("scenario", desc), ("events", J::Arr(log.iter().take(12).map(|(e, _)| J::s(format!("{:?}", e))).collect()))]));
    }
}


/// Heartbeat with a client that is busy all the time: it sends a message every millisecond for three times the
/// heartbeat timeout and answers every ping it receives. It is healthy, so it must not be disconnected, and all of
/// its messages must be dispatched, in order.
fn busy_heartbeat_scenario(r: &mut Report, seed: u64, k: u64) {
    let mut rng = Rng::derive(seed, 0x12c0_0000 + k);
    let poll: Option<Duration> = *rng.pick(&[None, Some(Duration::from_millis(1)), Some(Duration::from_millis(10))]);
    // generous timeout: a harness client that is descheduled for a few hundred milliseconds on a loaded machine must not
    // look unresponsive
    let (interval_ms, timeout_ms) = (100u64, 1000u64);
    let nmsgs = 2400usize;
    let replay = vec!["c12".to_string(), "--seed".into(), seed.to_string(), "--busy".into(), k.to_string()];
    let port = hvcommon::net::free_port("127.0.0.1");
    let addr: SocketAddr = format!("127.0.0.1:{}", port).parse().unwrap();
    let state = Arc::new(St { log: Mutex::new(Vec::new()) });
    let (ws_tx, ws_rx) = channel();
    let (app_tx, app_rx) = channel();
    let mut wsapp: AsyncWebsocketApp<Arc<St>> = AsyncWebsocketApp::new_unlinked_with_config(state.clone(), 1).with_polling_interval(poll).with_shutdown(ws_rx).with_heartbeat(Heartbeat::new(Duration::from_millis(interval_ms), Duration::from_millis(timeout_ms)));
    wsapp.on_connect(|s: AsyncStream, st: Arc<Arc<St>>| {
        st.log.lock().unwrap().push((Ev::Connect(s.peer_addr()), Instant::now()));
    });
    wsapp.on_disconnect(|s: AsyncStream, st: Arc<Arc<St>>| {
        st.log.lock().unwrap().push((Ev::Disconnect(s.peer_addr()), Instant::now()));
    });
    wsapp.on_message(|s: AsyncStream, m: Message, st: Arc<Arc<St>>| {
        let text = String::from_utf8_lossy(m.bytes()).to_string();
        let id = text.splitn(3, ':').nth(1).unwrap_or("").to_string();
        st.log.lock().unwrap().push((Ev::Message(s.peer_addr(), id), Instant::now()));
    });
    let hook = wsapp.connect_hook().unwrap();
    let app: App<()> = App::new_with_config(2, ()).with_websocket_route("/ws", async_websocket_handler(hook)).with_shutdown(app_rx);
    std::thread::spawn(move || {
        let _ = app.run(addr);
    });
    let (done_tx, done_rx) = channel();
    std::thread::spawn(move || {
        wsapp.run();
        done_tx.send(()).ok();
    });
    for _ in 0..400 {
        if TcpStream::connect(addr).is_ok() {
            break;
        }
        std::thread::sleep(Duration::from_millis(3));
    }
    let mut steps = Vec::new();
    for j in 0..nmsgs {
        steps.push(Step::Send('N', format!("b{}", j), 1, false));
        steps.push(Step::Pause(1000));
    }
    let plan = ClientPlan { steps, graceful: true, leaves_early: true };
    let st3 = state.clone();
    let res = run_client(addr, plan, seed ^ k, Arc::new(AtomicBool::new(false)), Arc::new(AtomicBool::new(true)), move |a| st3.log.lock().unwrap().iter().any(|(e, _)| *e == Ev::Connect(a)));
    // the disconnect that follows the client's own Close
    let t = Instant::now();
    while t.elapsed() < Duration::from_secs(8) && !state.log.lock().unwrap().iter().any(|(e, _)| matches!(e, Ev::Disconnect(_))) {
        std::thread::sleep(Duration::from_millis(5));
    }
    ws_tx.send(()).ok();
    let returned = done_rx.recv_timeout(Duration::from_secs(10)).is_ok();
    app_tx.send(()).ok();
    r.eval();
    r.count("busy_heartbeat_scenarios", 1);
    r.nontrivial(0xb5b5_0000 + k);
    let log: Vec<(Ev, Instant)> = state.log.lock().unwrap().clone();
    let desc = J::obj(vec![("heartbeat_interval_ms", J::u(interval_ms)), ("heartbeat_timeout_ms", J::u(timeout_ms)), ("poll_interval_ms", poll.map(|p| J::u(p.as_millis() as u64)).unwrap_or(J::Null)), ("messages", J::u(nmsgs as u64)), ("client_period_ms", J::u(1))]);
    let mut viol = |r: &mut Report, sig: &str, what: String| {
        r.violation(sig, format!("[busy client, heartbeat {} ms / timeout {} ms, poll {:?}] {}", interval_ms, timeout_ms, poll, what), J::obj(vec![("scenario", desc.clone()), ("observed", J::s(&what))]), replay.clone());
    };
    if !returned {
        viol(r, "C12/run-did-not-return", "AsyncWebsocketApp::run had not returned 10 s after the shutdown signal".into());
    }
    if res.bad_frames.iter().any(|b| b.starts_with("HARNESS:")) || res.sent.len() < nmsgs {
        // the client could not send everything: either the harness failed or the server hung up on it (judged below)
        if res.local.is_none() {
            r.inconclusive("busy-heartbeat client could not complete its handshake");
            return;
        }
    }
    let last_sent = res.sent.last().map(|x| x.1);
    let span_ms = match (res.sent.first(), res.sent.last()) {
        (Some(a), Some(b)) => b.1.duration_since(a.1).as_millis() as u64,
        _ => 0,
    };
    r.max("busy_client_sending_span_ms", span_ms);
    let discs: Vec<Instant> = log.iter().filter(|(e, _)| matches!(e, Ev::Disconnect(_))).map(|x| x.1).collect();
    let dispatched: Vec<String> = log.iter().filter_map(|(e, _)| if let Ev::Message(_, id) = e { Some(id.clone()) } else { None }).collect();
    let want: Vec<String> = (0..nmsgs).map(|j| format!("b{}", j)).collect();
    if let (Some(d), Some(ls)) = (discs.first(), last_sent) {
        if *d < ls {
            viol(r, "C12/healthy-client-disconnected", format!("the disconnect handler ran {} ms before the client had sent its last message, although the client answered every ping it received ({} pongs sent) and never stopped talking; {} of {} messages dispatched", ls.duration_since(*d).as_millis(), res.pongs.len(), dispatched.len(), nmsgs));
            return;
        }
    }
    if dispatched != want {
        let first = dispatched.iter().zip(want.iter()).position(|(a, b)| a != b).unwrap_or(dispatched.len().min(want.len()));
        viol(r, if dispatched.len() < want.len() { "C12/message-lost" } else { "C12/message-dispatched-twice" }, format!("{} of {} messages of the busy client dispatched (first difference at #{})", dispatched.len(), nmsgs, first));
        return;
    }
    if discs.len() != 1 {
        viol(r, "C12/disconnect-not-exactly-once", format!("{} Disconnect events for the busy client after its Close", discs.len()));
        return;
    }
    if span_ms < timeout_ms * 2 {
        r.inconclusive(format!("busy client finished sending in {} ms, less than twice the heartbeat timeout", span_ms));
        return;
    }
    r.count("busy_clients_kept_and_fully_dispatched", 1);
}

/// The external App has a connection timeout (it governs the wait for an HTTP request, not the WebSocket that the
/// connection becomes): a healthy client whose fragments - or whose halves of one frame - are further apart than that
/// timeout is dispatched exactly like a fast one, and is not disconnected.
fn slow_fragments_scenario(r: &mut Report, seed: u64, k: u64) {
    let mut rng = Rng::derive(seed, 0x12c0_0000 + k);
    let timeout_ms = *rng.pick(&[150u64, 250]);
    let gap_ms = timeout_ms * 2 + 150;
    let poll: Option<Duration> = *rng.pick(&[None, Some(Duration::from_millis(1)), Some(Duration::from_millis(10))]);
    let replay = vec!["c12".to_string(), "--seed".into(), seed.to_string(), "--slowfrag".into(), k.to_string()];
    let port = hvcommon::net::free_port("127.0.0.1");
    let addr: SocketAddr = format!("127.0.0.1:{}", port).parse().unwrap();
    let state = Arc::new(St { log: Mutex::new(Vec::new()) });
    let (ws_tx, ws_rx) = channel();
    let (app_tx, app_rx) = channel();
    let mut wsapp: AsyncWebsocketApp<Arc<St>> = AsyncWebsocketApp::new_unlinked_with_config(state.clone(), 1).with_polling_interval(poll).with_shutdown(ws_rx);
    // (one handler thread: with several, two messages dispatched in order may reach the log in either order)
    wsapp.on_connect(|s: AsyncStream, st: Arc<Arc<St>>| {
        st.log.lock().unwrap().push((Ev::Connect(s.peer_addr()), Instant::now()));
    });
    wsapp.on_disconnect(|s: AsyncStream, st: Arc<Arc<St>>| {
        st.log.lock().unwrap().push((Ev::Disconnect(s.peer_addr()), Instant::now()));
    });
    wsapp.on_message(|s: AsyncStream, m: Message, st: Arc<Arc<St>>| {
        st.log.lock().unwrap().push((Ev::Message(s.peer_addr(), String::from_utf8_lossy(m.bytes()).to_string()), Instant::now()));
    });
    let hook = wsapp.connect_hook().unwrap();
    let app: App<()> = App::new_with_config(2, ()).with_websocket_route("/ws", async_websocket_handler(hook)).with_connection_timeout(Some(Duration::from_millis(timeout_ms))).with_shutdown(app_rx);
    std::thread::spawn(move || {
        let _ = app.run(addr);
    });
    let (done_tx, done_rx) = channel();
    std::thread::spawn(move || {
        wsapp.run();
        done_tx.send(()).ok();
    });
    for _ in 0..400 {
        if TcpStream::connect(addr).is_ok() {
            break;
        }
        std::thread::sleep(Duration::from_millis(3));
    }
    r.eval();
    r.count("slow_fragment_scenarios", 1);
    r.nontrivial(0xc000_0000 + k);
    let (mut a, a_local) = match ws_connect(addr) {
        Ok(x) => x,
        Err(e) => {
            r.inconclusive(format!("slow-fragments scenario: {}", e));
            return;
        }
    };
    let t = Instant::now();
    while !state.log.lock().unwrap().iter().any(|(e, _)| *e == Ev::Connect(a_local)) && t.elapsed() < Duration::from_secs(5) {
        std::thread::sleep(Duration::from_millis(1));
    }
    // message 1: three fragments, `gap_ms` apart; message 2: one frame written in two halves `gap_ms` apart; message 3 at once
    let frag = [RefFrame::new(1, false, Some([1, 2, 3, 4]), b"slow-".to_vec()).encode(), RefFrame::new(0, false, Some([5, 6, 7, 8]), b"frag-".to_vec()).encode(), RefFrame::new(0, true, Some([9, 1, 2, 3]), format!("ments-{}", k).into_bytes()).encode()];
    let whole = RefFrame::new(1, true, Some([4, 3, 2, 1]), format!("two-halves-{}", k).into_bytes()).encode();
    let mut pieces: Vec<Vec<u8>> = frag.to_vec();
    pieces.push(whole[..whole.len() / 2].to_vec());
    pieces.push(whole[whole.len() / 2..].to_vec());
    let mut sent_all = true;
    for (i, p) in pieces.iter().enumerate() {
        if i > 0 {
            std::thread::sleep(Duration::from_millis(gap_ms));
        }
        if a.s.write_all(p).is_err() {
            sent_all = false;
            break;
        }
    }
    let last = RefFrame::new(1, true, Some([7, 7, 7, 7]), format!("END-{}", k).into_bytes()).encode();
    sent_all = sent_all && a.s.write_all(&last).is_ok();
    let want = vec![format!("slow-frag-ments-{}", k), format!("two-halves-{}", k), format!("END-{}", k)];
    let t = Instant::now();
    let observed = loop {
        let log = state.log.lock().unwrap();
        let msgs: Vec<String> = log.iter().filter_map(|(e, _)| match e { Ev::Message(p, m) if *p == a_local => Some(m.clone()), _ => None }).collect();
        let gone = log.iter().any(|(e, _)| *e == Ev::Disconnect(a_local));
        drop(log);
        if msgs.len() >= want.len() || gone || t.elapsed() > Duration::from_secs(8) {
            break (msgs, gone);
        }
        std::thread::sleep(Duration::from_millis(5));
    };
    let ex = J::obj(vec![("app_connection_timeout_ms", J::u(timeout_ms)), ("gap_between_pieces_ms", J::u(gap_ms)), ("poll_interval_ms", poll.map(|p| J::u(p.as_millis() as u64)).unwrap_or(J::Null)), ("dispatched", J::arr_s(&observed.0)), ("disconnect_handler_ran", J::Bool(observed.1)), ("client_could_send_everything", J::Bool(sent_all))]);
    if observed.1 {
        r.violation("C12/disconnect-of-connected-client", format!("[slow fragments: app connection timeout {} ms, pieces {} ms apart] the disconnect handler ran for a client that never closed; dispatched so far {:?}", timeout_ms, gap_ms, observed.0), ex, replay);
    } else if observed.0 != want {
        r.violation("C12/message-lost", format!("[slow fragments: app connection timeout {} ms, pieces {} ms apart] dispatched {:?}, the client sent {:?}", timeout_ms, gap_ms, observed.0, want), ex, replay);
    } else {
        r.count("slow_fragment_clients_fully_dispatched", 1);
    }
    let _ = a.s.write_all(&RefFrame::new(8, true, Some([1, 1, 1, 1]), vec![0x03, 0xe8]).encode());
    std::thread::sleep(Duration::from_millis(50));
    ws_tx.send(()).ok();
    let _ = done_rx.recv_timeout(Duration::from_secs(10));
    app_tx.send(()).ok();
}

fn bulk_byte(i: usize, k: u64) -> u8 {
    b'a' + ((i as u64).wrapping_mul(7).wrapping_add(i as u64 >> 9).wrapping_add(k) % 26) as u8
}

/// Large server-side sends to a client that is slow to read: a unicast of several MiB (more than the kernel will
/// buffer) requested by a client that then does not read for a while, followed by a small unicast and a broadcast.
/// Everything must arrive complete and well-framed once the client reads (the app may block meanwhile; it must not
/// cut the message short).
/// Sizes around the three RFC 6455 length forms and their neighbours, for server-side sends (seeded C12-L).
const SWEEP_SIZES: [usize; 16] = [0, 125, 126, 127, 128, 65534, 65535, 65536, 65537, 70_000, 100_000, 131_071, 131_072, 131_073, 200_000, 1 << 20];

fn bulk_scenario(r: &mut Report, seed: u64, k: u64, sweep: bool) {
    let mut rng = Rng::derive(seed, 0x12b0_0000 + k + if sweep { 0x8000 } else { 0 });
    let mib = *rng.pick(&[6usize, 12, 16]);
    let pause_ms = if sweep { 5 } else { *rng.pick(&[300u64, 700, 1000]) };
    // in a sweep scenario the unicast and the external broadcast have boundary sizes instead
    let (sweep_uni, sweep_bc) = (SWEEP_SIZES[k as usize % 16].max(1), SWEEP_SIZES[(k as usize * 7 + 3) % 16]);
    let poll: Option<Duration> = *rng.pick(&[None, Some(Duration::from_millis(1)), Some(Duration::from_millis(10))]);
    let handlers = rng.urange(1, 4);
    let replay = vec!["c12".to_string(), "--seed".into(), seed.to_string(), if sweep { "--sizes" } else { "--bulk" }.into(), k.to_string()];
    let port = hvcommon::net::free_port("127.0.0.1");
    let addr: SocketAddr = format!("127.0.0.1:{}", port).parse().unwrap();
    let state = Arc::new(St { log: Mutex::new(Vec::new()) });
    let (ws_tx, ws_rx) = channel();
    let (app_tx, app_rx) = channel();
    let mut wsapp: AsyncWebsocketApp<Arc<St>> = AsyncWebsocketApp::new_unlinked_with_config(state.clone(), handlers).with_polling_interval(poll).with_shutdown(ws_rx);
    wsapp.on_connect(|s: AsyncStream, st: Arc<Arc<St>>| {
        st.log.lock().unwrap().push((Ev::Connect(s.peer_addr()), Instant::now()));
    });
    wsapp.on_disconnect(|s: AsyncStream, st: Arc<Arc<St>>| {
        st.log.lock().unwrap().push((Ev::Disconnect(s.peer_addr()), Instant::now()));
    });
    wsapp.on_message(|s: AsyncStream, m: Message, st: Arc<Arc<St>>| {
        let text = String::from_utf8_lossy(m.bytes()).to_string();
        st.log.lock().unwrap().push((Ev::Message(s.peer_addr(), text.clone()), Instant::now()));
        let mut parts = text.split(':');
        if parts.next() == Some("BULK") {
            let k: u64 = parts.next().and_then(|x| x.parse().ok()).unwrap_or(0);
            let n: usize = parts.next().and_then(|x| x.parse().ok()).unwrap_or(0);
            let big: Vec<u8> = (0..n).map(|i| bulk_byte(i, k)).collect();
            s.send(Message::new(String::from_utf8(big).unwrap()));
            s.send(Message::new(format!("TAIL:{}", k)));
        }
    });
    let hook = wsapp.connect_hook().unwrap();
    let sender = wsapp.sender();
    let app: App<()> = App::new_with_config(4, ()).with_websocket_route("/ws", async_websocket_handler(hook)).with_shutdown(app_rx);
    std::thread::spawn(move || {
        let _ = app.run(addr);
    });
    let (done_tx, done_rx) = channel();
    std::thread::spawn(move || {
        wsapp.run();
        done_tx.send(()).ok();
    });
    for _ in 0..400 {
        if TcpStream::connect(addr).is_ok() {
            break;
        }
        std::thread::sleep(Duration::from_millis(3));
    }
    r.eval();
    r.count(if sweep { "size_sweep_scenarios" } else { "bulk_scenarios" }, 1);
    r.nontrivial(if sweep { 0xb800_0000 } else { 0xb000_0000 } + k);
    let n = if sweep { sweep_uni } else { mib << 20 };
    let xb_text = if sweep { format!("XB:{}:{}", k, "x".repeat(sweep_bc)) } else { format!("XB:{}", k) };
    let desc = J::obj(vec![("unicast_bytes", J::u(n as u64)), ("client_pause_before_reading_ms", J::u(pause_ms)), ("poll_interval_ms", poll.map(|p| J::u(p.as_millis() as u64)).unwrap_or(J::Null)), ("handler_threads", J::u(handlers as u64))]);
    let connected = |a: SocketAddr, st: &Arc<St>| st.log.lock().unwrap().iter().any(|(e, _)| *e == Ev::Connect(a));
    let (mut a, a_local) = match ws_connect(addr) {
        Ok(x) => x,
        Err(e) => {
            r.inconclusive(format!("bulk scenario: {}", e));
            return;
        }
    };
    let (mut b, b_local) = match ws_connect(addr) {
        Ok(x) => x,
        Err(e) => {
            r.inconclusive(format!("bulk scenario: {}", e));
            return;
        }
    };
    let t = Instant::now();
    while !(connected(a_local, &state) && connected(b_local, &state)) && t.elapsed() < Duration::from_secs(5) {
        std::thread::sleep(Duration::from_millis(1));
    }
    // let both streams go idle for a few poll rounds, then ask for the bulk unicast and do not read
    std::thread::sleep(Duration::from_millis(30));
    let req = RefFrame::new(1, true, Some([9, 8, 7, 6]), format!("BULK:{}:{}", k, n).into_bytes()).encode();
    if a.s.write_all(&req).is_err() {
        r.inconclusive("bulk scenario: request could not be sent");
        return;
    }
    std::thread::sleep(Duration::from_millis(pause_ms));
    // a broadcast submitted while the unicast is (possibly) still being written
    sender.broadcast(Message::new(xb_text.clone()));
    // now read: big text, TAIL, XB in this order on A; XB on B
    let read_texts = |c: &mut Conn, want: usize, limit: Duration| -> (Vec<Vec<u8>>, Option<String>) {
        let mut got: Vec<Vec<u8>> = Vec::new();
        let t = Instant::now();
        loop {
            loop {
                match wsref::decode(&c.buf) {
                    Dec::Frame(f, used) => {
                        let raw: Vec<u8> = c.buf.drain(..used).collect();
                        if let Err(e) = wsref::validate_server_frame(&raw, &f) {
                            let msg = format!("frame #{} is not a well-formed unmasked server frame: {} ({})", got.len(), e, hvcommon::util::hex(&raw[..raw.len().min(12)]));
                            return (got, Some(msg));
                        }
                        if f.opcode == 1 {
                            got.push(f.payload);
                        } else if f.opcode != 9 && f.opcode != 10 {
                            let msg = format!("unexpected opcode {} after {} text frames", f.opcode, got.len());
                            return (got, Some(msg));
                        }
                    }
                    Dec::Incomplete => break,
                }
            }
            if got.len() >= want {
                return (got, None);
            }
            if c.eof {
                let msg = format!("connection ended after {} of {} expected messages with {} undecoded bytes buffered", got.len(), want, c.buf.len());
                return (got, Some(msg));
            }
            if t.elapsed() > limit {
                let msg = format!("only {} of {} expected messages within {:?} ({} bytes of an incomplete frame buffered)", got.len(), want, limit, c.buf.len());
                return (got, Some(msg));
            }
            c.fill(Duration::from_millis(50));
        }
    };
    let (got_a, err_a) = read_texts(&mut a, 3, Duration::from_secs(20));
    let (got_b, err_b) = read_texts(&mut b, 1, Duration::from_secs(20));
    let mut viol = |r: &mut Report, sig: &str, what: String| {
        r.violation(sig, format!("[bulk: {} byte unicast, {} byte external broadcast, client starts reading after {} ms, poll {:?}] {}", n, xb_text.len(), pause_ms, poll, what), J::obj(vec![("scenario", desc.clone()), ("observed", J::s(&what))]), replay.clone());
    };
    let describe = |m: &Vec<u8>| if m.len() > 40 { format!("{} bytes", m.len()) } else { format!("{:?}", show(m, 40)) };
    match err_a {
        Some(e) => viol(r, "C12/unicast-truncated", format!("the requesting client did not receive its unicasts intact: {} (received so far: {:?})", e, got_a.iter().map(describe).collect::<Vec<_>>())),
        None => {
            // the broadcast comes from another thread: it may be queued before, between or after the handler's two unicasts
            // (building the large message takes the handler a while); the unicasts themselves keep their order
            let xb = xb_text.clone().into_bytes();
            let nxb = got_a.iter().filter(|m| **m == xb).count();
            let uni: Vec<&Vec<u8>> = got_a.iter().filter(|m| **m != xb).collect();
            let big_ok = uni.len() == 2 && uni[0].len() == n && uni[0].iter().enumerate().all(|(i, b)| *b == bulk_byte(i, k));
            if !big_ok {
                viol(r, "C12/unicast-truncated", format!("the client received {:?} instead of the {}-byte unicast, TAIL and one broadcast", got_a.iter().map(describe).collect::<Vec<_>>(), n));
            } else if *uni[1] != format!("TAIL:{}", k).into_bytes() || nxb != 1 {
                viol(r, "C12/unicast-lost", format!("besides the large unicast the client received {:?} instead of TAIL and exactly one broadcast", got_a.iter().map(describe).collect::<Vec<_>>()));
            } else {
                r.count(if sweep { "size_sweep_unicasts_intact" } else { "bulk_unicasts_intact" }, 1);
                r.count("bulk_bytes_delivered", n as u64);
            }
        }
    }
    match err_b {
        Some(e) => viol(r, "C12/broadcast-missed", format!("the idle second client did not receive the broadcast: {}", e)),
        None if got_b[0] != xb_text.as_bytes() => viol(r, "C12/message-foreign", format!("the idle second client received {} instead of the broadcast", describe(&got_b[0]))),
        None => r.count(if sweep { "size_sweep_broadcasts_received_by_idle_client" } else { "bulk_broadcasts_received_by_idle_client" }, 1),
    }
    // close both, shut down
    for c in [&mut a, &mut b] {
        let _ = c.s.write_all(&RefFrame::new(8, true, Some([1, 1, 1, 1]), vec![0x03, 0xe8]).encode());
    }
    std::thread::sleep(Duration::from_millis(50));
    ws_tx.send(()).ok();
    if done_rx.recv_timeout(Duration::from_secs(10)).is_err() {
        viol(r, "C12/run-did-not-return", "AsyncWebsocketApp::run had not returned 10 s after the shutdown signal".into());
    }
    app_tx.send(()).ok();
}

pub fn main(args: &Args) {
    let out = args.get("out").expect("--out");
    let seed = args.seed();
    let only = args.get("scenario").map(|s| s.parse::<u64>().unwrap());
    let n: u64 = if args.thorough() { 1500 } else { 160 };
    let nbulk: u64 = if args.thorough() { 64 } else { 8 };
    let bulk_only = args.get("bulk").map(|s| s.parse::<u64>().unwrap());
    let sizes_only = args.get("sizes").map(|s| s.parse::<u64>().unwrap());
    let nsizes: u64 = if args.thorough() { 64 } else { 16 };
    let nbusy: u64 = if args.thorough() { 48 } else { 8 };
    let busy_only = args.get("busy").map(|s| s.parse::<u64>().unwrap());
    let nslow: u64 = if args.thorough() { 64 } else { 8 };
    let args_slowfrag = args.get("slowfrag").map(|s| s.parse::<u64>().unwrap());
    humphrey::verif::set_failpoint_handler(fp_handler);
    let reports = par(if only.is_some() || bulk_only.is_some() || sizes_only.is_some() || busy_only.is_some() || args_slowfrag.is_some() { 1 } else { 8 }, move |shard, nsh| {
        let mut r = Report::new();
        if let Some(b) = bulk_only {
            bulk_scenario(&mut r, seed, b, false);
            return r;
        }
        if let Some(b) = sizes_only {
            bulk_scenario(&mut r, seed, b, true);
            return r;
        }
        if only.is_none() {
            let mut b = shard as u64;
            while b < nbulk {
                bulk_scenario(&mut r, seed, b, false);
                b += nsh as u64;
            }
            let mut b = shard as u64;
            while b < nsizes {
                bulk_scenario(&mut r, seed, b, true);
                b += nsh as u64;
            }
        }
        if let Some(b) = args_slowfrag {
            slow_fragments_scenario(&mut r, seed, b);
            return r;
        }
        if only.is_none() && bulk_only.is_none() && busy_only.is_none() && sizes_only.is_none() {
            let mut b = shard as u64;
            while b < nslow {
                slow_fragments_scenario(&mut r, seed, b);
                b += nsh as u64;
            }
        }
        if let Some(b) = busy_only {
            busy_heartbeat_scenario(&mut r, seed, b);
            return r;
        }
        if only.is_none() {
            let mut b = shard as u64;
            while b < nbusy {
                busy_heartbeat_scenario(&mut r, seed, b);
                b += nsh as u64;
            }
        }
        let mut k = only.unwrap_or(shard as u64);
        while k < n || only == Some(k) {
            scenario(&mut r, seed, k);
            if only.is_some() {
                break;
            }
            k += nsh as u64;
        }
        r
    });
    let _ = ncpu;
    let mut total = Report::merge_all(reports);
    total.max("max_ms_between_poll_loop_iterations", MAX_POLL_GAP_MS.load(Ordering::Relaxed));
    if only.is_some() {
        total.nontrivial(1);
        total.nontrivial(2);
    }
    total.write(out, "scenarios of 1..8 reference clients against AsyncWebsocketApp::new_unlinked_with_config linked to a real App through async_websocket_handler: handler pools of 1 (every other scenario) or 2..8 threads, poll interval none / 1 ms / 10 ms, heartbeat off or (100 ms, 1.5 s); each client runs a random script over {text/binary messages in 1..4 fragments with pings interleaved, several per poll interval, ping, pauses <= 5 ms}, a quarter leave early with Close, with heartbeat a quarter disconnect abruptly; messages marked U trigger a unicast reply from the handler, B a broadcast; every connect handler broadcasts a join notice, an external AsyncSender broadcasts concurrently; half of the fragmented messages are sent fragment by fragment with pauses, a third of the others with every frame cut in two writes (anywhere in header, key or payload) 0.8-3.3 ms apart; seeded delays at the three poll-loop failpoints; ends with shutdown of both apps; plus bulk scenarios: a client requests a 6..16 MiB unicast and does not read for 0.3..1 s (more than the kernel buffers), then must receive it intact followed by a small unicast and a broadcast, which an idle second client must receive too; size-sweep scenarios of the same shape with unicast and external-broadcast sizes at and around the three frame-length forms (0..128, 65534..65537, 70 000, 100 000, 131 071..131 073, 200 000, 1 MiB); and busy-heartbeat scenarios: heartbeat 100 ms / timeout 1 s, one client sending a message every millisecond for ~3 s while answering every ping: it must stay connected and all 2400 messages must be dispatched in order. distinct = distinct scenarios; every scenario is non-trivial (all events of all clients are judged)", None, &["order is asserted only with a single handler thread (with more, handler entry order may legitimately differ from dispatch order)", "a broadcast must reach a client exactly once if that client's Connect was logged before the broadcast was submitted and it stayed until the final barrier", "abruptly disconnected clients: at-most-once and no foreign ids (the kernel may discard their unread bytes)"]);
}

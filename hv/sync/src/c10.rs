//! C10: WebSocket frames encode to the RFC 6455 layout and decode back under any split.
//! Monitor: bytes from the crate's serialiser are compared with the reference encoder; frames returned
//! by the crate's decoder over scripted readers are compared with the fields that were encoded.

use humphrey_ws::error::WebsocketError;
use humphrey_ws::verif::{decode, encode, FrameParts};
use humphrey_ws::Message;
use hvcommon::args::Args;
use hvcommon::json::J;
use hvcommon::reader::{plan_from_string, plan_to_string, plans_for, Plan, ScriptedReader};
use hvcommon::report::Report;
use hvcommon::rng::Rng;
use hvcommon::util::{fnv, hex, ncpu, panic_msg, par, show, unhex};
use hvcommon::wsref::{self, Dec, RefFrame};
use std::panic::{catch_unwind, AssertUnwindSafe};

const OPCODES: [u8; 6] = [0, 1, 2, 8, 9, 10];
const LENGTHS: [usize; 11] = [0, 1, 124, 125, 126, 127, 128, 65534, 65535, 65536, 65537];

fn parts_of(f: &RefFrame) -> FrameParts {
    FrameParts { fin: f.fin, rsv: f.rsv, opcode: f.opcode, mask: f.mask.is_some(), length: f.payload.len() as u64, masking_key: f.mask.unwrap_or([0; 4]), payload: f.payload.clone() }
}

fn frame_json(f: &RefFrame) -> J {
    J::obj(vec![("fin", J::Bool(f.fin)), ("rsv", J::s(format!("{:?}", f.rsv))), ("opcode", J::u(f.opcode as u64)), ("mask_key", f.mask.map(|k| J::s(hex(&k))).unwrap_or(J::Null)), ("payload_len", J::u(f.payload.len() as u64)), ("payload_head", J::s(hex(&f.payload[..f.payload.len().min(16)])))])
}

fn replay_frame(f: &RefFrame, plan: &Plan) -> Vec<String> {
    vec!["c10".into(), "--frame".into(), format!("{}:{}{}{}:{}:{}:{}", f.fin as u8, f.rsv[0] as u8, f.rsv[1] as u8, f.rsv[2] as u8, f.opcode, f.mask.map(|k| hex(&k)).unwrap_or("-".into()), f.payload.len()), "--payload-seed".into(), fnv(&f.payload).to_string(), "--plan".into(), plan_to_string(plan)]
}

fn check_encode(r: &mut Report, f: &RefFrame) -> Vec<u8> {
    r.eval();
    r.count("encodes", 1);
    let want = f.encode();
    let got = catch_unwind(AssertUnwindSafe(|| encode(parts_of(f))));
    let rep = replay_frame(f, &Plan::Fill);
    match got {
        Err(p) => r.violation("C10/encode:panic", format!("frame serialiser panicked: {}", panic_msg(&*p)), frame_json(f), rep),
        Ok(Err(e)) => r.violation("C10/encode:error", format!("frame serialiser refused a valid frame: {:?}", e), frame_json(f), rep),
        Ok(Ok(g)) => {
            if g != want {
                // narrow classification of the difference
                let hdr = want.len() - f.payload.len();
                let sig = if g.len() == want.len() && g[..hdr] == want[..hdr] && f.mask.is_some() && g[hdr..] == f.payload[..] {
                    "C10/encode:masked-payload-not-masked"
                } else if g.len() != want.len() || g[..hdr.min(g.len())] != want[..hdr.min(g.len())] {
                    "C10/encode:header-layout"
                } else {
                    "C10/encode:payload"
                };
                r.violation(sig, format!("serialised frame differs from RFC 6455 5.2 layout (got {} .. expected {} ..)", hex(&g[..g.len().min(20)]), hex(&want[..want.len().min(20)])), J::obj(vec![("frame", frame_json(f)), ("got_head", J::s(hex(&g[..g.len().min(32)]))), ("expected_head", J::s(hex(&want[..want.len().min(32)])))]), rep.clone());
            }
            // the crate's own decoder must return the frame its encoder was given
            r.eval();
            r.count("sut_roundtrips", 1);
            match catch_unwind(AssertUnwindSafe(|| decode(ScriptedReader::new(&g, Plan::Fill)))) {
                Ok(Ok(p)) => {
                    if p.payload != f.payload || p.fin != f.fin || p.opcode != f.opcode || p.rsv != f.rsv || p.mask != f.mask.is_some() {
                        r.violation("C10/roundtrip:encode-then-decode-differs", "decode(encode(frame)) is not the frame (payload or header fields differ)", J::obj(vec![("frame", frame_json(f)), ("decoded_payload_head", J::s(hex(&p.payload[..p.payload.len().min(16)])))]), rep);
                    }
                }
                Ok(Err(e)) => r.violation("C10/roundtrip:decode-error", format!("decode(encode(frame)) fails: {:?}", e), frame_json(f), rep),
                Err(p) => r.violation("C10/decode:panic", format!("decoder panicked: {}", panic_msg(&*p)), frame_json(f), rep),
            }
        }
    }
    want
}

fn check_decode(r: &mut Report, f: &RefFrame, wire: &[u8], plan: &Plan) {
    r.eval();
    r.count("decodes", 1);
    let got = catch_unwind(AssertUnwindSafe(|| decode(ScriptedReader::new(wire, plan.clone()))));
    let rep = replay_frame(f, plan);
    let ex = |why: &str| J::obj(vec![("frame", frame_json(f)), ("read_plan", J::s(plan_to_string(plan))), ("wire_head", J::s(hex(&wire[..wire.len().min(24)]))), ("why", J::s(why))]);
    match got {
        Err(p) => r.violation("C10/decode:panic", format!("decoder panicked: {}", panic_msg(&*p)), ex("panic"), rep),
        Ok(Err(e)) => r.violation(&format!("C10/decode:rejects-valid:{:?}", e), format!("decoder rejects a complete valid frame under plan {}: {:?}", plan_to_string(plan), e), ex("error"), rep),
        Ok(Ok(p)) => {
            let mut bad = Vec::new();
            if p.fin != f.fin {
                bad.push("fin");
            }
            if p.rsv != f.rsv {
                bad.push("rsv");
            }
            if p.opcode != f.opcode {
                bad.push("opcode");
            }
            if p.mask != f.mask.is_some() {
                bad.push("mask");
            }
            if p.length != f.payload.len() as u64 {
                bad.push("length");
            }
            if p.masking_key != f.mask.unwrap_or([0; 4]) {
                bad.push("key");
            }
            if p.payload != f.payload {
                bad.push("payload");
            }
            if !bad.is_empty() {
                r.violation(&format!("C10/decode:wrong-{}", bad.join("+")), format!("decoded frame differs in {} under plan {}", bad.join(","), plan_to_string(plan)), ex(&bad.join(",")), rep);
            }
        }
    }
}

/// Several frames back to back in ONE stream, decoded one after the other from the same reader: each decode returns
/// its frame and leaves the following frames' bytes in the stream (a decoder must consume exactly its own frame).
fn check_sequence(r: &mut Report, frames: &[RefFrame], plan: &Plan) {
    let mut wire = Vec::new();
    let mut ends = Vec::new();
    for f in frames {
        wire.extend(f.encode());
        ends.push(wire.len());
    }
    r.eval();
    r.count("frame_sequences", 1);
    let mut rd = ScriptedReader::new(&wire, plan.clone());
    let rep = vec!["c10".to_string(), "--sequence".into(), hex(&wire[..wire.len().min(600)]), "--plan".into(), plan_to_string(plan)];
    for (i, f) in frames.iter().enumerate() {
        let got = catch_unwind(AssertUnwindSafe(|| decode(&mut rd)));
        let ex = |why: &str| J::obj(vec![("frames_in_stream", J::u(frames.len() as u64)), ("index", J::u(i as u64)), ("frame", frame_json(f)), ("read_plan", J::s(plan_to_string(plan))), ("why", J::s(why))]);
        match got {
            Err(p) => {
                r.violation("C10/decode:panic", format!("decoder panicked on frame #{} of a stream of {}: {}", i, frames.len(), panic_msg(&*p)), ex("panic"), rep);
                return;
            }
            Ok(Err(e)) => {
                r.violation("C10/sequence:frame-lost", format!("frame #{} of {} back-to-back frames in one stream is rejected ({:?}) under plan {}: the preceding decode did not leave its bytes in the stream", i, frames.len(), e, plan_to_string(plan)), ex("error"), rep);
                return;
            }
            Ok(Ok(p)) => {
                if p.payload != f.payload || p.opcode != f.opcode || p.fin != f.fin || p.mask != f.mask.is_some() {
                    r.violation("C10/sequence:frame-garbled", format!("frame #{} of {} back-to-back frames decodes to something else under plan {}", i, frames.len(), plan_to_string(plan)), ex("differs"), rep);
                    return;
                }
                if rd.consumed() > ends[i] && i + 1 < frames.len() {
                    // bytes of the next frame were taken from the stream and are gone (nothing hands them back)
                    r.violation("C10/sequence:read-ahead-discarded", format!("decoding frame #{} consumed {} bytes of the stream although the frame ends at byte {}: the next frame's first bytes are lost", i, rd.consumed(), ends[i]), ex("over-consumption"), rep);
                    return;
                }
            }
        }
    }
    r.count("frame_sequences_intact", 1);
}

fn gen_payload(rng: &mut Rng, n: usize) -> Vec<u8> {
    match rng.below(3) {
        0 => rng.bytes(n),
        1 => (0..n).map(|i| (i % 251) as u8).collect(),
        _ => (0..n).map(|_| *rng.pick(&[0x00u8, 0xff, 0x80, 0x7f, 0x41])).collect(),
    }
}

fn check_header_case(r: &mut Report, b0: u8, b1: u8, complete: bool) {
    // remainder: exact when complete, otherwise one byte short of exact (or nothing)
    let masked = b1 & 0x80 != 0;
    let l7 = (b1 & 0x7f) as usize;
    let mut wire = vec![b0, b1];
    let plen = match l7 {
        126 => {
            wire.extend_from_slice(&[0x01, 0x00]);
            256
        }
        127 => {
            wire.extend_from_slice(&[0, 0, 0, 0, 0, 1, 0, 1]);
            65537
        }
        n => n,
    };
    if masked {
        wire.extend_from_slice(&[0xde, 0xad, 0xbe, 0xef]);
    }
    wire.extend((0..plen).map(|i| (i * 7 % 256) as u8));
    let opcode = b0 & 0x0f;
    let reserved = !OPCODES.contains(&opcode);
    if !complete {
        if wire.len() == 2 {
            wire.pop();
        } else {
            wire.pop();
        }
    }
    r.eval();
    r.count("header_cases", 1);
    r.nontrivial(((b0 as u64) << 16 | (b1 as u64) << 8 | complete as u64) ^ 0xc10);
    let plan = if (b0 ^ b1) & 1 == 0 { Plan::Fill } else { Plan::Bytewise };
    let got = catch_unwind(AssertUnwindSafe(|| decode(ScriptedReader::new(&wire, plan.clone()))));
    let rep = vec!["c10".into(), "--header".into(), format!("{:02x}{:02x}", b0, b1), "--complete".into(), (complete as u8).to_string()];
    let ex = |why: &str| J::obj(vec![("header", J::s(format!("{:02x} {:02x}", b0, b1))), ("complete", J::Bool(complete)), ("wire_len", J::u(wire.len() as u64)), ("read_plan", J::s(plan_to_string(&plan))), ("why", J::s(why))]);
    match got {
        Err(p) => r.violation("C10/decode:panic", format!("decoder panicked on header {:02x}{:02x}: {}", b0, b1, panic_msg(&*p)), ex("panic"), rep),
        Ok(res) => match (reserved, complete, res) {
            (true, _, Err(WebsocketError::InvalidOpcode)) => r.count("reserved_opcode_rejected", 1),
            (true, false, Err(WebsocketError::ReadError)) => r.count("reserved_and_truncated_read_error", 1),
            (true, _, other) => r.violation("C10/reserved-opcode-not-rejected", format!("reserved opcode {:#x} gives {:?}", opcode, other.map(|p| p.opcode)), ex("reserved opcode"), rep),
            (false, false, Err(WebsocketError::ReadError)) => r.count("truncated_read_error", 1),
            (false, false, other) => r.violation("C10/truncated-not-read-error", format!("truncated frame gives {:?} instead of ReadError", other.map(|p| p.length)), ex("truncated"), rep),
            (false, true, Ok(p)) => {
                r.count("complete_header_frames", 1);
                match wsref::decode(&wire) {
                    Dec::Frame(f, used) => {
                        if used != wire.len() || p.payload != f.payload || p.opcode != f.opcode || p.fin != f.fin || p.rsv != f.rsv || p.mask != f.mask.is_some() || p.length != f.payload.len() as u64 {
                            r.violation("C10/decode:wrong-fields", "decoded frame differs from the reference decoding", ex("fields"), rep);
                        }
                    }
                    Dec::Incomplete => r.harness_error("reference decoder finds a complete header case incomplete"),
                }
            }
            (false, true, Err(e)) => r.violation(&format!("C10/decode:rejects-valid:{:?}", e), format!("complete frame with header {:02x}{:02x} rejected: {:?}", b0, b1, e), ex("rejected"), rep),
        },
    }
}

fn check_to_frame(r: &mut Report, payload: &[u8], binary: bool) {
    r.eval();
    r.count("to_frame_cases", 1);
    let msg = if binary { Message::new_binary(payload) } else { Message::new(payload) };
    let text = msg.is_text();
    let wire = msg.to_frame();
    let rep = vec!["c10".into(), "--to-frame-hex".into(), hex(&payload[..payload.len().min(4096)]), "--binary".into(), (binary as u8).to_string()];
    match wsref::decode(&wire) {
        Dec::Frame(f, used) => {
            let want_op = if text { 1 } else { 2 };
            if used != wire.len() || !f.fin || f.rsv != [false; 3] || f.mask.is_some() || f.opcode != want_op || f.payload != payload || wsref::validate_server_frame(&wire, &f).is_err() {
                r.violation("C10/to_frame:not-single-unmasked-fin-frame", "Message::to_frame is not one unmasked FIN text/binary frame carrying the payload", J::obj(vec![("payload", J::s(show(payload, 60))), ("wire_head", J::s(hex(&wire[..wire.len().min(24)])))]), rep);
            }
        }
        Dec::Incomplete => r.violation("C10/to_frame:truncated", "Message::to_frame produced an incomplete frame", J::s(hex(&wire[..wire.len().min(24)])), rep),
    }
}

pub fn main(args: &Args) {
    let out = args.get("out").expect("--out");
    let seed = args.seed();
    if let Some(spec) = args.get("frame") {
        // fin:rsv:opcode:key:len  (+ --payload-seed for identification only; payload regenerated as pattern)
        let p: Vec<&str> = spec.split(':').collect();
        let fin = p[0] == "1";
        let rsv = [&p[1][0..1] == "1", &p[1][1..2] == "1", &p[1][2..3] == "1"];
        let opcode: u8 = p[2].parse().unwrap();
        let mask = if p[3] == "-" { None } else { let k = unhex(p[3]).unwrap(); Some([k[0], k[1], k[2], k[3]]) };
        let len: usize = p[4].parse().unwrap();
        let f = RefFrame { fin, rsv, opcode, mask, payload: (0..len).map(|i| (i % 251) as u8).collect() };
        let mut r = Report::new();
        let wire = check_encode(&mut r, &f);
        check_decode(&mut r, &f, &wire, &plan_from_string(args.get("plan").unwrap_or("fill")).unwrap());
        r.nontrivial(1);
        r.nontrivial(2);
        r.write(out, "replay of one frame (pattern payload)", None, &[]);
        return;
    }
    if let Some(h) = args.get("header") {
        let b = unhex(h).unwrap();
        let mut r = Report::new();
        check_header_case(&mut r, b[0], b[1], args.get("complete") == Some("1"));
        r.nontrivial(1);
        r.write(out, "replay of one header case", None, &[]);
        return;
    }
    if let Some(h) = args.get("to-frame-hex") {
        let mut r = Report::new();
        check_to_frame(&mut r, &unhex(h).unwrap(), args.get("binary") == Some("1"));
        r.nontrivial(1);
        r.nontrivial(2);
        r.write(out, "replay of one to_frame case", None, &[]);
        return;
    }
    let thorough = args.thorough();
    let reports = par(ncpu(), move |shard, nsh| {
        let mut r = Report::new();
        let mut rng = Rng::derive(seed, 1000 + shard as u64);
        let mut idx = 0usize;
        // (1) the full grid FIN x RSV x opcode x mask mode x length class
        for fin in [false, true] {
            for rsvbits in 0..8u8 {
                for op in OPCODES {
                    for mm in 0..4 {
                        for len in LENGTHS {
                            idx += 1;
                            if idx % nsh != shard {
                                continue;
                            }
                            let mask = match mm {
                                0 => None,
                                1 => Some([0u8; 4]),
                                2 => Some([0xff; 4]),
                                _ => {
                                    let k = rng.bytes(4);
                                    Some([k[0], k[1], k[2], k[3]])
                                }
                            };
                            let f = RefFrame { fin, rsv: [rsvbits & 4 != 0, rsvbits & 2 != 0, rsvbits & 1 != 0], opcode: op, mask, payload: gen_payload(&mut rng, len) };
                            r.nontrivial(fnv(&f.encode()[..f.encode().len().min(64)]) ^ (len as u64) << 40);
                            r.count("grid_frames", 1);
                            let wire = check_encode(&mut r, &f);
                            let plans = plans_for(wire.len(), &mut rng, 300, if len > 60000 && !thorough { 6 } else { 64 }, 3);
                            r.max("max_plans_per_frame", plans.len() as u64);
                            for p in &plans {
                                check_decode(&mut r, &f, &wire, p);
                            }
                            if shard == 0 && r.samples.len() < 3 && mm == 3 {
                                r.sample(J::obj(vec![("frame", frame_json(&f)), ("wire_head", J::s(hex(&wire[..wire.len().min(16)]))), ("read_plans", J::u(plans.len() as u64))]));
                            }
                        }
                    }
                }
            }
        }
        // (2) random frames incl. random lengths (to 1 MiB in thorough, 100 KiB in quick)
        let nrand = (if thorough { 6000 } else { 600 }) / nsh;
        for _ in 0..nrand {
            let len = match rng.below(4) {
                0 => rng.urange(0, 130),
                1 => rng.urange(65000, 66000),
                2 => rng.urange(0, 5000),
                _ => rng.urange(0, if thorough { 1 << 20 } else { 100_000 }),
            };
            let mask = if rng.chance(2, 3) { let k = rng.bytes(4); Some([k[0], k[1], k[2], k[3]]) } else { None };
            let f = RefFrame { fin: rng.chance(1, 2), rsv: [rng.chance(1, 8), rng.chance(1, 8), rng.chance(1, 8)], opcode: *rng.pick(&OPCODES), mask, payload: gen_payload(&mut rng, len) };
            r.nontrivial(fnv(&f.payload) ^ 0x4a);
            r.count("random_frames", 1);
            r.max("max_payload_len", len as u64);
            let wire = check_encode(&mut r, &f);
            for p in plans_for(wire.len(), &mut rng, 300, 8, 3) {
                check_decode(&mut r, &f, &wire, &p);
            }
        }
        // (2b) sequences of 2..4 short frames in one stream, under whole / bytewise / every split point
        for q in 0..(if thorough { 400 } else { 60 }) / nsh + 1 {
            let n = rng.urange(2, 4);
            let frames: Vec<RefFrame> = (0..n)
                .map(|_| {
                    let len = *rng.pick(&[0usize, 1, 2, 5, 20, 125, 126, 300]);
                    let mask = if rng.chance(2, 3) { let k = rng.bytes(4); Some([k[0], k[1], k[2], k[3]]) } else { None };
                    RefFrame { fin: rng.chance(1, 2), rsv: [false; 3], opcode: *rng.pick(&OPCODES), mask, payload: gen_payload(&mut rng, len) }
                })
                .collect();
            let total: usize = frames.iter().map(|f| f.encode().len()).sum();
            r.nontrivial(fnv(&frames.iter().flat_map(|f| f.encode()).collect::<Vec<u8>>()) ^ 0x5e9 ^ q as u64);
            for p in plans_for(total, &mut rng, 200, 8, 3) {
                check_sequence(&mut r, &frames, &p);
            }
        }
        // (3) all 256 x 256 headers, truncated and complete
        for b0 in 0..=255u8 {
            if (b0 as usize) % nsh != shard {
                continue;
            }
            for b1 in 0..=255u8 {
                check_header_case(&mut r, b0, b1, true);
                check_header_case(&mut r, b0, b1, false);
            }
        }
        // (3b) 64-bit length claims that no sequence of bytes can satisfy (>= 2^63: not even allocatable), followed by a
        // few bytes and EOF: a truncated frame like any other, so a read error
        if shard == 0 {
            for claim in [1u64 << 63, (1u64 << 63) + 1, u64::MAX - 1, u64::MAX] {
                for masked in [false, true] {
                    for tail in [0usize, 1, 7, 64] {
                        let mut wire = vec![0x82u8, if masked { 0xff } else { 0x7f }];
                        wire.extend_from_slice(&claim.to_be_bytes());
                        if masked {
                            wire.extend_from_slice(&[1, 2, 3, 4]);
                        }
                        wire.extend((0..tail).map(|i| i as u8));
                        for plan in [Plan::Fill, Plan::Bytewise] {
                            r.eval();
                            r.count("unsatisfiable_length_claims", 1);
                            let rep = vec!["c10".into(), "--claim".into(), claim.to_string()];
                            let ex = J::obj(vec![("claimed_length", J::s(claim.to_string())), ("masked", J::Bool(masked)), ("bytes_after_header", J::u(tail as u64)), ("wire_hex", J::s(hex(&wire[..wire.len().min(24)])))]);
                            match catch_unwind(AssertUnwindSafe(|| decode(ScriptedReader::new(&wire, plan.clone())))) {
                                Ok(Err(WebsocketError::ReadError)) => r.count("truncated_read_error", 1),
                                Ok(other) => r.violation("C10/truncated-not-read-error", format!("a frame claiming {} payload bytes followed by {} bytes and EOF gives {:?} instead of ReadError", claim, tail, other.map(|p| p.length)), ex, rep),
                                Err(p) => r.violation("C10/truncated-not-read-error", format!("a frame claiming {} payload bytes followed by {} bytes and EOF makes the decoder panic: {}", claim, tail, panic_msg(&*p)), ex, rep),
                            }
                        }
                    }
                }
            }
        }
        // (4) Message::to_frame
        for len in LENGTHS.iter().chain([3usize, 17, 200, 70000].iter()) {
            if len % nsh != shard % nsh.min(3) && nsh > 1 && (len + shard) % nsh != 0 {
                continue;
            }
            let p = gen_payload(&mut rng, *len);
            check_to_frame(&mut r, &p, true);
            check_to_frame(&mut r, &p, false);
            let t: Vec<u8> = (0..*len).map(|i| b'a' + (i % 26) as u8).collect();
            check_to_frame(&mut r, &t, false);
            r.nontrivial(fnv(&t) ^ 0x70f);
        }
        r
    });
    let total = Report::merge_all(reports);
    total.write(out, "all frames over FIN x RSV1-3 (8) x 6 opcodes x mask {off, key 0, key ff, random key} x payload lengths {0,1,124,125,126,127,128,65534,65535,65536,65537} with generated payloads: serialised bytes vs the reference RFC 6455 encoder, then decoded under every split point (<= 300 B) or 64 random split points (6 for >60 KB frames in quick) + whole + bytewise + 3 multi-split plans; random frames with lengths to 100 KiB (1 MiB thorough); sequences of 2..4 frames in one stream decoded one after the other (exact consumption); all 256 x 256 two-byte headers with complete and one-byte-short remainders; truncated frames claiming >= 2^63 payload bytes; Message::to_frame. distinct = distinct wire prefixes/header cases; all counted cases are non-trivial (each exercises header + length + mask logic)", Some(false), &["64-bit length claims beyond the supplied bytes but below 2^63 (which a decoder could try to allocate, aborting the harness process) are C03's subject, run there in isolated processes; claims >= 2^63 are checked here", "reference: hvcommon::wsref (RFC 6455 5.2 encoder/decoder written independently)"]);
}

//! C20 (threaded runtime): a shutdown signal always ends `run`, promptly, and frees the port.

use humphrey::http::{Request, Response, StatusCode};
use humphrey::stream::Stream;
use humphrey::App;
use hvcommon::args::Args;
use hvcommon::report::Report;
use hvcommon::rng::Rng;
use hvcommon::shutlab::{self, RunningApp, Scenario};
use hvcommon::util::{ncpu, par};
use std::collections::HashMap;
use std::io::Read;
use std::net::{SocketAddr, TcpListener, TcpStream};
use std::sync::atomic::{AtomicU64, Ordering};
use std::sync::mpsc::{channel, Receiver, Sender};
use std::sync::{Arc, Mutex};
use std::time::{Duration, Instant};

pub struct St {
    started: Mutex<HashMap<String, Instant>>,
}

fn qget(q: &str, k: &str) -> Option<String> {
    q.split('&').find_map(|kv| kv.split_once('=').filter(|(a, _)| *a == k).map(|(_, b)| b.to_string()))
}

fn mark(req: &Request, st: &St) -> String {
    let id = qget(&req.query, "id").unwrap_or_default();
    st.started.lock().unwrap().insert(id.clone(), Instant::now());
    id
}

static FP_PLAN: AtomicU64 = AtomicU64::new(0);

fn fp_handler(name: &'static str) {
    let plan = FP_PLAN.load(Ordering::Relaxed);
    if plan == 0 {
        return;
    }
    // two accept-loop points: delays of 0..4 ms chosen by the plan move the signal across the flag check
    let k = match name {
        "app.accept.before_flag_check" => plan & 0xff,
        "app.shutdown.after_store" => (plan >> 8) & 0xff,
        _ => 0,
    };
    if k % 4 != 0 {
        std::thread::sleep(Duration::from_micros((k % 40) * 100));
    }
}

struct SyncApp {
    addr: SocketAddr,
    tx: Option<Sender<()>>,
    done: Receiver<Instant>,
    state: Arc<St>,
    accepted: Arc<Mutex<HashMap<SocketAddr, Instant>>>,
}

fn start(pool: usize, bind: &str) -> Result<SyncApp, String> {
    let port = hvcommon::net::free_port(bind);
    let addr: SocketAddr = format!("{}:{}", bind, port).parse().unwrap();
    let (tx, rx) = channel();
    let (dtx, drx) = channel();
    let app: App<St> = App::new_with_config(pool, St { started: Mutex::new(HashMap::new()) })
        .with_route("/fast", |req: Request, st: Arc<St>| {
            let id = mark(&req, &st);
            Response::new(StatusCode::OK, format!("fast:{}", id))
        })
        .with_route("/slow", |req: Request, st: Arc<St>| {
            let id = mark(&req, &st);
            let ms: u64 = qget(&req.query, "ms").and_then(|s| s.parse().ok()).unwrap_or(0);
            std::thread::sleep(Duration::from_millis(ms));
            Response::new(StatusCode::OK, format!("slow:{}", id))
        })
        .with_route("/big", |req: Request, st: Arc<St>| {
            mark(&req, &st);
            let kb: usize = qget(&req.query, "kb").and_then(|s| s.parse().ok()).unwrap_or(1);
            Response::new(StatusCode::OK, vec![b'x'; kb * 1024])
        })
        .with_websocket_route("/ws", |req: Request, mut stream: Stream, st: Arc<St>| {
            mark(&req, &st);
            // an open WebSocket: the handler holds the stream until the peer goes away
            let mut b = [0u8; 256];
            while let Ok(n) = stream.read(&mut b) {
                if n == 0 {
                    break;
                }
            }
        })
        .with_shutdown(rx);
    // the application's own report of accepted connections (emitted by the accept thread before it hands them to the pool)
    let (mtx, mrx) = channel();
    let app = app.with_monitor(humphrey::monitor::MonitorConfig::new(mtx).with_subscription_to(humphrey::monitor::event::EventType::ConnectionSuccess));
    let accepted: Arc<Mutex<HashMap<SocketAddr, Instant>>> = Arc::new(Mutex::new(HashMap::new()));
    let acc2 = accepted.clone();
    std::thread::spawn(move || {
        while let Ok(ev) = mrx.recv() {
            if let Some(peer) = ev.peer {
                acc2.lock().unwrap().entry(peer).or_insert_with(Instant::now);
            }
        }
    });
    let state = app.get_state();
    std::thread::spawn(move || {
        let _ = app.run(addr);
        dtx.send(Instant::now()).ok();
    });
    let probe: SocketAddr = if addr.ip().is_unspecified() { format!("{}:{}", if addr.is_ipv4() { "127.0.0.1" } else { "[::1]" }, port).parse().unwrap() } else { addr };
    for _ in 0..400 {
        if let Ok(s) = TcpStream::connect(probe) {
            drop(s);
            return Ok(SyncApp { addr, tx: Some(tx), done: drx, state, accepted });
        }
        std::thread::sleep(Duration::from_millis(3));
    }
    Err(format!("lab app on {} did not start", addr))
}

impl RunningApp for SyncApp {
    fn addr(&self) -> SocketAddr {
        self.addr
    }
    fn take_signaller(&mut self) -> Box<dyn FnOnce() + Send> {
        let tx = self.tx.take().expect("signal already sent");
        Box::new(move || {
            tx.send(()).ok();
        })
    }
    fn wait_returned(&mut self, timeout: Duration) -> Option<Instant> {
        self.done.recv_timeout(timeout).ok()
    }
    fn handler_started(&self, id: &str) -> Option<Instant> {
        self.state.started.lock().unwrap().get(id).copied()
    }
    fn accepted_at(&self, client: SocketAddr) -> Option<Instant> {
        self.accepted.lock().unwrap().get(&client).copied()
    }
    fn runtime(&self) -> &'static str {
        "threaded"
    }
}

/// An application whose connection condition keeps the accept thread busy (it waits up to 1.2 s for the first byte
/// of each new connection): the signal arrives while a silent client is being examined. When `run` returns - however
/// long that takes within the bound - the port must be free at that moment, not some time later.
fn slow_condition_scenario(r: &mut Report, k: u64) {
    fn wait_first_byte(stream: &mut TcpStream, _: Arc<()>) -> bool {
        let _ = stream.set_read_timeout(Some(Duration::from_millis(1200)));
        let mut b = [0u8; 1];
        let _ = stream.peek(&mut b);
        let _ = stream.set_read_timeout(None);
        true
    }
    let port = hvcommon::net::free_port("127.0.0.1");
    let addr: SocketAddr = format!("127.0.0.1:{}", port).parse().unwrap();
    let (tx, rx) = channel();
    let (dtx, drx) = channel();
    let app: App<()> = App::new_with_config(2, ()).with_route("/fast", |_: Request, _: Arc<()>| Response::new(StatusCode::OK, "fast")).with_connection_condition(wait_first_byte).with_shutdown(rx);
    std::thread::spawn(move || {
        let _ = app.run(addr);
        dtx.send(Instant::now()).ok();
    });
    // readiness: a probe that sends at once (so that the condition lets it through immediately)
    let mut up = false;
    for _ in 0..400 {
        if let Ok(mut s) = TcpStream::connect(addr) {
            use std::io::Write;
            let _ = s.write_all(b"GET /fast HTTP/1.1\r\nHost: hv\r\nConnection: close\r\n\r\n");
            let mut sink = Vec::new();
            let _ = s.set_read_timeout(Some(Duration::from_secs(5)));
            let _ = s.read_to_end(&mut sink);
            up = sink.starts_with(b"HTTP/1.1 200");
            break;
        }
        std::thread::sleep(Duration::from_millis(3));
    }
    r.eval();
    r.count("slow_condition_scenarios", 1);
    r.nontrivial(0x20c0_0000 + k);
    if !up {
        r.inconclusive("slow-condition app did not start serving");
        return;
    }
    // the silent client the accept thread will be busy with, then the signal
    let silent = TcpStream::connect(addr);
    std::thread::sleep(Duration::from_millis(100 + (k % 4) * 150));
    let t_signal = Instant::now();
    tx.send(()).ok();
    let replay = vec!["c20".to_string(), "--slow-condition".into(), k.to_string()];
    match drx.recv_timeout(Duration::from_secs(10)) {
        Err(_) => r.violation("C20/run-did-not-return:threaded", "[threaded] run() had not returned 10 s after the shutdown signal (accept thread busy in the connection condition)".to_string(), hvcommon::json::J::Null, replay),
        Ok(t) => {
            r.max("max_ms_signal_to_return", t.saturating_duration_since(t_signal).as_millis() as u64);
            match std::net::TcpListener::bind(addr) {
                Ok(l) => {
                    drop(l);
                    r.count("rebinds_ok", 1);
                    r.count("slow_condition_rebinds_ok", 1);
                }
                Err(e) => r.violation("C20/port-not-free:threaded", format!("[threaded] run() returned {} ms after the signal while the accept thread was still examining a connection; re-binding {} at that moment failed: {}", t.saturating_duration_since(t_signal).as_millis(), addr, e), hvcommon::json::J::Null, replay),
            }
        }
    }
    drop(silent);
}

/// "Until the signal is sent the server keeps serving": while the accept thread is busy with one connection (a condition
/// that waits up to 400 ms for the first byte), other clients connect and go away again before they are accepted - one
/// with a reset (SO_LINGER 0), one with a normal close. Whatever `accept` and the calls on such a socket report, the
/// server serves the next clients, `run` has not returned, and the signal still ends it (seeded C20-M).
fn reset_in_backlog_scenario(r: &mut Report, k: u64) {
    use std::io::Write;
    fn wait_first_byte(stream: &mut TcpStream, _: Arc<()>) -> bool {
        let _ = stream.set_read_timeout(Some(Duration::from_millis(400)));
        let mut b = [0u8; 1];
        let _ = stream.peek(&mut b);
        let _ = stream.set_read_timeout(None);
        true
    }
    let port = hvcommon::net::free_port("127.0.0.1");
    let addr: SocketAddr = format!("127.0.0.1:{}", port).parse().unwrap();
    let (tx, rx) = channel();
    let (dtx, drx) = channel();
    let app: App<()> = App::new_with_config(2 + (k % 3) as usize, ()).with_route("/fast", |_: Request, _: Arc<()>| Response::new(StatusCode::OK, "fast")).with_connection_condition(wait_first_byte).with_shutdown(rx);
    std::thread::spawn(move || {
        let _ = app.run(addr);
        dtx.send(Instant::now()).ok();
    });
    let ask = |wait_ms: u64| -> bool {
        match TcpStream::connect(addr) {
            Ok(mut s) => {
                let _ = s.write_all(b"GET /fast HTTP/1.1\r\nHost: hv\r\nConnection: close\r\n\r\n");
                let mut sink = Vec::new();
                let _ = s.set_read_timeout(Some(Duration::from_millis(wait_ms)));
                let _ = s.read_to_end(&mut sink);
                sink.starts_with(b"HTTP/1.1 200")
            }
            Err(_) => false,
        }
    };
    let mut up = false;
    for _ in 0..400 {
        if TcpStream::connect(addr).is_ok() {
            up = ask(5000);
            break;
        }
        std::thread::sleep(Duration::from_millis(3));
    }
    r.eval();
    r.count("reset_in_backlog_scenarios", 1);
    r.nontrivial(0x20c8_0000 + k);
    if !up {
        r.inconclusive("reset-in-backlog app did not start serving");
        return;
    }
    let replay = vec!["c20".to_string(), "--reset-in-backlog".into(), k.to_string()];
    // (the readiness probe's own silent connect is examined first: give the accept thread time to get past it)
    std::thread::sleep(Duration::from_millis(450));
    for round in 0..(2 + k % 2) {
        // A keeps the accept thread busy in the condition ...
        let mut a = match TcpStream::connect(addr) {
            Ok(a) => a,
            Err(e) => {
                r.violation("C20/stopped-serving-without-signal:threaded", format!("[threaded] round {}: connecting failed ({}) although no shutdown signal was sent", round, e), hvcommon::json::J::Null, replay);
                return;
            }
        };
        std::thread::sleep(Duration::from_millis(50));
        // ... while B is reset and C closed in the accept queue
        for reset in [true, false, true] {
            if let Ok(s) = socket2::Socket::new(socket2::Domain::IPV4, socket2::Type::STREAM, None) {
                if s.connect_timeout(&addr.into(), Duration::from_secs(2)).is_ok() {
                    if reset {
                        let _ = s.set_linger(Some(Duration::from_secs(0)));
                    }
                    r.count(if reset { "connections_reset_before_accept" } else { "connections_closed_before_accept" }, 1);
                }
                drop(s);
            }
        }
        std::thread::sleep(Duration::from_millis(30));
        let _ = a.write_all(b"GET /fast HTTP/1.1\r\nHost: hv\r\nConnection: close\r\n\r\n");
        let mut sink = Vec::new();
        let _ = a.set_read_timeout(Some(Duration::from_secs(5)));
        let _ = a.read_to_end(&mut sink);
        std::thread::sleep(Duration::from_millis(500));
        if drx.try_recv().is_ok() {
            r.violation("C20/run-returned-without-signal:threaded", format!("[threaded] run() returned although no shutdown signal was sent, after clients reset / closed their connections while these were still in the accept queue (round {})", round), hvcommon::json::J::Null, replay);
            return;
        }
        let served = (0..3).filter(|_| ask(5000)).count();
        if served < 3 {
            r.violation("C20/stopped-serving-without-signal:threaded", format!("[threaded] after clients reset / closed their connections while these were still in the accept queue (round {}), only {} of 3 further clients were served, although no shutdown signal was sent", round, served), hvcommon::json::J::Null, replay);
            return;
        }
        r.count("served_after_resets_in_the_accept_queue", 3);
    }
    let t_signal = Instant::now();
    tx.send(()).ok();
    match drx.recv_timeout(Duration::from_secs(10)) {
        Err(_) => r.violation("C20/run-did-not-return:threaded", "[threaded] run() had not returned 10 s after the shutdown signal (after connections were reset in the accept queue)".to_string(), hvcommon::json::J::Null, replay),
        Ok(t) => {
            r.max("max_ms_signal_to_return", t.saturating_duration_since(t_signal).as_millis() as u64);
            match std::net::TcpListener::bind(addr) {
                Ok(l) => {
                    drop(l);
                    r.count("rebinds_ok", 1);
                }
                Err(e) => r.violation("C20/port-not-free:threaded", format!("[threaded] re-binding {} after run() returned failed: {}", addr, e), hvcommon::json::J::Null, replay),
            }
        }
    }
}

/// A connection condition that turns every new connection away (an application closing its doors before it stops):
/// the shutdown signal still ends run(), whatever the condition says about the connection that wakes the accept loop.
fn rejecting_condition_scenario(r: &mut Report, k: u64) {
    use std::sync::atomic::{AtomicBool, Ordering};
    fn doors_open(_: &mut TcpStream, closed: Arc<AtomicBool>) -> bool {
        !closed.load(Ordering::SeqCst)
    }
    let port = hvcommon::net::free_port("127.0.0.1");
    let addr: SocketAddr = format!("127.0.0.1:{}", port).parse().unwrap();
    let (tx, rx) = channel();
    let (dtx, drx) = channel();
    let app: App<AtomicBool> = App::new_with_config(2, AtomicBool::new(false)).with_route("/fast", |_: Request, _: Arc<AtomicBool>| Response::new(StatusCode::OK, "fast")).with_connection_condition(doors_open).with_shutdown(rx);
    let state = app.get_state();
    std::thread::spawn(move || {
        let _ = app.run(addr);
        dtx.send(Instant::now()).ok();
    });
    let ask = |addr: SocketAddr| -> Option<Vec<u8>> {
        use std::io::Write;
        let mut s = TcpStream::connect(addr).ok()?;
        let _ = s.write_all(b"GET /fast HTTP/1.1\r\nHost: hv\r\nConnection: close\r\n\r\n");
        let mut sink = Vec::new();
        let _ = s.set_read_timeout(Some(Duration::from_secs(5)));
        let _ = s.read_to_end(&mut sink);
        Some(sink)
    };
    let mut up = false;
    for _ in 0..400 {
        if let Some(a) = ask(addr) {
            up = a.starts_with(b"HTTP/1.1 200");
            break;
        }
        std::thread::sleep(Duration::from_millis(3));
    }
    r.eval();
    r.count("rejecting_condition_scenarios", 1);
    r.nontrivial(0x20d0_0000 + k);
    if !up {
        r.inconclusive("rejecting-condition app did not start serving");
        return;
    }
    state.store(true, Ordering::SeqCst);
    if k % 2 == 0 {
        // seen from outside: connections are now turned away
        if ask(addr).map(|a| a.is_empty()) == Some(true) {
            r.count("connections_turned_away_by_condition", 1);
        }
    }
    std::thread::sleep(Duration::from_millis(20 + (k % 4) * 40));
    let t_signal = Instant::now();
    tx.send(()).ok();
    let replay = vec!["c20".to_string(), "--rejecting-condition".into(), k.to_string()];
    match drx.recv_timeout(Duration::from_secs(10)) {
        Err(_) => r.violation("C20/run-did-not-return:threaded", "[threaded] run() had not returned 10 s after the shutdown signal (the connection condition rejects every connection, also the one that wakes the accept loop)".to_string(), hvcommon::json::J::Null, replay),
        Ok(t) => {
            r.max("max_ms_signal_to_return", t.saturating_duration_since(t_signal).as_millis() as u64);
            match std::net::TcpListener::bind(addr) {
                Ok(l) => {
                    drop(l);
                    r.count("rebinds_ok", 1);
                    r.count("rejecting_condition_returns_and_rebinds_ok", 1);
                }
                Err(e) => r.violation("C20/port-not-free:threaded", format!("[threaded] run() returned with a rejecting connection condition but re-binding {} failed: {}", addr, e), hvcommon::json::J::Null, replay),
            }
        }
    }
}

pub fn main(args: &Args) {
    let out = args.get("out").expect("--out");
    let seed = args.seed();
    let only = args.get("scenario").map(|s| s.parse::<u64>().unwrap());
    let n: u64 = if args.thorough() { 1500 } else { 160 };
    humphrey::verif::set_failpoint_handler(fp_handler);
    let reports = par(if only.is_some() { 1 } else { ncpu() }, move |shard, nsh| {
        let mut r = Report::new();
        if only.is_none() && shard < 8 {
            slow_condition_scenario(&mut r, shard as u64);
        }
        if only.is_none() && shard >= 8 {
            rejecting_condition_scenario(&mut r, shard as u64);
        }
        if only.is_none() && shard % 2 == 1 {
            reset_in_backlog_scenario(&mut r, shard as u64);
        }
        let mut k = only.unwrap_or(shard as u64);
        while k < n || only == Some(k) {
            let mut rng = Rng::derive(seed, 0x2000_0000 + k);
            let sc: Scenario = shutlab::gen_scenario(&mut rng);
            // the failpoint plan is process-wide: the last writer wins, which only varies the delays further
            FP_PLAN.store(if rng.chance(1, 3) { 0 } else { rng.next_u64() | 1 }, Ordering::Relaxed);
            let replay = vec!["c20".to_string(), "--seed".into(), seed.to_string(), "--scenario".into(), k.to_string()];
            match start(sc.pool, sc.bind) {
                Ok(mut app) => {
                    if k < 2 {
                        r.sample(shutlab::scenario_json(&sc));
                    }
                    r.set_insert("bind_addresses_used", hvcommon::util::fnv(sc.bind.as_bytes()));
                    r.set_insert("signal_timings_used", sc.when.clone() as u64);
                    shutlab::run_scenario(&mut r, &mut app, &sc, &format!("t{}", k), &replay);
                }
                Err(e) => r.inconclusive(e),
            }
            if only.is_some() {
                break;
            }
            k += nsh as u64;
        }
        r
    });
    let mut total = Report::merge_all(reports);
    if only.is_none() || args.get("fdx").is_some() {
        // process-wide (descriptor limit), hence after the sharded part, alone
        let mut r = Report::new();
        for (rounds, in_shortage) in [(1usize, false), (7, true), (3, false)] {
            match start(2, "127.0.0.1") {
                Ok(mut app) => shutlab::fd_exhaustion_scenario(&mut r, &mut app, rounds, in_shortage, &["c20".to_string(), "--fdx".into(), "1".into(), "--scenario".into(), "999999".into()]),
                Err(e) => r.inconclusive(e),
            }
        }
        total = Report::merge_all(vec![total, r]);
    }
    if only.is_some() {
        total.nontrivial(1);
        total.nontrivial(2);
    }
    total.write(out, "traffic states of 0..16 connections each in {just accepted, idle keep-alive, half-sent request, handler running 5 ms / 500 ms / 1.2-3 s, 1-4 MiB response to a reader that is not reading, WebSocket open} on pools of 1..8 threads (incl. fully occupied pools with queued connections), bound to 127.0.0.1, 0.0.0.0 or [::]; signal sent before any connection, after the traffic has settled, or from another thread during the burst of connects; seeded delays at the two accept-loop failpoints; plus applications whose connection condition keeps the accept thread busy for up to 1.2 s per connection, signalled while a silent client is being examined, and clients that reset or close their connections while these are still in the accept queue behind such a connection (the server must go on serving). distinct = distinct scenarios; every scenario is non-trivial (return, re-bind and in-flight responses are judged)", None, &["bounded progress: run must return within 10 s of the signal (typical: milliseconds)", "connections racing with the signal may get a complete response or nothing, never a truncated one; a request on a connection that the application itself had reported as accepted (monitor event ConnectionSuccess) before the signal is not racing: it must be answered even if it was still queued behind occupied workers", "the process is kept alive so that handlers started before the signal can finish (as the property's observation point prescribes)"]);
}

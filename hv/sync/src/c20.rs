//! C20 (threaded runtime): a shutdown signal always ends `run`, promptly, and frees the port.

use humphrey::http::{Request, Response, StatusCode};
use humphrey::stream::Stream;
use humphrey::App;
use hvcommon::args::Args;
use hvcommon::report::Report;
use hvcommon::rng::Rng;
use hvcommon::shutlab::{self, RunningApp, Scenario};
use hvcommon::util::{ncpu, par};
use std::collections::HashMap;
use std::io::Read;
use std::net::{SocketAddr, TcpListener, TcpStream};
use std::sync::atomic::{AtomicU64, Ordering};
use std::sync::mpsc::{channel, Receiver, Sender};
use std::sync::{Arc, Mutex};
use std::time::{Duration, Instant};

pub struct St {
    started: Mutex<HashMap<String, Instant>>,
}

fn qget(q: &str, k: &str) -> Option<String> {
    q.split('&').find_map(|kv| kv.split_once('=').filter(|(a, _)| *a == k).map(|(_, b)| b.to_string()))
}

fn mark(req: &Request, st: &St) -> String {
    let id = qget(&req.query, "id").unwrap_or_default();
    st.started.lock().unwrap().insert(id.clone(), Instant::now());
    id
}

static FP_PLAN: AtomicU64 = AtomicU64::new(0);

fn fp_handler(name: &'static str) {
    let plan = FP_PLAN.load(Ordering::Relaxed);
    if plan == 0 {
        return;
    }
    // two accept-loop points: delays of 0..4 ms chosen by the plan move the signal across the flag check
    let k = match name {
        "app.accept.before_flag_check" => plan & 0xff,
        "app.shutdown.after_store" => (plan >> 8) & 0xff,
        _ => 0,
    };
    if k % 4 != 0 {
        std::thread::sleep(Duration::from_micros((k % 40) * 100));
    }
}

struct SyncApp {
    addr: SocketAddr,
    tx: Option<Sender<()>>,
    done: Receiver<Instant>,
    state: Arc<St>,
}

fn start(pool: usize, bind: &str) -> Result<SyncApp, String> {
    let port = hvcommon::net::free_port(bind);
    let addr: SocketAddr = format!("{}:{}", bind, port).parse().unwrap();
    let (tx, rx) = channel();
    let (dtx, drx) = channel();
    let app: App<St> = App::new_with_config(pool, St { started: Mutex::new(HashMap::new()) })
        .with_route("/fast", |req: Request, st: Arc<St>| {
            let id = mark(&req, &st);
            Response::new(StatusCode::OK, format!("fast:{}", id))
        })
        .with_route("/slow", |req: Request, st: Arc<St>| {
            let id = mark(&req, &st);
            let ms: u64 = qget(&req.query, "ms").and_then(|s| s.parse().ok()).unwrap_or(0);
            std::thread::sleep(Duration::from_millis(ms));
            Response::new(StatusCode::OK, format!("slow:{}", id))
        })
        .with_route("/big", |req: Request, st: Arc<St>| {
            mark(&req, &st);
            let kb: usize = qget(&req.query, "kb").and_then(|s| s.parse().ok()).unwrap_or(1);
            Response::new(StatusCode::OK, vec![b'x'; kb * 1024])
        })
        .with_websocket_route("/ws", |req: Request, mut stream: Stream, st: Arc<St>| {
            mark(&req, &st);
            // an open WebSocket: the handler holds the stream until the peer goes away
            let mut b = [0u8; 256];
            while let Ok(n) = stream.read(&mut b) {
                if n == 0 {
                    break;
                }
            }
        })
        .with_shutdown(rx);
    let state = app.get_state();
    std::thread::spawn(move || {
        let _ = app.run(addr);
        dtx.send(Instant::now()).ok();
    });
    let probe: SocketAddr = if addr.ip().is_unspecified() { format!("{}:{}", if addr.is_ipv4() { "127.0.0.1" } else { "[::1]" }, port).parse().unwrap() } else { addr };
    for _ in 0..400 {
        if let Ok(s) = TcpStream::connect(probe) {
            drop(s);
            return Ok(SyncApp { addr, tx: Some(tx), done: drx, state });
        }
        std::thread::sleep(Duration::from_millis(3));
    }
    Err(format!("lab app on {} did not start", addr))
}

impl RunningApp for SyncApp {
    fn addr(&self) -> SocketAddr {
        self.addr
    }
    fn take_signaller(&mut self) -> Box<dyn FnOnce() + Send> {
        let tx = self.tx.take().expect("signal already sent");
        Box::new(move || {
            tx.send(()).ok();
        })
    }
    fn wait_returned(&mut self, timeout: Duration) -> Option<Instant> {
        self.done.recv_timeout(timeout).ok()
    }
    fn handler_started(&self, id: &str) -> Option<Instant> {
        self.state.started.lock().unwrap().get(id).copied()
    }
    fn runtime(&self) -> &'static str {
        "threaded"
    }
}

pub fn main(args: &Args) {
    let out = args.get("out").expect("--out");
    let seed = args.seed();
    let only = args.get("scenario").map(|s| s.parse::<u64>().unwrap());
    let n: u64 = if args.thorough() { 1500 } else { 160 };
    humphrey::verif::set_failpoint_handler(fp_handler);
    let reports = par(if only.is_some() { 1 } else { ncpu() }, move |shard, nsh| {
        let mut r = Report::new();
        let mut k = only.unwrap_or(shard as u64);
        while k < n || only == Some(k) {
            let mut rng = Rng::derive(seed, 0x2000_0000 + k);
            let sc: Scenario = shutlab::gen_scenario(&mut rng);
            // the failpoint plan is process-wide: the last writer wins, which only varies the delays further
            FP_PLAN.store(if rng.chance(1, 3) { 0 } else { rng.next_u64() | 1 }, Ordering::Relaxed);
            let replay = vec!["c20".to_string(), "--seed".into(), seed.to_string(), "--scenario".into(), k.to_string()];
            match start(sc.pool, sc.bind) {
                Ok(mut app) => {
                    if k < 2 {
                        r.sample(shutlab::scenario_json(&sc));
                    }
                    r.set_insert("bind_addresses_used", hvcommon::util::fnv(sc.bind.as_bytes()));
                    r.set_insert("signal_timings_used", sc.when.clone() as u64);
                    shutlab::run_scenario(&mut r, &mut app, &sc, &format!("t{}", k), &replay);
                }
                Err(e) => r.inconclusive(e),
            }
            if only.is_some() {
                break;
            }
            k += nsh as u64;
        }
        r
    });
    let mut total = Report::merge_all(reports);
    if only.is_some() {
        total.nontrivial(1);
        total.nontrivial(2);
    }
    total.write(out, "traffic states of 0..16 connections each in {just accepted, idle keep-alive, half-sent request, handler running 5 ms / 500 ms / 1.2-3 s, 1-4 MiB response to a reader that is not reading, WebSocket open} on pools of 1..8 threads (incl. fully occupied pools with queued connections), bound to 127.0.0.1, 0.0.0.0 or [::]; signal sent before any connection, after the traffic has settled, or from another thread during the burst of connects; seeded delays at the two accept-loop failpoints. distinct = distinct scenarios; every scenario is non-trivial (return, re-bind and in-flight responses are judged)", None, &["bounded progress: run must return within 10 s of the signal (typical: milliseconds)", "connections racing with the signal may get a complete response or nothing, never a truncated one", "the process is kept alive so that handlers started before the signal can finish (as the property's observation point prescribes)"]);
}

//! `hvm`: socket-free scenarios interpreted by Miri (seeded scheduler; deadlock, data race and UB
//! detection). Prints one line per scenario to stdout; the driver aggregates.

#[path = "../../shared/pool_scenario.rs"]
mod pool_scenario;

use pool_scenario::*;
use std::sync::atomic::AtomicBool;
use std::sync::Arc;

struct MiriEnv;

impl Env for MiriEnv {
    fn pause(&self, _micros: u64) {
        std::thread::yield_now();
    }
    fn keep_waiting(&self, rounds: u64) -> bool {
        rounds < 200_000
    }
}
static ENV: MiriEnv = MiriEnv;

fn fp_handler(_name: &'static str) {
    // a scheduling point: lets Miri's scheduler preempt here
    std::thread::yield_now();
}

fn arg(name: &str) -> Option<String> {
    let a: Vec<String> = std::env::args().collect();
    a.iter().position(|x| x == name).and_then(|i| a.get(i + 1)).cloned()
}

fn c08() {
    let n: usize = arg("--n").and_then(|s| s.parse().ok()).unwrap_or(2);
    let script = script_from(arg("--script").and_then(|s| s.parse().ok()).unwrap_or(0));
    let sc = Scenario::parse(n, &arg("--tasks").unwrap_or_default(), script);
    silence_task_panics();
    humphrey::verif::set_failpoint_handler(fp_handler);
    let log = Log::new();
    let returned = Arc::new(AtomicBool::new(false));
    let o = run(&sc, &ENV, log, returned);
    let mut v = check(&sc, &o);
    if let Some(g) = &o.gave_up {
        v.push(("C08/gave-up-waiting".into(), g.clone()));
    }
    println!("HVM c08 n={} tasks={} script={} fp={:016x} events={} maxrun={} viol={} trace={}", sc.n, arg("--tasks").unwrap_or_default(), script_index(script), fingerprint(&o), o.events.len(), o.max_running, v.iter().map(|(s, w)| format!("{}~{}", s, w.replace(' ', "_"))).collect::<Vec<_>>().join("|"), trace_string(&o).replace(' ', ","));
}

fn pure() {
    // panic/UB-only sweep of pure functions under the interpreter (no oracle beyond "no UB, no panic")
    use humphrey::krauss::wildcard_match;
    use humphrey_ws::verif::{Base64Decode, Base64Encode, SHA1Hash};
    let mut x: u64 = arg("--seed").and_then(|s| s.parse().ok()).unwrap_or(1);
    let mut next = || {
        x ^= x << 13;
        x ^= x >> 7;
        x ^= x << 17;
        x
    };
    let n: usize = arg("--count").and_then(|s| s.parse().ok()).unwrap_or(300);
    let alpha = ['*', 'a', 'b', 'é', '😀'];
    let mut done = 0;
    for _ in 0..n {
        let p: String = (0..next() % 8).map(|_| alpha[(next() % 5) as usize]).collect();
        let t: String = (0..next() % 10).map(|_| alpha[1 + (next() % 4) as usize]).collect();
        std::hint::black_box(wildcard_match(&p, &t));
        let data: Vec<u8> = (0..next() % 70).map(|_| next() as u8).collect();
        let e = data.encode();
        assert_eq!(e.decode().ok().as_deref(), Some(&data[..]));
        std::hint::black_box(data.hash());
        let parts = humphrey_ws::verif::FrameParts { fin: true, rsv: [false; 3], opcode: 2, mask: next() % 2 == 0, length: data.len() as u64, masking_key: [1, 2, 3, 4], payload: data.clone() };
        let w = humphrey_ws::verif::encode(parts).unwrap();
        let back = humphrey_ws::verif::decode(&w[..]).unwrap();
        assert_eq!(back.payload, data);
        done += 1;
    }
    println!("HVM pure calls={}", done * 5);
}

fn main() {
    match std::env::args().nth(1).as_deref() {
        Some("c08") => c08(),
        Some("pure") => pure(),
        _ => eprintln!("usage: hvm c08|pure ..."),
    }
}

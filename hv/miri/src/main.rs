fn main(){}

//! Thread-pool scenarios shared by the native harness (`hv c08`) and the Miri harness (`hvm c08`).
//! A scenario drives the real `humphrey::thread::pool::ThreadPool` through a lifecycle script with
//! harness tasks that append to an event log; `check` is the offline oracle over that log.

use humphrey::monitor::event::{EventLevel, EventType};
use humphrey::monitor::MonitorConfig;
use humphrey::thread::pool::ThreadPool;
use std::sync::atomic::{AtomicBool, AtomicUsize, Ordering};
use std::sync::{Arc, Barrier, Mutex};

#[derive(Clone, Copy, Debug, PartialEq)]
pub enum TaskKind {
    Ret,
    Yield,
    Spin,
    Sleep,
    /// sleeps longer than the pool's 100 ms overload threshold (tasks queued behind it count as overloaded)
    LongSleep,
    PanicBefore,
    PanicAfter,
}

#[derive(Clone, Copy, Debug, PartialEq)]
pub enum Script {
    /// start, execute*, wait, barrier round, stop, drop
    WaitStopDrop,
    /// start, execute*, stop (tasks may still be queued), drop
    StopEarlyDrop,
    /// start, execute*, wait, barrier round, drop (stop never called)
    DropWithoutStop,
    /// start, execute*, drop at once (stop never called, tasks may still be queued)
    DropEarlyWithoutStop,
    /// new, drop (never started)
    NeverStarted,
    /// start, stop, drop (no tasks)
    StartStopDrop,
    /// start, execute first half, wait, stop, start again, execute second half, wait, barrier round, stop, drop
    RestartStopDrop,
    /// the same, ending with drop without the second stop
    RestartDrop,
    /// start, stay idle for longer than five seconds, execute*, wait, barrier round, stop, drop (native harness only)
    IdleThenWork,
}

pub const SCRIPTS: [Script; 9] = [Script::WaitStopDrop, Script::StopEarlyDrop, Script::DropWithoutStop, Script::DropEarlyWithoutStop, Script::NeverStarted, Script::StartStopDrop, Script::RestartStopDrop, Script::RestartDrop, Script::IdleThenWork];

/// how long `IdleThenWork` leaves the started pool without any task
pub const IDLE_MICROS: u64 = 5_600_000;

#[derive(Clone, Debug)]
pub struct Scenario {
    pub n: usize,
    pub tasks: Vec<TaskKind>,
    pub script: Script,
    /// a monitor subscribed to every event is registered on the pool (tasks string starts with `M`)
    pub monitor: bool,
}

impl Scenario {
    /// `tasks`: one character per task (see `kind_from`), optionally preceded by `M` = register a monitor.
    pub fn parse(n: usize, tasks: &str, script: Script) -> Scenario {
        let monitor = tasks.starts_with('M');
        Scenario { n, tasks: tasks.trim_start_matches('M').chars().map(kind_from).collect(), script, monitor }
    }
}

#[derive(Clone, Debug, PartialEq)]
pub enum Ev {
    Start(usize, String),
    Finish(usize),
    Panic(usize),
    /// barrier task passed the barrier (id, worker)
    Barrier(usize, String),
}

pub const PANIC_MARK: &str = "hv-task-panic";

/// Payload of the panics raised with `panic_any`: a task may panic with any `Any + Send` value, not only a string.
#[derive(Debug)]
pub struct TaskPanicPayload(pub u32);

pub struct Log {
    pub events: Mutex<Vec<Ev>>,
    pub running: AtomicUsize,
    pub max_running: AtomicUsize,
    pub done: AtomicUsize,
}

impl Log {
    pub fn new() -> Arc<Log> {
        Arc::new(Log { events: Mutex::new(Vec::new()), running: AtomicUsize::new(0), max_running: AtomicUsize::new(0), done: AtomicUsize::new(0) })
    }
    fn push(&self, e: Ev) {
        // the guard is dropped before any panic is raised, so the monitor never poisons itself
        self.events.lock().unwrap().push(e);
    }
}

fn tname() -> String {
    std::thread::current().name().unwrap_or("?").to_string()
}

pub trait Env: Sync {
    /// small pause used inside tasks and while waiting (native: real sleep; Miri: yield)
    fn pause(&self, micros: u64);
    /// called while the driver waits for the log; returns false when the wait budget is exhausted
    fn keep_waiting(&self, waited_rounds: u64) -> bool;
}

fn make_task(log: Arc<Log>, id: usize, kind: TaskKind, env: &'static dyn Env) -> impl FnOnce() + Send + 'static {
    move || {
        log.push(Ev::Start(id, tname()));
        let r = log.running.fetch_add(1, Ordering::SeqCst) + 1;
        log.max_running.fetch_max(r, Ordering::SeqCst);
        match kind {
            TaskKind::Ret => {}
            TaskKind::Yield => std::thread::yield_now(),
            TaskKind::Spin => {
                let mut x = 0u64;
                for i in 0..2000u64 {
                    x = x.wrapping_mul(31).wrapping_add(i);
                }
                std::hint::black_box(x);
            }
            TaskKind::Sleep => env.pause(300),
            TaskKind::LongSleep => env.pause(130_000),
            TaskKind::PanicBefore => {
                log.running.fetch_sub(1, Ordering::SeqCst);
                log.push(Ev::Panic(id));
                log.done.fetch_add(1, Ordering::SeqCst);
                panic!("{}", PANIC_MARK);
            }
            TaskKind::PanicAfter => {
                env.pause(50);
                log.running.fetch_sub(1, Ordering::SeqCst);
                log.push(Ev::Panic(id));
                log.done.fetch_add(1, Ordering::SeqCst);
                std::panic::panic_any(TaskPanicPayload(id as u32));
            }
        }
        log.running.fetch_sub(1, Ordering::SeqCst);
        log.push(Ev::Finish(id));
        log.done.fetch_add(1, Ordering::SeqCst);
    }
}

pub struct Outcome {
    pub events: Vec<Ev>,
    pub submitted: usize,
    pub barrier_ids: Vec<usize>,
    /// the lifecycle script ran to its end (stop/drop returned)
    pub lifecycle_returned: bool,
    /// waiting for the log gave up (native watchdog)
    pub gave_up: Option<String>,
    pub max_running: usize,
    /// monitor events received, by kind (only when a monitor was registered)
    pub monitor_events: Vec<(String, u64)>,
}

fn wait_done(log: &Log, want: usize, env: &dyn Env) -> bool {
    let mut rounds = 0u64;
    while log.done.load(Ordering::SeqCst) < want {
        if !env.keep_waiting(rounds) {
            return false;
        }
        env.pause(100);
        rounds += 1;
    }
    true
}

/// Runs the lifecycle script on the calling thread. `returned` is set when the script has finished.
pub fn run(sc: &Scenario, env: &'static dyn Env, log: Arc<Log>, returned: Arc<AtomicBool>) -> Outcome {
    let mut out = Outcome { events: Vec::new(), submitted: 0, barrier_ids: Vec::new(), lifecycle_returned: false, gave_up: None, max_running: 0, monitor_events: Vec::new() };
    let mut pool = ThreadPool::new(sc.n);
    let (mtx, mrx) = std::sync::mpsc::channel();
    let register = |pool: &mut ThreadPool| {
        if sc.monitor {
            pool.register_monitor(MonitorConfig::new(mtx.clone()).with_subscription_to(EventLevel::Debug));
        }
    };
    let ntasks = sc.tasks.len();
    match sc.script {
        Script::NeverStarted => {
            drop(pool);
        }
        Script::StartStopDrop => {
            register(&mut pool);
            pool.start();
            pool.stop();
            drop(pool);
        }
        _ => {
            register(&mut pool);
            pool.start();
            if sc.script == Script::IdleThenWork {
                // an idle pool keeps all its workers: nothing may happen to them while no task arrives
                env.pause(IDLE_MICROS);
            }
            let restart = matches!(sc.script, Script::RestartStopDrop | Script::RestartDrop);
            let first_half = if restart { ntasks / 2 } else { ntasks };
            for (id, k) in sc.tasks.iter().enumerate().take(first_half) {
                pool.execute(make_task(log.clone(), id, *k, env));
                out.submitted += 1;
            }
            if restart {
                if !wait_done(&log, first_half, env) {
                    out.gave_up = Some("tasks of the first run did not all execute".into());
                }
                pool.stop();
                register(&mut pool);
                pool.start();
                for (id, k) in sc.tasks.iter().enumerate().skip(first_half) {
                    pool.execute(make_task(log.clone(), id, *k, env));
                    out.submitted += 1;
                }
            }
            let waits = matches!(sc.script, Script::WaitStopDrop | Script::DropWithoutStop | Script::RestartStopDrop | Script::RestartDrop | Script::IdleThenWork);
            if waits {
                if !wait_done(&log, ntasks, env) {
                    out.gave_up = Some("tasks did not all run before the barrier round".into());
                }
                if out.gave_up.is_none() {
                    // N usable workers: N tasks that can only finish if all N run at the same time
                    let bar = Arc::new(Barrier::new(sc.n));
                    for b in 0..sc.n {
                        let id = ntasks + b;
                        let (log2, bar2) = (log.clone(), bar.clone());
                        out.barrier_ids.push(id);
                        out.submitted += 1;
                        pool.execute(move || {
                            log2.push(Ev::Start(id, tname()));
                            bar2.wait();
                            log2.push(Ev::Barrier(id, tname()));
                            log2.push(Ev::Finish(id));
                            log2.done.fetch_add(1, Ordering::SeqCst);
                        });
                    }
                    if !wait_done(&log, ntasks + sc.n, env) {
                        out.gave_up = Some(format!("the {} barrier tasks submitted after the last panic never all ran at the same time: fewer than {} usable workers", sc.n, sc.n));
                    }
                }
            }
            match sc.script {
                Script::WaitStopDrop | Script::StopEarlyDrop | Script::RestartStopDrop | Script::IdleThenWork => {
                    pool.stop();
                    drop(pool);
                }
                _ => drop(pool),
            }
        }
    }
    out.lifecycle_returned = true;
    returned.store(true, Ordering::SeqCst);
    // already-queued tasks must still finish after stop/drop
    if out.gave_up.is_none() && !wait_done(&log, out.submitted, env) {
        out.gave_up = Some("tasks queued before stop/drop never ran".into());
    }
    if sc.monitor {
        let mut counts: Vec<(String, u64)> = Vec::new();
        while let Ok(ev) = mrx.try_recv() {
            let k = match ev.kind {
                EventType::ThreadPoolOverload => "overload",
                EventType::ThreadPoolPanic => "panic",
                EventType::ThreadRestarted => "restarted",
                _ => "other",
            };
            match counts.iter_mut().find(|c| c.0 == k) {
                Some(c) => c.1 += 1,
                None => counts.push((k.to_string(), 1)),
            }
        }
        out.monitor_events = counts;
    }
    out.events = log.events.lock().unwrap().clone();
    out.max_running = log.max_running.load(Ordering::SeqCst);
    out
}

/// Offline oracle over the event log. Returns (signature, description) pairs.
pub fn check(sc: &Scenario, o: &Outcome) -> Vec<(String, String)> {
    let mut v = Vec::new();
    let mut starts = vec![0usize; o.submitted];
    let mut ends = vec![0usize; o.submitted];
    let mut running: Vec<usize> = Vec::new();
    let mut max_overlap = 0usize;
    for e in &o.events {
        match e {
            Ev::Start(id, _) => {
                if *id < o.submitted {
                    starts[*id] += 1;
                } else {
                    v.push(("C08/phantom-task".into(), format!("task {} ran but was never submitted", id)));
                }
                running.push(*id);
                max_overlap = max_overlap.max(running.len());
            }
            Ev::Finish(id) | Ev::Panic(id) => {
                if *id < o.submitted {
                    ends[*id] += 1;
                }
                running.retain(|x| x != id);
            }
            Ev::Barrier(..) => {}
        }
    }
    if o.gave_up.is_none() {
        for id in 0..o.submitted {
            if starts[id] == 0 {
                v.push(("C08/task-lost".into(), format!("task {} of {} was submitted but never executed", id, o.submitted)));
            } else if starts[id] > 1 {
                v.push(("C08/task-duplicated".into(), format!("task {} was executed {} times", id, starts[id])));
            }
            if starts[id] == 1 && ends[id] != 1 {
                v.push(("C08/task-incomplete".into(), format!("task {} started but has {} completion records", id, ends[id])));
            }
        }
    } else {
        for id in 0..o.submitted {
            if starts[id] > 1 {
                v.push(("C08/task-duplicated".into(), format!("task {} was executed {} times", id, starts[id])));
            }
        }
    }
    if max_overlap > sc.n {
        v.push(("C08/more-than-n-concurrent".into(), format!("{} tasks were running at the same time on a {}-thread pool", max_overlap, sc.n)));
    }
    // tasks run on the pool's threads, not on the thread that submits them. (How the pool names its workers is its own
    // business: only the submitting thread's name, which the harness chose, is compared.)
    for e in &o.events {
        if let Ev::Start(id, w) = e {
            if w == "lifecycle" || w == "main" {
                v.push(("C08/ran-outside-pool".into(), format!("task {} ran on the submitting thread {:?}, not on a worker of the pool", id, w)));
            }
        }
    }
    if !o.barrier_ids.is_empty() && o.gave_up.is_none() {
        let passed = o.events.iter().filter(|e| matches!(e, Ev::Barrier(..))).count();
        if passed != sc.n {
            v.push(("C08/not-n-usable-workers".into(), format!("{} of {} barrier tasks passed", passed, sc.n)));
        }
    }
    v
}

pub fn fingerprint(o: &Outcome) -> u64 {
    let mut h: u64 = 0xcbf29ce484222325;
    let mut feed = |s: &str| {
        for b in s.bytes() {
            h ^= b as u64;
            h = h.wrapping_mul(0x100000001b3);
        }
    };
    for e in &o.events {
        match e {
            Ev::Start(i, w) => feed(&format!("S{}@{};", i, w)),
            Ev::Finish(i) => feed(&format!("F{};", i)),
            Ev::Panic(i) => feed(&format!("P{};", i)),
            Ev::Barrier(i, w) => feed(&format!("B{}@{};", i, w)),
        }
    }
    h
}

pub fn trace_string(o: &Outcome) -> String {
    o.events
        .iter()
        .map(|e| match e {
            Ev::Start(i, w) => format!("S{}@{}", i, w),
            Ev::Finish(i) => format!("F{}", i),
            Ev::Panic(i) => format!("P{}", i),
            Ev::Barrier(i, w) => format!("B{}@{}", i, w),
        })
        .collect::<Vec<_>>()
        .join(" ")
}

pub fn kind_from(c: char) -> TaskKind {
    match c {
        'r' => TaskKind::Ret,
        'y' => TaskKind::Yield,
        's' => TaskKind::Spin,
        'z' => TaskKind::Sleep,
        'L' => TaskKind::LongSleep,
        'p' => TaskKind::PanicBefore,
        'q' => TaskKind::PanicAfter,
        _ => TaskKind::Ret,
    }
}

pub fn kind_char(k: TaskKind) -> char {
    match k {
        TaskKind::Ret => 'r',
        TaskKind::LongSleep => 'L',
        TaskKind::Yield => 'y',
        TaskKind::Spin => 's',
        TaskKind::Sleep => 'z',
        TaskKind::PanicBefore => 'p',
        TaskKind::PanicAfter => 'q',
    }
}

pub fn script_from(i: usize) -> Script {
    SCRIPTS[i % SCRIPTS.len()]
}

pub fn script_index(s: Script) -> usize {
    SCRIPTS.iter().position(|x| *x == s).unwrap()
}

pub fn silence_task_panics() {
    let prev = std::panic::take_hook();
    std::panic::set_hook(Box::new(move |info| {
        let is_task = info.payload().downcast_ref::<String>().map(|s| s.contains(PANIC_MARK)).unwrap_or(false) || info.payload().downcast_ref::<&str>().map(|s| s.contains(PANIC_MARK)).unwrap_or(false);
        let is_task = is_task || info.payload().downcast_ref::<TaskPanicPayload>().is_some();
        if !is_task {
            prev(info);
        }
    }));
}

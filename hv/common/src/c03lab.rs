//! C03 laboratory shared by the threaded and tokio harnesses: case generation (no dependency on Humphrey),
//! the in-worker monitors around one parser call, and the parent that runs isolated worker processes.

use crate::alloc;
use crate::args::Args;
use crate::json::J;
use crate::reader::SPIN_MARK;
use crate::report::Report;
use crate::rng::Rng;
use crate::util::{fnv, hex, ncpu, panic_msg, show, unhex};
use crate::wsref::RefFrame;
use std::collections::VecDeque;
use std::io::{BufRead, BufReader, Read, Write};
use std::panic::{catch_unwind, AssertUnwindSafe};
use std::process::{Command, Stdio};
use std::sync::{Arc, Mutex};

pub const CPU_BUDGET_S: i64 = 10;
pub const WALL_BUDGET_S: i64 = 60;
pub const HARD_CAP: usize = 1 << 30;
pub const RATIO: usize = 4096;
pub const SLACK: usize = 1 << 20;


pub struct Case {
    pub label: String,
    pub bytes: Vec<u8>,
    /// 0 = all at once, 1 = byte by byte
    pub delivery: u8,
}

// ------------------------------------------------------------------ case generation

fn enum_over(alpha: &[&[u8]], maxlen: usize, mut f: impl FnMut(Vec<u8>)) {
    let k = alpha.len();
    for len in 0..=maxlen {
        let total = k.pow(len as u32);
        for n in 0..total {
            let mut s = Vec::new();
            let mut x = n;
            for _ in 0..len {
                s.extend_from_slice(alpha[x % k]);
                x /= k;
            }
            f(s);
        }
    }
}

const HUGE: [&str; 12] = ["0", "1", "2147483648", "4294967295", "9223372036854775808", "18446744073709551615", "100000000000000", "+5", "-1", "99999999999999999999999", "0x10", " 7"];
const HUGE_HEX: [&str; 8] = ["0", "1", "80000000", "ffffffff", "8000000000000000", "ffffffffffffffff", "5af3107a4000", "-1"];

/// structure-aware mutants of a textual seed (HTTP/conf/JSON)
fn text_mutants(seed: &[u8], tag: &str, hexnums: bool, out: &mut Vec<(String, Vec<u8>)>) {
    let head_end = seed.len().min(400);
    // (a) every maximal digit run replaced by boundary / huge values
    let mut i = 0;
    while i < head_end {
        if seed[i].is_ascii_digit() {
            let mut j = i;
            while j < seed.len() && seed[j].is_ascii_digit() {
                j += 1;
            }
            for h in HUGE.iter() {
                let mut m = seed[..i].to_vec();
                m.extend_from_slice(h.as_bytes());
                m.extend_from_slice(&seed[j..]);
                out.push((format!("{}/num@{}={}", tag, i, h), m));
            }
            if hexnums {
                for h in HUGE_HEX.iter() {
                    let mut m = seed[..i].to_vec();
                    m.extend_from_slice(h.as_bytes());
                    m.extend_from_slice(&seed[j..]);
                    out.push((format!("{}/hexnum@{}={}", tag, i, h), m));
                }
            }
            i = j;
        } else {
            i += 1;
        }
    }
    // (b) CR / LF / colon / space / quote / brace removed or doubled
    for i in 0..head_end {
        if matches!(seed[i], b'\r' | b'\n' | b':' | b' ' | b'"' | b'{' | b'}' | b'[' | b']' | b',' | b'#' | b'\\') {
            let mut m = seed.to_vec();
            m.remove(i);
            out.push((format!("{}/del@{}", tag, i), m));
            let mut m = seed.to_vec();
            m.insert(i, seed[i]);
            out.push((format!("{}/dup@{}", tag, i), m));
        }
    }
    // (c) a 2/3/4-byte scalar and invalid UTF-8 placed at every position a slice index can land on
    for i in 0..=head_end.min(seed.len()) {
        for (n, ins) in [("e9", "é".as_bytes()), ("euro", "€".as_bytes()), ("emoji", "😀".as_bytes()), ("ff", &[0xffu8][..]), ("c3", &[0xc3u8][..]), ("nul", &[0u8][..])] {
            let mut m = seed[..i].to_vec();
            m.extend_from_slice(ins);
            m.extend_from_slice(&seed[i..]);
            out.push((format!("{}/ins-{}@{}", tag, n, i), m.clone()));
            if i < seed.len() {
                let mut m2 = seed[..i].to_vec();
                m2.extend_from_slice(ins);
                m2.extend_from_slice(&seed[i + 1..]);
                out.push((format!("{}/rep-{}@{}", tag, n, i), m2));
            }
        }
    }
}

fn prefixes(seed: &[u8], tag: &str, out: &mut Vec<(String, Vec<u8>)>) {
    for k in 0..seed.len() {
        out.push((format!("{}/prefix@{}", tag, k), seed[..k].to_vec()));
    }
    out.push((format!("{}/whole", tag), seed.to_vec()));
}

fn request_seeds() -> Vec<Vec<u8>> {
    let mut v: Vec<Vec<u8>> = vec![
        b"GET / HTTP/1.1\r\n\r\n".to_vec(),
        b"GET /index.html?a=1&b=2 HTTP/1.1\r\nHost: example.com\r\nConnection: keep-alive\r\n\r\n".to_vec(),
        b"POST /submit HTTP/1.1\r\nHost: a\r\nContent-Length: 11\r\nContent-Type: text/plain\r\n\r\nhello world".to_vec(),
        b"PUT /x HTTP/1.0\r\nContent-Length: 0\r\n\r\n".to_vec(),
        b"DELETE /a/b/c HTTP/1.1\r\nX-Forwarded-For: 1.2.3.4, 5.6.7.8\r\nCookie: a=b; c=d\r\n\r\n".to_vec(),
        b"OPTIONS * HTTP/1.1\r\nOrigin: http://x\r\nAccess-Control-Request-Method: POST\r\n\r\n".to_vec(),
        b"GET /ws HTTP/1.1\r\nHost: h\r\nUpgrade: websocket\r\nConnection: Upgrade\r\nSec-WebSocket-Key: dGhlIHNhbXBsZSBub25jZQ==\r\nSec-WebSocket-Version: 13\r\n\r\n".to_vec(),
        "GET /caf\u{e9} HTTP/1.1\r\nX-N\u{e9}: v\u{e9}\r\n\r\n".as_bytes().to_vec(),
        b"GET / HTTP/1.1\r\nA:\r\nB: \r\nC:  x  \r\n\r\n".to_vec(),
        b"POST / HTTP/1.1\r\nContent-Length: 5\r\nContent-Length: 5\r\n\r\n12345GET / HTTP/1.1\r\n\r\n".to_vec(),
        b"GET /%2e%2e/%00 HTTP/1.1\r\nX-Forwarded-For: ::1,::ffff:1.2.3.4\r\n\r\n".to_vec(),
    ];
    let mut many = b"GET /many HTTP/1.1\r\n".to_vec();
    for i in 0..40 {
        many.extend_from_slice(format!("X-H{}: v{}\r\n", i % 7, i).as_bytes());
    }
    many.extend_from_slice(b"\r\n");
    v.push(many);
    v
}

fn response_seeds() -> Vec<Vec<u8>> {
    vec![
        b"HTTP/1.1 200 OK\r\nContent-Length: 5\r\n\r\nhello".to_vec(),
        b"HTTP/1.1 200 OK\r\nTransfer-Encoding: chunked\r\n\r\n5\r\nhello\r\n6\r\n world\r\n0\r\n\r\n".to_vec(),
        b"HTTP/1.1 204 No Content\r\nServer: x\r\n\r\n".to_vec(),
        b"HTTP/1.1 301 Moved Permanently\r\nLocation: /next\r\nContent-Length: 0\r\n\r\n".to_vec(),
        b"HTTP/1.0 404 Not Found\r\nContent-Type: text/html\r\nConnection: close\r\n\r\n<h1>nope</h1>".to_vec(),
        b"HTTP/1.1 200 OK\r\nSet-Cookie: a=b; Path=/; HttpOnly\r\nSet-Cookie: c=d\r\nContent-Length: 2\r\n\r\nok".to_vec(),
        b"HTTP/1.1 200 OK\r\nTransfer-Encoding: chunked\r\n\r\nA\r\n0123456789\r\n1a\r\nabcdefghijklmnopqrstuvwxyz\r\n0\r\n\r\n".to_vec(),
        b"HTTP/1.1 502 Bad Gateway\r\nContent-Length: 3\r\nX-A:\r\n\r\nbad".to_vec(),
        "HTTP/1.1 200 D\u{e9}j\u{e0}\r\nX-V: caf\u{e9}\r\nContent-Length: 1\r\n\r\nx".as_bytes().to_vec(),
        b"HTTP/1.1 100 Continue\r\n\r\nHTTP/1.1 200 OK\r\nContent-Length: 0\r\n\r\n".to_vec(),
    ]
}

fn ws_seeds() -> Vec<(String, Vec<u8>)> {
    let k = Some([0x37, 0xfa, 0x21, 0x3d]);
    let mut v: Vec<(String, Vec<u8>)> = vec![
        ("text-masked".into(), RefFrame::new(1, true, k, b"Hello".to_vec()).encode()),
        ("text-unmasked".into(), RefFrame::new(1, true, None, b"Hello".to_vec()).encode()),
        ("binary-126".into(), RefFrame::new(2, true, k, vec![0x5a; 200]).encode()),
        ("binary-127".into(), RefFrame::new(2, true, k, vec![0xa5; 66000]).encode()),
        ("ping".into(), RefFrame::new(9, true, k, b"pi".to_vec()).encode()),
        ("pong".into(), RefFrame::new(10, true, k, b"po".to_vec()).encode()),
        ("close".into(), RefFrame::new(8, true, k, vec![0x03, 0xe8]).encode()),
        ("empty-text".into(), RefFrame::new(1, true, k, vec![]).encode()),
    ];
    let mut frag = RefFrame::new(1, false, k, b"Hel".to_vec()).encode();
    frag.extend(RefFrame::new(9, true, k, b"mid".to_vec()).encode());
    frag.extend(RefFrame::new(0, true, k, b"lo".to_vec()).encode());
    v.push(("fragmented+ping".into(), frag));
    let mut two = RefFrame::new(1, true, k, b"one".to_vec()).encode();
    two.extend(RefFrame::new(2, true, None, b"two".to_vec()).encode());
    two.extend(RefFrame::new(8, true, k, vec![]).encode());
    v.push(("two-messages+close".into(), two));
    v
}

fn ws_mutants(out: &mut Vec<(String, Vec<u8>)>) {
    // length-field mutants: 7-bit code 126/127 with boundary and huge extended lengths, each followed by
    // nothing, a few bytes, or exactly min(len, 70000) bytes
    let ext16: [u16; 6] = [0, 1, 125, 126, 0x7fff, 0xffff];
    let ext64: [u64; 9] = [0, 1, 65535, 65536, 1 << 31, (1 << 32) - 1, 100_000_000_000_000, 1 << 63, u64::MAX];
    for op in [0u8, 1, 2, 8, 9, 10] {
        for masked in [false, true] {
            let m = if masked { 0x80u8 } else { 0 };
            for e in ext16 {
                for rem in 0..3 {
                    let mut b = vec![0x80 | op, m | 126];
                    b.extend_from_slice(&e.to_be_bytes());
                    if masked {
                        b.extend_from_slice(&[1, 2, 3, 4]);
                    }
                    match rem {
                        0 => {}
                        1 => b.extend_from_slice(&[7, 7, 7]),
                        _ => b.extend(std::iter::repeat(0x41).take(e as usize)),
                    }
                    out.push((format!("ws/len16={}/op{}/m{}/rem{}", e, op, masked as u8, rem), b));
                }
            }
            for e in ext64 {
                for rem in 0..3 {
                    let mut b = vec![0x80 | op, m | 127];
                    b.extend_from_slice(&e.to_be_bytes());
                    if masked {
                        b.extend_from_slice(&[1, 2, 3, 4]);
                    }
                    match rem {
                        0 => {}
                        1 => b.extend_from_slice(&[7, 7, 7]),
                        _ => b.extend(std::iter::repeat(0x41).take(e.min(70_000) as usize)),
                    }
                    out.push((format!("ws/len64={}/op{}/m{}/rem{}", e, op, masked as u8, rem), b));
                }
            }
        }
    }
    // byte-level mutants of the seeds: every byte of the first 16 replaced by 0x00/0x7e/0x7f/0xfe/0xff
    for (name, s) in ws_seeds() {
        for i in 0..s.len().min(16) {
            for v in [0x00u8, 0x7e, 0x7f, 0xfe, 0xff, s[i] ^ 0x80, s[i] ^ 0x0f] {
                let mut m = s.clone();
                m[i] = v;
                out.push((format!("ws/{}/byte@{}={:02x}", name, i, v), m));
            }
        }
    }
}

fn json_seeds() -> Vec<Vec<u8>> {
    vec![
        br#"{"a":1,"b":[true,false,null],"c":{"d":"e"}}"#.to_vec(),
        br#"[1,2.5,-3e10,"x\n\u00e9\ud83d\ude00",{}]"#.to_vec(),
        br#""plain string""#.to_vec(),
        br#"  [ 1 , 2 ]  "#.to_vec(),
        "{\"k\u{e9}y\":\"v\u{20ac}l\",\"\u{1f600}\":[]}".as_bytes().to_vec(),
        br#"-0.0e-0"#.to_vec(),
        br#"{"a":{"b":{"c":{"d":[[[[1]]]]}}}}"#.to_vec(),
        br#"["\\","\"","\/","\b\f\r\t"]"#.to_vec(),
    ]
}

fn conf_seeds() -> Vec<Vec<u8>> {
    vec![
        b"server {\n    address \"0.0.0.0\"\n    port 8080\n    threads 4\n    timeout 5\n\n    cache {\n        size 128M # comment\n        time 60\n    }\n\n    log {\n        level \"info\"\n        console true\n    }\n\n    route /static/* {\n        directory \"/var/www\"\n    }\n\n    route /* {\n        proxy \"127.0.0.1:8000,127.0.0.1:8080\"\n        load_balancer_mode \"round-robin\"\n    }\n}\n".to_vec(),
        b"# leading comment\nserver {\n  host \"*.example.com\" {\n    route /a, /b {\n      file \"x.html\"\n    }\n  }\n  host other {\n    route /* {\n      redirect \"https://e.com\"\n    }\n  }\n  blacklist {\n    mode \"forbidden\"\n  }\n}".to_vec(),
        b"server {\n  cache {\n    size 1G\n    time 0\n  }\n  websocket \"localhost:1234\"\n  route /ws {\n    websocket \"localhost:9\"\n  }\n}\n".to_vec(),
        b"server {\n}\n".to_vec(),
        b"server {\r\n  port 80\r\n  plugins {\r\n    php {\r\n      library \"x.so\"\r\n    }\r\n  }\r\n}\r\n".to_vec(),
        "server {\n  address \"caf\u{e9}\"\n  cache {\n    size 10K\n  }\n}\n".as_bytes().to_vec(),
    ]
}

fn nested(open: &[u8], leaf: &[u8], close: &[u8], d: usize, pre: &[u8], post: &[u8]) -> Vec<u8> {
    let mut v = pre.to_vec();
    for _ in 0..d {
        v.extend_from_slice(open);
    }
    v.extend_from_slice(leaf);
    for _ in 0..d {
        v.extend_from_slice(close);
    }
    v.extend_from_slice(post);
    v
}

/// Include files on disk for the configuration target (seeded C03-K): self-includes, mutual cycles with fan-out, a chain
/// deeper than the nesting limit, a wide fan of includes of a leaf. They live beside the harness binary (parent and
/// workers regenerate the same case list and therefore the same files; writes are atomic and idempotent).
fn conf_include_cases(raw: &mut Vec<(String, Vec<u8>)>) {
    let dir = std::env::current_exe().ok().and_then(|p| p.parent().map(|d| d.join("c03inc"))).unwrap_or_else(|| std::path::PathBuf::from("c03inc"));
    let _ = std::fs::create_dir_all(&dir);
    let d = dir.to_string_lossy().to_string();
    let put = |name: &str, content: String| {
        let path = dir.join(name);
        if std::fs::read(&path).ok().as_deref() != Some(content.as_bytes()) {
            let tmp = dir.join(format!(".{}.{}", name, std::process::id()));
            if std::fs::write(&tmp, content.as_bytes()).is_ok() {
                let _ = std::fs::rename(&tmp, &path);
            }
        }
    };
    let inc = |name: &str| format!("include \"{}/{}\"\n", d, name);
    put("self1.conf", inc("self1.conf"));
    put("self2.conf", format!("{}{}", inc("self2.conf"), inc("self2.conf")));
    put("self2k.conf", format!("port 80\n{}threads 2\n{}timeout 5\n", inc("self2k.conf"), inc("self2k.conf")));
    put("self3.conf", format!("{}{}{}", inc("self3.conf"), inc("self3.conf"), inc("self3.conf")));
    put("a.conf", format!("{}{}", inc("b.conf"), inc("b.conf")));
    put("b.conf", format!("{}{}", inc("a.conf"), inc("a.conf")));
    put("p.conf", format!("{}{}", inc("q.conf"), inc("leaf.conf")));
    put("q.conf", format!("{}{}", inc("leaf.conf"), inc("p.conf")));
    put("leaf.conf", "threads 3\n".to_string());
    put("sect.conf", format!("cache {{\n  size 1K\n  {}}}\n", inc("sect.conf").trim_end()));
    for i in 0..80 {
        put(&format!("chain{}.conf", i), if i < 79 { inc(&format!("chain{}.conf", i + 1)) } else { "threads 3\n".to_string() });
    }
    put("wide.conf", inc("leaf.conf").repeat(500));
    for name in ["self1", "self2", "self2k", "self3", "a", "p", "sect", "chain0", "chain20", "wide", "leaf", "missing"] {
        let line = inc(&format!("{}.conf", name));
        raw.push((format!("conf/include-top({})", name), line.clone().into_bytes()));
        raw.push((format!("conf/include-in-server({})", name), format!("server {{\n  {}}}\n", line).into_bytes()));
        raw.push((format!("conf/include-in-host({})", name), format!("server {{\n  host h {{\n    {}  }}\n}}\n", line).into_bytes()));
        raw.push((format!("conf/include-twice({})", name), format!("server {{\n  {}  {}}}\n", line, line).into_bytes()));
    }
}

pub fn cases(target: &str, thorough: bool, seed: u64) -> Vec<Case> {
    let mut raw: Vec<(String, Vec<u8>)> = Vec::new();
    let mut rng = Rng::derive(seed, fnv(target.as_bytes()));
    let l = if thorough { 5 } else { 4 };
    let reader_based = !matches!(target, "json" | "conf");
    match target {
        "request" | "request-tokio" => {
            let alpha: [&[u8]; 13] = [b"G", b"E", b"T", b" ", b"/", b"?", b":", b"\r", b"\n", b"0", b"9", "é".as_bytes(), &[0xff]];
            for ctx in [&b""[..], b"GET / HTTP/1.1\r\n", b"POST / HTTP/1.1\r\nA: b\r\nContent-Length:"] {
                enum_over(&alpha, if ctx.is_empty() { l } else { l - 1 }, |s| {
                    let mut b = ctx.to_vec();
                    b.extend_from_slice(&s);
                    raw.push((format!("request/enum(ctx{})", ctx.len()), b));
                });
            }
            let toks: [&[u8]; 12] = [b"GET ", b"POST ", b"/", b" HTTP/1.1", b"\r\n", b"Content-Length: ", b"5", b"abcde", b":", b" ", b"X-Forwarded-For: ", "\u{e9}".as_bytes()];
            enum_over(&toks, l, |s| raw.push(("request/tokens".into(), s)));
            for (i, s) in request_seeds().iter().enumerate() {
                prefixes(s, &format!("request/seed{}", i), &mut raw);
                text_mutants(s, &format!("request/seed{}", i), false, &mut raw);
            }
        }
        "response" => {
            let alpha: [&[u8]; 13] = [b"H", b"2", b"0", b" ", b"/", b".", b":", b"\r", b"\n", b"1", b"f", "é".as_bytes(), &[0xff]];
            for ctx in [&b""[..], b"HTTP/1.1 200 OK\r\n", b"HTTP/1.1 200 OK\r\nTransfer-Encoding: chunked\r\n\r\n", b"HTTP/1.1 200 OK\r\nContent-Length:"] {
                enum_over(&alpha, if ctx.is_empty() { l } else { l - 1 }, |s| {
                    let mut b = ctx.to_vec();
                    b.extend_from_slice(&s);
                    raw.push((format!("response/enum(ctx{})", ctx.len()), b));
                });
            }
            let toks: [&[u8]; 12] = [b"HTTP/1.1 ", b"200 ", b"OK", b"\r\n", b"Content-Length: ", b"Transfer-Encoding: chunked", b"5", b"hello", b":", b" ", b"0", "\u{e9}".as_bytes()];
            enum_over(&toks, l, |s| raw.push(("response/tokens".into(), s)));
            for (i, s) in response_seeds().iter().enumerate() {
                prefixes(s, &format!("response/seed{}", i), &mut raw);
                text_mutants(s, &format!("response/seed{}", i), true, &mut raw);
            }
            // long runs of complete small units: anything the parser skips, repeats or recurses over once per unit
            for (name, unit, tail) in [
                ("100-continue", &b"HTTP/1.1 100 Continue\r\n\r\n"[..], &b"HTTP/1.1 200 OK\r\nContent-Length: 2\r\n\r\nok"[..]),
                ("102-processing", b"HTTP/1.1 102 Processing\r\n\r\n", b"HTTP/1.1 204 No Content\r\n\r\n"),
                ("empty-200", b"HTTP/1.1 200 OK\r\n\r\n", b""),
                ("blank-lines", b"\r\n", b"HTTP/1.1 200 OK\r\n\r\n"),
            ] {
                for n in [1usize, 2, 1000, 250_000] {
                    let mut b = Vec::with_capacity(unit.len() * n + tail.len());
                    for _ in 0..n {
                        b.extend_from_slice(unit);
                    }
                    b.extend_from_slice(tail);
                    raw.push((format!("response/run({}x{})", name, n), b));
                }
            }
            for n in [1000usize, 250_000] {
                let mut b = b"HTTP/1.1 200 OK\r\nTransfer-Encoding: chunked\r\n\r\n".to_vec();
                for _ in 0..n {
                    b.extend_from_slice(b"1\r\nx\r\n");
                }
                b.extend_from_slice(b"0\r\n\r\n");
                raw.push((format!("response/run(chunkx{})", n), b));
                let mut b = b"HTTP/1.1 200 OK\r\n".to_vec();
                for i in 0..n {
                    b.extend_from_slice(format!("X-{}: v\r\n", i % 7).as_bytes());
                }
                b.extend_from_slice(b"\r\n");
                raw.push((format!("response/run(headerx{})", n), b));
            }
        }
        "wsframe" => {
            for b0 in 0..=255u8 {
                for b1 in 0..=255u8 {
                    let masked = b1 & 0x80 != 0;
                    let l7 = (b1 & 0x7f) as usize;
                    raw.push(("wsframe/hdr+empty".into(), vec![b0, b1]));
                    raw.push(("wsframe/hdr+short".into(), vec![b0, b1, 0x00]));
                    let mut ex = vec![b0, b1];
                    let plen = match l7 {
                        126 => {
                            ex.extend_from_slice(&[0, 3]);
                            3
                        }
                        127 => {
                            ex.extend_from_slice(&[0, 0, 0, 0, 0, 0, 0, 3]);
                            3
                        }
                        n => n,
                    };
                    if masked {
                        ex.extend_from_slice(&[9, 8, 7, 6]);
                    }
                    ex.extend(std::iter::repeat(0x61).take(plen));
                    raw.push(("wsframe/hdr+exact".into(), ex));
                }
            }
            for (n, s) in ws_seeds() {
                prefixes(&s[..s.len().min(300)], &format!("wsframe/{}", n), &mut raw);
                raw.push((format!("wsframe/{}/whole", n), s));
            }
            ws_mutants(&mut raw);
        }
        "wsmsg" | "wsmsg-nb" => {
            for (n, s) in ws_seeds() {
                prefixes(&s[..s.len().min(120)], &format!("{}/{}", target, n), &mut raw);
                raw.push((format!("{}/{}/whole", target, n), s));
            }
            ws_mutants(&mut raw);
            // all two-byte headers with an exact short remainder for a sample of first bytes
            for b0 in [0x00u8, 0x01, 0x02, 0x08, 0x09, 0x0a, 0x81, 0x82, 0x88, 0x89, 0x8a, 0x80, 0x83, 0xf1, 0xff] {
                for b1 in 0..=255u8 {
                    raw.push((format!("{}/hdr", target), vec![b0, b1]));
                    raw.push((format!("{}/hdr+1", target), vec![b0, b1, 0x00]));
                }
            }
        }
        "json" => {
            let alpha: [&[u8]; 16] = [b"{", b"}", b"[", b"]", b":", b",", b"\"", b"\\", b"u", b"0", b"1", b"-", b".", b"e", b"t", b" "];
            enum_over(&alpha, l, |s| raw.push(("json/enum16".into(), s)));
            for (i, s) in json_seeds().iter().enumerate() {
                prefixes(s, &format!("json/seed{}", i), &mut raw);
                text_mutants(s, &format!("json/seed{}", i), false, &mut raw);
            }
            // \u escapes: every ordered pair of boundary code units (BMP edges, both surrogate ranges), single
            // units, truncated and non-hex escapes; as array element, object value and object key
            const UNITS: [&str; 17] = ["0000", "001f", "0020", "007f", "00e9", "d7ff", "d800", "d801", "dbff", "DBFF", "dc00", "dc01", "dfff", "DFFF", "e000", "fffe", "ffff"];
            let mut esc: Vec<String> = Vec::new();
            for a in UNITS {
                esc.push(format!("\\u{}", a));
                esc.push(format!("\\u{}x", a));
                esc.push(format!("\\u{}\\n", a));
                for b in UNITS {
                    esc.push(format!("\\u{}\\u{}", a, b));
                }
                for cut in ["\\u", "\\ud", "\\udc", "\\udc0", "\\uZZZZ", "\\u+123", "\\u 123", "\\u12G4", "\\U0041"] {
                    esc.push(format!("\\u{}{}", a, cut));
                }
            }
            for e in &esc {
                raw.push(("json/u-escape/elem".into(), format!("[\"{}\"]", e).into_bytes()));
                raw.push(("json/u-escape/value".into(), format!("{{\"k\":\"a{}b\"}}", e).into_bytes()));
                raw.push(("json/u-escape/key".into(), format!("{{\"{}\":1}}", e).into_bytes()));
                raw.push(("json/u-escape/unterminated".into(), format!("\"{}", e).into_bytes()));
            }
            // many small strings in one document (memory retained per string must not grow with the document)
            for k in [1_000usize, 10_000, 30_000] {
                let mut a = b"[".to_vec();
                let mut o = b"{".to_vec();
                for i in 0..k {
                    if i > 0 {
                        a.push(b',');
                        o.push(b',');
                    }
                    a.extend_from_slice(b"\"\"");
                    o.extend_from_slice(format!("\"{}\":\"v\"", i).as_bytes());
                }
                a.push(b']');
                o.push(b'}');
                raw.push((format!("json/{}-empty-strings", k), a));
                raw.push((format!("json/{}-members", k), o));
            }
            for d in [10usize, 100, 255, 256, 257, 1000, 10_000, 200_000] {
                raw.push((format!("json/nest[{}", d), nested(b"[", b"1", b"]", d, b"", b"")));
                raw.push((format!("json/nest[{}-open", d), nested(b"[", b"", b"", d, b"", b"")));
                raw.push((format!("json/nest{{{}", d), nested(b"{\"a\":", b"1", b"}", d, b"", b"")));
                raw.push((format!("json/nest{{{}-open", d), nested(b"{\"a\":", b"", b"", d, b"", b"")));
                // staircases: every level holds a complete sibling value before the nested container, so a depth counter
                // that a completed value disturbs drifts by one per level (seeded C03-M)
                for (name, open) in [("[],", &b"[[],"[..]), ("[ ],", b"[[ ],"), ("{},", b"[{},"), ("1,", b"[1,"), ("\"\",", b"[\"\","), ("[[]],", b"[[[]],"), ("obj[]", b"{\"a\":[],\"b\":"), ("obj{}", b"{\"a\":{},\"b\":")] {
                    let close: &[u8] = if open[0] == b'[' { b"]" } else { b"}" };
                    raw.push((format!("json/stair({}){}", name, d), nested(open, b"1", close, d, b"", b"")));
                    raw.push((format!("json/stair({}){}-open", name, d), nested(open, b"", b"", d, b"", b"")));
                }
            }
        }
        "conf" => {
            let alpha: [&[u8]; 10] = [b"s", b"{", b"}", b"\"", b"#", b" ", b"\n", b"1", b"K", "é".as_bytes()];
            for ctx in [&b""[..], b"server {\n", b"server {\n  cache {\n    size "] {
                enum_over(&alpha, if ctx.is_empty() { l + 1 } else { l }, |s| {
                    let mut b = ctx.to_vec();
                    b.extend_from_slice(&s);
                    if !ctx.is_empty() {
                        b.extend_from_slice(b"\n}\n}\n");
                    }
                    raw.push((format!("conf/enum(ctx{})", ctx.len()), b));
                });
            }
            // token-level enumeration: keywords and quotes in every arrangement (finds e.g. `host " {`)
            let toks: [&[u8]; 14] = [b"server {\n", b"host ", b"route ", b"\"", b"\"\"", b"{", b"}", b"a", b" ", b"\n", b"#", b"k 1\n", b"k \"v\"\n", "\u{e9}".as_bytes()];
            for ctx in [&b""[..], b"server {\n"] {
                enum_over(&toks, l, |s| {
                    let mut b = ctx.to_vec();
                    b.extend_from_slice(&s);
                    raw.push((format!("conf/tokens(ctx{})", ctx.len()), b));
                });
            }
            conf_include_cases(&mut raw);
            for (i, s) in conf_seeds().iter().enumerate() {
                prefixes(s, &format!("conf/seed{}", i), &mut raw);
                text_mutants(s, &format!("conf/seed{}", i), false, &mut raw);
            }
            // sizes: every unit with boundary numbers
            for n in ["0", "1", "1023", "8388607", "8589934591", "9007199254740993", "9223372036854775807", "9999999999", "99999999999999999999", "-1", "-9223372036854775808", "1.5", "", " ", "é", "1é", "10é", "😀"] {
                for u in ["", "K", "M", "G", "k", "m", "g", "T", "KB", "é", "€", "😀", "0", " K"] {
                    raw.push((format!("conf/size={}{}", n, u), format!("server {{\n  cache {{\n    size {}{}\n    time {}{}\n  }}\n}}\n", n, u, n, u).into_bytes()));
                    raw.push((format!("conf/port={}{}", n, u), format!("server {{\n  port {}{}\n  threads {}{}\n}}\n", n, u, n, u).into_bytes()));
                }
            }
            for d in [10usize, 100, 1000, 10_000, 50_000, 200_000] {
                raw.push((format!("conf/nest{}", d), nested(b"a {\n", b"k 1\n", b"}\n", d, b"server {\n", b"}\n")));
                raw.push((format!("conf/nest{}-open", d), nested(b"a {\n", b"", b"", d, b"server {\n", b"")));
                raw.push((format!("conf/nest-route{}", d), nested(b"route /x {\n", b"file \"f\"\n", b"}\n", d, b"server {\n", b"}\n")));
                raw.push((format!("conf/nest-host{}", d), nested(b"host h {\n", b"", b"}\n", d, b"server {\n", b"}\n")));
            }
        }
        _ => panic!("unknown target"),
    }
    // random bytes, biased towards the target's own vocabulary
    let nrand = if thorough { 60_000 } else { 6_000 };
    let vocab: Vec<u8> = match target {
        "request" | "request-tokio" => b"GET POST/?:\r\n HTTP/1.1Content-Length0123456789".to_vec(),
        "response" => b"HTTP/1.1 200 OK\r\n:Transfer-Encoding chunked0123456789abcdef".to_vec(),
        "json" => b"{}[]:,\"\\u0123456789-+.eEtruefalsn ".to_vec(),
        "conf" => b"server {}\"# \n1234567890KMGroutehostinclude".to_vec(),
        _ => (0..=255u8).collect(),
    };
    for _ in 0..nrand {
        let n = rng.urange(0, 64);
        let b: Vec<u8> = (0..n).map(|_| if rng.chance(3, 4) { *rng.pick(&vocab) } else { rng.below(256) as u8 }).collect();
        raw.push((format!("{}/random", target), b));
    }
    let mut out = Vec::with_capacity(raw.len() * 2);
    for (label, bytes) in raw {
        if reader_based {
            out.push(Case { label: label.clone(), bytes: bytes.clone(), delivery: 0 });
            // byte-by-byte delivery of the megabyte-sized seeds would only slow the run down
            if bytes.len() <= 8192 {
                out.push(Case { label, bytes, delivery: 1 });
            }
        } else {
            out.push(Case { label, bytes, delivery: 0 });
        }
    }
    out
}

// ------------------------------------------------------------------ worker

static PANIC_LOC: Mutex<Option<String>> = Mutex::new(None);

fn install_panic_hook() {
    std::panic::set_hook(Box::new(|info| {
        let loc = info.location().map(|l| format!("{}:{}", l.file(), l.line())).unwrap_or_else(|| "?".into());
        if let Ok(mut g) = PANIC_LOC.lock() {
            *g = Some(loc);
        }
    }));
}

#[repr(C)]
struct Timeval {
    tv_sec: i64,
    tv_usec: i64,
}
#[repr(C)]
struct Itimerval {
    it_interval: Timeval,
    it_value: Timeval,
}
extern "C" {
    fn setitimer(which: i32, new: *const Itimerval, old: *mut Itimerval) -> i32;
}
const ITIMER_REAL: i32 = 0;
// ITIMER_PROF counts user AND system CPU time: a loop of read() calls that return 0 spends its time in the kernel
const ITIMER_PROF: i32 = 2;
pub const SIGABRT: i32 = 6;
pub const SIGSEGV: i32 = 11;
pub const SIGVTALRM: i32 = 26;
pub const SIGPROF: i32 = 27;
pub const SIGALRM: i32 = 14;
pub const SIGKILL: i32 = 9;
pub const SIGBUS: i32 = 7;

fn set_timers(cpu_s: i64, wall_s: i64) {
    unsafe {
        let v = Itimerval { it_interval: Timeval { tv_sec: 0, tv_usec: 0 }, it_value: Timeval { tv_sec: cpu_s, tv_usec: 0 } };
        setitimer(ITIMER_PROF, &v, std::ptr::null_mut());
        let w = Itimerval { it_interval: Timeval { tv_sec: 0, tv_usec: 0 }, it_value: Timeval { tv_sec: wall_s, tv_usec: 0 } };
        setitimer(ITIMER_REAL, &w, std::ptr::null_mut());
    }
}

fn slug(s: &str) -> String {
    s.chars().map(|c| if c.is_ascii_alphanumeric() { c.to_ascii_lowercase() } else { '-' }).collect::<String>().split('-').filter(|x| !x.is_empty()).take(6).collect::<Vec<_>>().join("-")
}

/// Execute a case under all in-process monitors. Returns (outcome text, Some((sig, what))) on violation.
fn exec_case(target: &str, c: &Case, call: &dyn Fn(&str, &[u8], u8) -> String) -> (String, Option<(String, String)>) {
    *PANIC_LOC.lock().unwrap() = None;
    set_timers(CPU_BUDGET_S, WALL_BUDGET_S);
    let armed = alloc::arm();
    let res = catch_unwind(AssertUnwindSafe(|| call(target, &c.bytes, c.delivery)));
    let (peak, largest) = armed.disarm();
    set_timers(0, 0);
    match res {
        Err(p) => {
            let msg = panic_msg(&*p);
            if msg.contains(SPIN_MARK) {
                return ("spin".into(), Some((format!("C03/{}:spin", target), "parser keeps reading after end of input (10000 reads returning 0)".into())));
            }
            let loc = PANIC_LOC.lock().unwrap().clone().unwrap_or_else(|| "?".into());
            let sig = if let Some(rel) = loc.strip_prefix("/repo/") {
                format!("C03/{}:panic@{}", target, rel)
            } else {
                format!("C03/{}:panic:{}", target, slug(&msg))
            };
            (format!("panic@{}", loc), Some((sig, format!("panic at {}: {}", loc, msg.chars().take(160).collect::<String>()))))
        }
        Ok(o) => {
            let supplied = c.bytes.len();
            if peak > RATIO * supplied + SLACK {
                return (o, Some((format!("C03/{}:memory-overclaim", target), format!("peak live allocation {} bytes (largest single request {}) for {} bytes supplied", peak, largest, supplied))));
            }
            (o, None)
        }
    }
}

/// Worker process: runs the cases [from, to) of one target through `call` under all monitors.
pub fn worker(args: &Args, call: &dyn Fn(&str, &[u8], u8) -> String) {
    let target = args.get("target").unwrap().to_string();
    let from = args.u64("from", 0) as usize;
    let to = args.u64("to", u64::MAX) as usize;
    let all = cases(&target, args.thorough(), args.seed());
    let to = to.min(all.len());
    install_panic_hook();
    alloc::set_hard_cap(HARD_CAP);
    let stdout = std::io::stdout();
    let mut w = stdout.lock();
    for idx in from..to {
        let c = &all[idx];
        let fp = fnv(&c.bytes) ^ ((c.delivery as u64) << 63);
        writeln!(w, "B\t{}\t{:016x}\t{}\t{}\t{}", idx, fp, c.bytes.len(), c.delivery, c.label).unwrap();
        w.flush().unwrap();
        let (o, v) = exec_case(&target, c, call);
        match v {
            None => writeln!(w, "E\t{}\t{}", idx, o).unwrap(),
            Some((sig, what)) => writeln!(w, "V\t{}\t{}\t{}\t{}", idx, sig, what.replace(['\t', '\n'], " "), hex(&c.bytes[..c.bytes.len().min(2048)])).unwrap(),
        }
    }
    writeln!(w, "DONE").unwrap();
}

// ------------------------------------------------------------------ parent

struct Job {
    target: String,
    from: usize,
    to: usize,
}

fn signame(s: i32) -> &'static str {
    match s {
        SIGABRT => "SIGABRT",
        SIGSEGV => "SIGSEGV",
        SIGVTALRM => "SIGVTALRM",
        SIGPROF => "SIGPROF",
        SIGALRM => "SIGALRM",
        SIGKILL => "SIGKILL",
        SIGBUS => "SIGBUS",
        _ => "signal",
    }
}

/// targets for which a case did not terminate (one entry per occurrence)
static NO_TERMINATION: Mutex<Vec<String>> = Mutex::new(Vec::new());

fn run_job(job: &Job, tier: &str, seed: u64, r: &mut Report) {
    use std::os::unix::process::ExitStatusExt;
    let exe = std::env::current_exe().unwrap();
    let mut from = job.from;
    while from < job.to {
        // every non-terminating case costs its whole CPU budget: once a target has produced six of them the
        // verdict is in, and the rest of that target's cases are skipped (and counted) rather than run
        if NO_TERMINATION.lock().unwrap().iter().filter(|t| **t == job.target).count() >= 6 {
            r.count("cases_skipped_after_repeated_no_termination", (job.to - from) as u64);
            break;
        }
        let mut child = Command::new(&exe)
            .args(["c03-worker", "--target", &job.target, "--from", &from.to_string(), "--to", &job.to.to_string(), "--tier", tier, "--seed", &seed.to_string()])
            .stdin(Stdio::null())
            .stdout(Stdio::piped())
            .stderr(Stdio::piped())
            .spawn()
            .expect("spawn worker");
        let out = child.stdout.take().unwrap();
        let mut err = child.stderr.take().unwrap();
        let errh = std::thread::spawn(move || {
            let mut s = Vec::new();
            err.read_to_end(&mut s).ok();
            String::from_utf8_lossy(&s).to_string()
        });
        let mut open: Option<(usize, String, usize, u8)> = None; // idx, label, len, delivery
        let mut done = false;
        for line in BufReader::new(out).lines() {
            let line = match line {
                Ok(l) => l,
                Err(_) => break,
            };
            let f: Vec<&str> = line.split('\t').collect();
            match f[0] {
                "B" => {
                    let idx: usize = f[1].parse().unwrap();
                    let fp = u64::from_str_radix(f[2], 16).unwrap();
                    let len: usize = f[3].parse().unwrap();
                    r.eval();
                    r.count(&format!("cases_{}", job.target), 1);
                    // non-trivial: at least two bytes supplied (the empty and one-byte inputs are the trivial ones)
                    if len >= 2 {
                        r.nontrivial(fp ^ fnv(job.target.as_bytes()));
                    }
                    if f[5].contains("prefix@") {
                        r.count("truncation_cases", 1);
                    }
                    open = Some((idx, f[5].to_string(), len, f[4].parse().unwrap_or(0)));
                }
                "E" => {
                    let o = f[2];
                    let k = if o == "ok" { "outcome_value" } else if o.starts_with("err") { "outcome_error" } else { "outcome_other" };
                    r.count(k, 1);
                    open = None;
                }
                "V" => {
                    let idx: usize = f[1].parse().unwrap();
                    let (label, dl) = open.as_ref().map(|o| (o.1.clone(), o.3)).unwrap_or_default();
                    let bytes = unhex(f[4]).unwrap_or_default();
                    r.violation(
                        f[2],
                        format!("{} [{} input {:?}]", f[3], label, show(&bytes, 80)),
                        J::obj(vec![("target", J::s(&job.target)), ("case_index", J::u(idx as u64)), ("label", J::s(&label)), ("delivery", J::s(if dl == 1 { "bytewise" } else { "all-at-once" })), ("input", J::s(show(&bytes, 200))), ("input_hex_first_2KiB", J::s(f[4])), ("observed", J::s(f[3]))]),
                        vec!["c03-one".into(), "--target".into(), job.target.clone(), "--index".into(), idx.to_string(), "--tier".into(), tier.into(), "--seed".into(), seed.to_string()],
                    );
                    r.count("outcome_violation", 1);
                    open = None;
                }
                "DONE" => done = true,
                _ => {}
            }
        }
        let status = child.wait().expect("wait");
        let stderr = errh.join().unwrap_or_default();
        if done && status.success() {
            break;
        }
        // the worker died: attribute to the open case
        match open {
            Some((idx, label, len, dl)) => {
                let sig = status.signal().unwrap_or(0);
                let (vsig, what) = if stderr.contains("HV-OVERCLAIM") {
                    let sz = stderr.lines().filter_map(|l| l.strip_prefix("HV-OVERCLAIM size=")).last().unwrap_or("?").to_string();
                    (format!("C03/{}:abort:allocation-of-claimed-size", job.target), format!("process aborted: a single allocation of {} bytes was requested for {} bytes supplied", sz, len))
                } else if stderr.contains("has overflowed its stack") {
                    (format!("C03/{}:abort:stack-overflow", job.target), format!("process aborted by stack overflow ({})", signame(sig)))
                } else if sig == SIGVTALRM || sig == SIGPROF {
                    NO_TERMINATION.lock().unwrap().push(job.target.clone());
                    (format!("C03/{}:no-termination", job.target), format!("no return after {} CPU-seconds (user + system)", CPU_BUDGET_S))
                } else if sig == SIGALRM {
                    r.inconclusive(format!("{} case {} ({}) hit the {} s wall-clock watchdog", job.target, idx, label, WALL_BUDGET_S));
                    from = idx + 1;
                    continue;
                } else if stderr.contains("memory allocation of") {
                    (format!("C03/{}:abort:allocation-failed", job.target), format!("process aborted: {}", stderr.lines().find(|l| l.contains("memory allocation of")).unwrap_or("")))
                } else {
                    (format!("C03/{}:died:{}", job.target, if sig != 0 { signame(sig).to_string() } else { format!("exit{}", status.code().unwrap_or(-1)) }), format!("worker process died ({:?}); stderr: {}", status, stderr.chars().take(200).collect::<String>()))
                };
                r.violation(
                    &vsig,
                    format!("{} [{}]", what, label),
                    J::obj(vec![("target", J::s(&job.target)), ("case_index", J::u(idx as u64)), ("label", J::s(&label)), ("delivery", J::s(if dl == 1 { "bytewise" } else { "all-at-once" })), ("supplied_bytes", J::u(len as u64)), ("observed", J::s(&what)), ("stderr", J::s(stderr.chars().take(300).collect::<String>()))]),
                    vec!["c03-one".into(), "--target".into(), job.target.clone(), "--index".into(), idx.to_string(), "--tier".into(), tier.into(), "--seed".into(), seed.to_string()],
                );
                r.count("outcome_violation", 1);
                r.count("worker_deaths", 1);
                from = idx + 1;
            }
            None => {
                r.harness_error(format!("worker for {} [{}..{}) died outside a case: {:?} {}", job.target, from, job.to, status, stderr.chars().take(300).collect::<String>()));
                break;
            }
        }
    }
}

pub fn main(args: &Args, targets: &[&str], rule: &str, assumptions: &[&str]) {
    let out = args.get("out").expect("--out");
    let tier = if args.thorough() { "thorough" } else { "quick" };
    let seed = args.seed();
    let only = args.get("target").map(|s| s.to_string());
    let mut jobs: VecDeque<Job> = VecDeque::new();
    let mut total = Report::new();
    for t in targets.iter().copied() {
        if let Some(o) = &only {
            if o != t {
                continue;
            }
        }
        let cs = cases(t, args.thorough(), seed);
        let n = cs.len();
        total.count(&format!("planned_{}", t), n as u64);
        for (i, c) in cs.iter().enumerate() {
            if c.label.contains("seed0/prefix@7") || (i % (n / 2 + 1) == 17) {
                total.sample(J::obj(vec![("target", J::s(t)), ("label", J::s(&c.label)), ("delivery", J::s(if c.delivery == 1 { "bytewise" } else { "all-at-once" })), ("input", J::s(show(&c.bytes, 100)))]));
                break;
            }
        }
        let chunk = (n / 48).max(2000);
        let mut a = 0;
        while a < n {
            jobs.push_back(Job { target: t.to_string(), from: a, to: (a + chunk).min(n) });
            a += chunk;
        }
    }
    total.max_samples = 12;
    let q = Arc::new(Mutex::new(jobs));
    let tier_s = tier.to_string();
    let hs: Vec<_> = (0..ncpu())
        .map(|_| {
            let q = q.clone();
            let tier = tier_s.clone();
            std::thread::spawn(move || {
                let mut r = Report::new();
                loop {
                    let job = q.lock().unwrap().pop_front();
                    match job {
                        Some(j) => run_job(&j, &tier, seed, &mut r),
                        None => break,
                    }
                }
                r
            })
        })
        .collect();
    for h in hs {
        total.merge(h.join().unwrap());
    }
    let planned: u64 = total.counters.iter().filter(|(k, _)| k.starts_with("planned_")).map(|(_, v)| *v).sum();
    if total.evaluations < planned {
        total.inconclusive(format!("only {} of {} planned cases were executed", total.evaluations, planned));
    }
    total.write(out, rule, None, assumptions);
}

/// Replay one case by index.
pub fn one(args: &Args) {
    let out = args.get("out").expect("--out");
    let target = args.get("target").unwrap();
    let idx = args.u64("index", 0) as usize;
    let mut r = Report::new();
    let job = Job { target: target.to_string(), from: idx, to: idx + 1 };
    run_job(&job, if args.thorough() { "thorough" } else { "quick" }, args.seed(), &mut r);
    r.nontrivial(1);
    r.nontrivial(2);
    r.write(out, "replay of one recorded case in an isolated worker", None, &[]);
}

//! Strict reference reader for HTTP/1.x messages (RFC 9112 grammar, CRLF only).
//! Used as the judge on the client side and on scripted upstreams. Independent of Humphrey.

#[derive(Clone, Debug, PartialEq)]
pub enum Framing {
    ContentLength(usize),
    Chunked,
    /// no framing header: body empty for the purposes of keep-alive (not self-delimiting unless
    /// the status forbids a body)
    None,
    /// body = everything until EOF
    UntilClose,
}

#[derive(Clone, Debug)]
pub struct RefMessage {
    /// request: method; response: version
    pub first: String,
    /// request: target; response: status code text
    pub second: String,
    /// request: version; response: reason phrase
    pub third: String,
    pub headers: Vec<(String, String)>,
    pub body: Vec<u8>,
    pub framing: Framing,
    /// total bytes consumed from the buffer
    pub consumed: usize,
}

impl RefMessage {
    pub fn header(&self, name: &str) -> Option<&str> {
        self.headers.iter().find(|(k, _)| k.eq_ignore_ascii_case(name)).map(|(_, v)| v.as_str())
    }
    pub fn headers_all(&self, name: &str) -> Vec<&str> {
        self.headers.iter().filter(|(k, _)| k.eq_ignore_ascii_case(name)).map(|(_, v)| v.as_str()).collect()
    }
    pub fn status(&self) -> u16 {
        self.second.parse().unwrap_or(0)
    }
}

pub enum Parse {
    Complete(RefMessage),
    /// more bytes are needed
    Incomplete,
    Malformed(String),
}

fn is_tchar(c: u8) -> bool {
    matches!(c, b'!' | b'#' | b'$' | b'%' | b'&' | b'\'' | b'*' | b'+' | b'-' | b'.' | b'^' | b'_' | b'`' | b'|' | b'~')
        || c.is_ascii_alphanumeric()
}

fn find_crlf(b: &[u8], from: usize) -> Option<usize> {
    let mut i = from;
    while i + 1 < b.len() {
        if b[i] == b'\r' && b[i + 1] == b'\n' {
            return Some(i);
        }
        i += 1;
    }
    None
}

fn parse_head(b: &[u8], is_response: bool) -> Result<Option<(String, String, String, Vec<(String, String)>, usize)>, String> {
    let e = match find_crlf(b, 0) {
        Some(e) => e,
        None => {
            if b.contains(&b'\n') {
                return Err("bare LF in start line".into());
            }
            return Ok(None);
        }
    };
    let line = std::str::from_utf8(&b[..e]).map_err(|_| "start line not UTF-8".to_string())?;
    if line.bytes().any(|c| c == b'\r' || c == b'\n') {
        return Err("stray CR/LF in start line".into());
    }
    let (first, second, third) = if is_response {
        let mut it = line.splitn(3, ' ');
        let v = it.next().unwrap_or("");
        let s = it.next().ok_or("status line without status code")?;
        let r = it.next().ok_or("status line without SP after status code")?;
        if !(v == "HTTP/1.1" || v == "HTTP/1.0") {
            return Err(format!("bad HTTP-version {:?}", v));
        }
        if s.len() != 3 || !s.bytes().all(|c| c.is_ascii_digit()) {
            return Err(format!("bad status code {:?}", s));
        }
        if r.bytes().any(|c| c < 0x20 && c != b'\t' || c == 0x7f) {
            return Err("control character in reason phrase".into());
        }
        (v.to_string(), s.to_string(), r.to_string())
    } else {
        let parts: Vec<&str> = line.split(' ').collect();
        if parts.len() != 3 {
            return Err(format!("request line has {} parts", parts.len()));
        }
        if parts[0].is_empty() || !parts[0].bytes().all(is_tchar) {
            return Err("bad method token".into());
        }
        if parts[1].is_empty() {
            return Err("empty request target".into());
        }
        if !(parts[2] == "HTTP/1.1" || parts[2] == "HTTP/1.0") {
            return Err(format!("bad HTTP-version {:?}", parts[2]));
        }
        (parts[0].to_string(), parts[1].to_string(), parts[2].to_string())
    };
    let mut pos = e + 2;
    let mut headers = Vec::new();
    loop {
        let e = match find_crlf(b, pos) {
            Some(e) => e,
            None => {
                if b[pos..].contains(&b'\n') {
                    return Err("bare LF in header section".into());
                }
                return Ok(None);
            }
        };
        if e == pos {
            pos += 2;
            break;
        }
        let line = &b[pos..e];
        if line.contains(&b'\n') {
            return Err("bare LF in field line".into());
        }
        let c = line.iter().position(|x| *x == b':').ok_or_else(|| format!("field line without colon: {:?}", crate::util::show(line, 60)))?;
        let name = &line[..c];
        if name.is_empty() || !name.iter().all(|x| is_tchar(*x)) {
            return Err(format!("bad field name {:?}", crate::util::show(name, 60)));
        }
        let val = &line[c + 1..];
        let val = std::str::from_utf8(val).map_err(|_| "field value not UTF-8".to_string())?;
        if val.bytes().any(|x| (x < 0x20 && x != b'\t') || x == 0x7f) {
            return Err("control character in field value".into());
        }
        let val = val.trim_matches(|c| c == ' ' || c == '\t');
        headers.push((String::from_utf8(name.to_vec()).unwrap(), val.to_string()));
        pos = e + 2;
    }
    Ok(Some((first, second, third, headers, pos)))
}

/// Parse one response from the start of `b`. `eof`: the peer has closed, no more bytes will come.
/// `head_only_body`: the response is to a request whose responses never carry a body (unused here).
pub fn parse_response(b: &[u8], eof: bool) -> Parse {
    let (v, s, r, headers, pos) = match parse_head(b, true) {
        Ok(Some(x)) => x,
        Ok(None) => {
            return if eof && !b.is_empty() { Parse::Malformed("EOF inside response head".into()) } else { Parse::Incomplete }
        }
        Err(e) => return Parse::Malformed(e),
    };
    let mut m = RefMessage { first: v, second: s, third: r, headers, body: Vec::new(), framing: Framing::None, consumed: pos };
    let te = m.headers_all("transfer-encoding").join(",");
    let cls = m.headers_all("content-length");
    let status = m.status();
    let bodyless = (100..200).contains(&status) || status == 204 || status == 304;
    if !te.is_empty() {
        if !te.eq_ignore_ascii_case("chunked") {
            return Parse::Malformed(format!("unsupported transfer-encoding {:?}", te));
        }
        m.framing = Framing::Chunked;
        let mut p = pos;
        loop {
            let e = match find_crlf(b, p) {
                Some(e) => e,
                None => return if eof { Parse::Malformed("EOF inside chunk size line".into()) } else { Parse::Incomplete },
            };
            let szline = std::str::from_utf8(&b[p..e]).unwrap_or("\u{0}");
            let sz = szline.split(';').next().unwrap_or("");
            if sz.is_empty() || !sz.bytes().all(|c| c.is_ascii_hexdigit()) {
                return Parse::Malformed(format!("bad chunk size {:?}", szline));
            }
            let n = match usize::from_str_radix(sz, 16) {
                Ok(n) => n,
                Err(_) => return Parse::Malformed("chunk size overflow".into()),
            };
            p = e + 2;
            if n == 0 {
                // trailer section: we only accept the empty trailer
                if b.len() < p + 2 {
                    return if eof { Parse::Malformed("EOF before final CRLF of chunked body".into()) } else { Parse::Incomplete };
                }
                if &b[p..p + 2] != b"\r\n" {
                    return Parse::Malformed("trailer fields / garbage after last chunk".into());
                }
                p += 2;
                break;
            }
            if b.len() < p + n + 2 {
                return if eof { Parse::Malformed("EOF inside chunk data".into()) } else { Parse::Incomplete };
            }
            m.body.extend_from_slice(&b[p..p + n]);
            if &b[p + n..p + n + 2] != b"\r\n" {
                return Parse::Malformed("chunk data not followed by CRLF".into());
            }
            p += n + 2;
        }
        m.consumed = p;
        return Parse::Complete(m);
    }
    if !cls.is_empty() {
        if cls.iter().any(|c| *c != cls[0]) {
            return Parse::Malformed("conflicting Content-Length fields".into());
        }
        let c = cls[0];
        if c.is_empty() || !c.bytes().all(|x| x.is_ascii_digit()) {
            return Parse::Malformed(format!("bad Content-Length {:?}", c));
        }
        let n: usize = match c.parse() {
            Ok(n) => n,
            Err(_) => return Parse::Malformed("Content-Length overflow".into()),
        };
        m.framing = Framing::ContentLength(n);
        if bodyless {
            return Parse::Complete(m);
        }
        if b.len() < pos + n {
            return if eof { Parse::Malformed(format!("EOF after {} of {} body bytes", b.len() - pos, n)) } else { Parse::Incomplete };
        }
        m.body = b[pos..pos + n].to_vec();
        m.consumed = pos + n;
        return Parse::Complete(m);
    }
    if bodyless {
        return Parse::Complete(m);
    }
    if eof {
        m.framing = Framing::UntilClose;
        m.body = b[pos..].to_vec();
        m.consumed = b.len();
        return Parse::Complete(m);
    }
    // Not self-delimiting: the head is complete, the body (if any) extends to close.
    m.framing = Framing::None;
    Parse::Complete(m)
}

/// Parse one request (no body or Content-Length body) from the start of `b`.
pub fn parse_request(b: &[u8], eof: bool) -> Parse {
    let (a, t, v, headers, pos) = match parse_head(b, false) {
        Ok(Some(x)) => x,
        Ok(None) => {
            return if eof && !b.is_empty() { Parse::Malformed("EOF inside request head".into()) } else { Parse::Incomplete }
        }
        Err(e) => return Parse::Malformed(e),
    };
    let mut m = RefMessage { first: a, second: t, third: v, headers, body: Vec::new(), framing: Framing::None, consumed: pos };
    let cls = m.headers_all("content-length");
    if !cls.is_empty() {
        let c = cls[0];
        if cls.iter().any(|x| *x != c) || c.is_empty() || !c.bytes().all(|x| x.is_ascii_digit()) {
            return Parse::Malformed(format!("bad Content-Length {:?}", c));
        }
        let n: usize = match c.parse() {
            Ok(n) => n,
            Err(_) => return Parse::Malformed("Content-Length overflow".into()),
        };
        m.framing = Framing::ContentLength(n);
        if b.len() < pos + n {
            return if eof { Parse::Malformed("EOF inside request body".into()) } else { Parse::Incomplete };
        }
        m.body = b[pos..pos + n].to_vec();
        m.consumed = pos + n;
    }
    Parse::Complete(m)
}

/// IMF-fixdate (RFC 7231 7.1.1.1) -> seconds since the epoch. Independent civil-date arithmetic.
pub fn parse_imf_fixdate(s: &str) -> Option<i64> {
    // "Sun, 06 Nov 1994 08:49:37 GMT"
    let b = s.as_bytes();
    if b.len() != 29 || &s[3..5] != ", " || &s[25..] != " GMT" || b[7] != b' ' || b[11] != b' ' || b[16] != b' ' || b[19] != b':' || b[22] != b':' {
        return None;
    }
    let wd = ["Thu", "Fri", "Sat", "Sun", "Mon", "Tue", "Wed"].iter().position(|w| *w == &s[0..3])? as i64;
    let d: i64 = s[5..7].parse().ok()?;
    let mo = ["Jan", "Feb", "Mar", "Apr", "May", "Jun", "Jul", "Aug", "Sep", "Oct", "Nov", "Dec"].iter().position(|m| *m == &s[8..11])? as i64 + 1;
    let y: i64 = s[12..16].parse().ok()?;
    let h: i64 = s[17..19].parse().ok()?;
    let mi: i64 = s[20..22].parse().ok()?;
    let se: i64 = s[23..25].parse().ok()?;
    if !s[5..7].bytes().all(|c| c.is_ascii_digit()) || h > 23 || mi > 59 || se > 60 || d < 1 || d > 31 {
        return None;
    }
    let days = days_from_civil(y, mo, d);
    if (days.rem_euclid(7)) != wd {
        return None; // weekday does not match the date
    }
    Some(days * 86400 + h * 3600 + mi * 60 + se)
}

/// Howard Hinnant's days_from_civil.
pub fn days_from_civil(y: i64, m: i64, d: i64) -> i64 {
    let y = if m <= 2 { y - 1 } else { y };
    let era = if y >= 0 { y } else { y - 399 } / 400;
    let yoe = y - era * 400;
    let doy = (153 * (if m > 2 { m - 3 } else { m + 9 }) + 2) / 5 + d - 1;
    let doe = yoe * 365 + yoe / 4 - yoe / 100 + doy;
    era * 146097 + doe - 719468
}

/// Howard Hinnant's civil_from_days -> (y, m, d).
pub fn civil_from_days(z: i64) -> (i64, i64, i64) {
    let z = z + 719468;
    let era = if z >= 0 { z } else { z - 146096 } / 146097;
    let doe = z - era * 146097;
    let yoe = (doe - doe / 1460 + doe / 36524 - doe / 146096) / 365;
    let y = yoe + era * 400;
    let doy = doe - (365 * yoe + yoe / 4 - yoe / 100);
    let mp = (5 * doy + 2) / 153;
    let d = doy - (153 * mp + 2) / 5 + 1;
    let m = if mp < 10 { mp + 3 } else { mp - 9 };
    (if m <= 2 { y + 1 } else { y }, m, d)
}

pub fn format_imf_fixdate(ts: i64) -> String {
    let days = ts.div_euclid(86400);
    let sod = ts.rem_euclid(86400);
    let (y, m, d) = civil_from_days(days);
    let wd = ["Thu", "Fri", "Sat", "Sun", "Mon", "Tue", "Wed"][days.rem_euclid(7) as usize];
    let mo = ["Jan", "Feb", "Mar", "Apr", "May", "Jun", "Jul", "Aug", "Sep", "Oct", "Nov", "Dec"][(m - 1) as usize];
    format!("{}, {:02} {} {:04} {:02}:{:02}:{:02} GMT", wd, d, mo, y, sod / 3600, sod % 3600 / 60, sod % 60)
}

//! C04 laboratory: generated applications (host sub-apps, routes, websocket routes), a reference
//! router (host scan -> route scan -> default scan -> 404) and the client side. The match predicate
//! is supplied by the harness: `glob_ref`, an O(nm) dynamic-programming matcher written from the
//! property's definition of `*` (the same oracle C05 uses), so a wrong matcher shows up here too.

use crate::httplab::Conn;
use crate::json::J;
use crate::report::Report;
use crate::rng::Rng;
use crate::util::{fnv, show};
use std::net::SocketAddr;
use std::time::Duration;

#[derive(Clone, Debug)]
pub struct SubModel {
    /// None for the default sub-app
    pub host: Option<String>,
    pub routes: Vec<String>,
    pub ws_routes: Vec<String>,
}

/// CORS calls made on a sub-app after its routes are registered (a function of the model, so both runtimes and a
/// replay make the same calls): `Some(pattern)` = `with_cors_config(pattern, wildcard)`, `None` = `with_cors(wildcard)`.
/// Configuring CORS must not change which handler answers (seeded C04-K).
pub fn cors_plan(m: &SubModel) -> Vec<Option<String>> {
    if m.routes.is_empty() {
        return vec![];
    }
    let h = crate::util::fnv(m.routes.join("|").as_bytes());
    let n = m.routes.len() as u64;
    let a = m.routes[((h / 4) % n) as usize].clone();
    match h % 4 {
        0 => vec![],
        1 => vec![Some(a)],
        2 => vec![Some(m.routes[0].clone()), Some(a)],
        _ => vec![None, Some(a)],
    }
}

#[derive(Clone, Debug)]
pub struct AppModel {
    pub hosts: Vec<SubModel>,
    pub default: SubModel,
}

pub type Matcher = fn(&str, &str) -> bool;

/// Reference glob: `*` = any (possibly empty) sequence of characters, everything else itself.
pub fn glob_ref(pattern: &str, text: &str) -> bool {
    let p: Vec<char> = pattern.chars().collect();
    let t: Vec<char> = text.chars().collect();
    let (n, m) = (p.len(), t.len());
    let mut next = vec![false; m + 1];
    let mut cur = vec![false; m + 1];
    next[m] = true;
    for i in (0..n).rev() {
        for j in (0..=m).rev() {
            cur[j] = if p[i] == '*' { next[j] || (j < m && cur[j + 1]) } else { j < m && p[i] == t[j] && next[j + 1] };
        }
        std::mem::swap(&mut cur, &mut next);
    }
    next[0]
}

#[derive(Clone, Debug, PartialEq)]
pub enum Choice {
    /// (sub-app index: None = default, route index)
    Route(Option<usize>, usize),
    NotFound,
}

pub fn handler_name(sub: Option<usize>, route: usize, ws: bool) -> String {
    format!("{}{}{}{}", if ws { "WS:" } else { "" }, sub.map(|i| format!("h{}", i)).unwrap_or("d".into()), if ws { "w" } else { "r" }, route)
}

pub fn route_ref(m: &AppModel, host: Option<&str>, path: &str, ws: bool, matcher: Matcher) -> Choice {
    let routes_of = |s: &SubModel| if ws { s.ws_routes.clone() } else { s.routes.clone() };
    if let Some(h) = host {
        if let Some((i, sub)) = m.hosts.iter().enumerate().find(|(_, s)| matcher(s.host.as_ref().unwrap(), h)) {
            if let Some(j) = routes_of(sub).iter().position(|r| matcher(r, path)) {
                return Choice::Route(Some(i), j);
            }
        }
    }
    if let Some(j) = routes_of(&m.default).iter().position(|r| matcher(r, path)) {
        return Choice::Route(None, j);
    }
    Choice::NotFound
}

const LITS: [&str; 8] = ["a", "b", "ab", "api", "static", "x.y", "img", "é"];

fn gen_pattern(rng: &mut Rng) -> String {
    let l = |rng: &mut Rng| LITS[rng.usize(LITS.len())].to_string();
    match rng.below(15) {
        // patterns that do not begin with `/`: the pattern is matched as written against the whole path
        10 => format!("*/{}", l(rng)),
        11 => format!("*.{}", l(rng)),
        12 => "*".into(),
        13 => l(rng),
        14 => format!("{}/*", l(rng)),
        0 => "/*".into(),
        1 => "/".into(),
        2 => format!("/{}", l(rng)),
        3 => format!("/{}/*", l(rng)),
        4 => format!("/*.{}", l(rng)),
        5 => format!("/{}*{}", l(rng), l(rng)),
        6 => format!("/{}/*/{}", l(rng), l(rng)),
        7 => format!("/**{}", l(rng)),
        8 => format!("/{}*{}*", l(rng), l(rng)),
        _ => format!("*{}*", l(rng)),
    }
}

fn gen_host_pattern(rng: &mut Rng) -> String {
    match rng.below(12) {
        // `*` only in the interior, in several places, and as the whole pattern
        6 => "a.*.com".into(),
        7 => format!("{}*z.test", rng.pick(&["x", "y"])),
        8 => "*.example.*".into(),
        10 => "é.*".into(),
        11 => "*.ünï.test".into(),
        9 => "**".into(), // (`*` alone is refused by with_host, by documented contract)
        0 => "localhost".into(),
        1 => "*.example.com".into(),
        2 => "a.example.com".into(),
        3 => "*.com".into(),
        4 => "a.*".into(),
        _ => format!("{}.test*", rng.pick(&["x", "y"])),
    }
}

pub fn gen_app(rng: &mut Rng) -> AppModel {
    let sub = |rng: &mut Rng, host: Option<String>| SubModel { host, routes: (0..rng.urange(0, 6)).map(|_| gen_pattern(rng)).collect(), ws_routes: (0..rng.urange(0, 3)).map(|_| gen_pattern(rng)).collect() };
    let nh = rng.urange(0, 4);
    let hosts = (0..nh).map(|_| { let h = gen_host_pattern(rng); sub(rng, Some(h)) }).collect();
    AppModel { hosts, default: sub(rng, None) }
}

fn instantiate(rng: &mut Rng, pattern: &str) -> String {
    let mut s = String::new();
    let chars: Vec<char> = pattern.chars().collect();
    for (i, &c) in chars.iter().enumerate() {
        if c == '*' {
            for _ in 0..rng.urange(0, 3) {
                s.push_str(LITS[rng.usize(LITS.len())]);
                if rng.chance(1, 3) {
                    s.push('/');
                }
            }
            // self-overlap: a proper prefix (or a repeat minus its last character) of the literal that
            // follows the star, so that the literal "almost matches" before its real occurrence
            let lit: Vec<char> = chars[i + 1..].iter().cloned().take_while(|c| *c != '*').collect();
            if !lit.is_empty() && rng.chance(1, 3) {
                for _ in 0..rng.urange(1, 2) {
                    let k = rng.urange(1, lit.len().max(2) - 1).min(lit.len());
                    s.extend(lit[..k].iter());
                }
            }
        } else {
            s.push(c);
        }
    }
    if !s.starts_with('/') {
        s.insert(0, '/');
    }
    s
}

pub fn gen_path(rng: &mut Rng, m: &AppModel) -> String {
    let all: Vec<&String> = m.hosts.iter().flat_map(|h| h.routes.iter().chain(h.ws_routes.iter())).chain(m.default.routes.iter()).chain(m.default.ws_routes.iter()).collect();
    let p = if !all.is_empty() && rng.chance(3, 4) {
        let pick = all[rng.usize(all.len())].clone();
        let mut p = instantiate(rng, &pick);
        if rng.chance(1, 6) {
            p.push_str(LITS[rng.usize(LITS.len())]);
        }
        p
    } else {
        format!("/{}", (0..rng.urange(0, 3)).map(|_| LITS[rng.usize(LITS.len())]).collect::<Vec<_>>().join("/"))
    };
    // request targets carry non-ASCII percent-encoded or raw; raw UTF-8 is what the matcher sees either way here
    p
}

pub fn gen_host(rng: &mut Rng, m: &AppModel) -> Option<String> {
    match rng.below(8) {
        0 => None,
        1 => Some("nomatch.invalid".into()),
        2 if !m.hosts.is_empty() => {
            // instantiate a registered host pattern, sometimes with a port
            let p = m.hosts[rng.usize(m.hosts.len())].host.clone().unwrap();
            let fill: &str = *rng.pick(&["www", "a", "x.y", "", "a.example", "b.co", "x.c.co"]);
            let mut h = p.replace('*', fill);
            if rng.chance(1, 3) {
                h.push_str(":8080");
            }
            Some(h)
        }
        3 => Some("a.example.com".into()),
        4 => Some("localhost".into()),
        5 => Some("a.example.com:80".into()),
        6 => Some("x.test.org".into()),
        _ => Some(rng.pick(&["b.example.com", "a.b", "example.com", "LOCALHOST"]).to_string()),
    }
}

pub fn app_json(m: &AppModel) -> J {
    let sub = |s: &SubModel| J::obj(vec![("host", s.host.as_ref().map(J::s).unwrap_or(J::Null)), ("routes", J::arr_s(&s.routes)), ("ws_routes", J::arr_s(&s.ws_routes))]);
    J::obj(vec![("hosts", J::Arr(m.hosts.iter().map(sub).collect())), ("default", sub(&m.default))])
}

/// One request against the running app; returns the identity of what answered.
fn ask(addr: SocketAddr, method: &str, host: Option<&str>, path: &str, query: Option<&str>, extra: &[(&str, &str)], ws: bool) -> Result<String, String> {
    let mut c = Conn::open(addr).map_err(|e| e.to_string())?;
    let mut req = format!("{} {}{} HTTP/1.1\r\n", method, path, query.map(|q| format!("?{}", q)).unwrap_or_default());
    if let Some(h) = host {
        req.push_str(&format!("Host: {}\r\n", h));
    }
    for (k, v) in extra {
        req.push_str(&format!("{}: {}\r\n", k, v));
    }
    if ws {
        // Connection is a token list: `Upgrade` may stand alone, in either case, or beside other tokens
        let conn = ["Upgrade", "upgrade", "keep-alive, Upgrade", "Upgrade, keep-alive"][(fnv(path.as_bytes()) % 4) as usize];
        req.push_str(&format!("Upgrade: websocket\r\nConnection: {}\r\nSec-WebSocket-Key: aGVsbG8=\r\n", conn));
    }
    req.push_str("\r\n");
    // every other head that contains a multi-byte character is written in two segments, cut INSIDE the first such
    // character, a few milliseconds apart: the route and host chosen must not depend on where TCP cut the bytes
    // (seeded C05-K)
    match req.as_bytes().iter().position(|b| *b >= 0x80) {
        Some(i) if fnv(req.as_bytes()) % 2 == 0 => {
            use std::io::Write;
            c.s.write_all(&req.as_bytes()[..i + 1]).map_err(|e| e.to_string())?;
            std::thread::sleep(Duration::from_millis(4));
            c.s.write_all(&req.as_bytes()[i + 1..]).map_err(|e| e.to_string())?;
        }
        _ => c.send(req.as_bytes(), &[], 0).map_err(|e| e.to_string())?,
    }
    if ws {
        // the websocket handlers of the lab write their identity and return; no match = EOF with zero bytes
        c.wait_closed(Duration::from_secs(10));
        if !c.eof {
            return Err("websocket connection neither answered nor closed within 10 s".into());
        }
        let t = String::from_utf8_lossy(&c.buf).trim().to_string();
        return Ok(if t.is_empty() { "closed-without-upgrade".into() } else { t });
    }
    match c.read_response(Duration::from_secs(10)) {
        Ok(Some(m)) => Ok(if m.status() == 404 { "404".into() } else if m.status() == 204 && method == "OPTIONS" { "204".into() } else { String::from_utf8_lossy(&m.body).to_string() }),
        Ok(None) => Err("no response".into()),
        Err(e) => Err(format!("malformed response: {}", e)),
    }
}

/// Several plain HTTP requests on ONE keep-alive connection (the last one asks for close). `linewise`: every head
/// is written line by line with short pauses, an extra header line first, so that a read can end exactly at a
/// line boundary before `Host:`. Returns one answer per request (stops at the first failure).
fn ask_sequence(addr: SocketAddr, reqs: &[(String, Option<String>, String)], linewise: bool, ws_last: bool) -> Vec<Result<String, String>> {
    use std::io::Write;
    let mut out = Vec::new();
    let mut c = match Conn::open(addr) {
        Ok(c) => c,
        Err(e) => return vec![Err(e.to_string())],
    };
    for (i, (method, host, path)) in reqs.iter().enumerate() {
        let last = i + 1 == reqs.len();
        let mut lines: Vec<String> = vec![format!("{} {} HTTP/1.1\r\n", method, path), "X-First: 1\r\n".to_string()];
        if let Some(h) = host {
            lines.push(format!("Host: {}\r\n", h));
        }
        let ws = last && ws_last;
        if ws {
            lines.push("Upgrade: websocket\r\nConnection: Upgrade\r\nSec-WebSocket-Key: aGVsbG8=\r\n".to_string());
        } else {
            lines.push(format!("Connection: {}\r\n", if last { "close" } else { "keep-alive" }));
        }
        lines.push("\r\n".to_string());
        let sent = if linewise {
            lines.iter().all(|l| {
                let ok = c.s.write_all(l.as_bytes()).is_ok();
                std::thread::sleep(Duration::from_millis(2));
                ok
            })
        } else {
            c.s.write_all(lines.concat().as_bytes()).is_ok()
        };
        if ws {
            // as in `ask`: the lab's websocket handlers write their identity and return; no match = EOF, zero bytes
            c.wait_closed(Duration::from_secs(10));
            if !c.eof {
                out.push(Err("websocket connection neither answered nor closed within 10 s".into()));
                return out;
            }
            let t = String::from_utf8_lossy(&c.buf).trim().to_string();
            out.push(Ok(if t.is_empty() { "closed-without-upgrade".into() } else { t }));
            return out;
        }
        // a server that answers before the whole head was written (and closes) makes later writes fail: what it
        // answered is still the observation to judge
        match c.read_response(if sent { Duration::from_secs(10) } else { Duration::from_secs(2) }) {
            Ok(None) | Err(_) if !sent => {
                out.push(Err("connection lost before the request could be sent".into()));
                return out;
            }
            Ok(Some(m)) => {
                out.push(Ok(if m.status() == 404 { "404".into() } else { String::from_utf8_lossy(&m.body).to_string() }));
                if !matches!(m.framing, crate::httpref::Framing::ContentLength(_)) {
                    return out; // not self-delimiting: the stream cannot be followed further (C01's subject)
                }
                if !m.body.is_empty() {
                    crate::httplab::eat_body_crlf(&mut c);
                }
            }
            Ok(None) => {
                out.push(Err("no response".into()));
                return out;
            }
            Err(e) => {
                out.push(Err(format!("malformed response: {}", e)));
                return out;
            }
        }
    }
    out
}

/// Keep-alive sequences: the choice for each request depends on ITS Host and path only, not on what the
/// connection carried before.
pub fn run_keepalive_cases(r: &mut Report, addr: SocketAddr, m: &AppModel, rng: &mut Rng, nseq: usize, matcher: Matcher, runtime: &str, replay: &[String]) {
    for _ in 0..nseq {
        let n = rng.urange(2, 4);
        // half of the sequences keep the path fixed and vary only the Host (a per-connection memo keyed by path would show)
        let fixed_path = if rng.chance(1, 2) { Some(gen_path(rng, m)) } else { None };
        let reqs: Vec<(String, Option<String>, String)> = (0..n).map(|_| (rng.pick(&["GET", "POST", "PUT", "DELETE"]).to_string(), gen_host(rng, m), fixed_path.clone().unwrap_or_else(|| gen_path(rng, m)))).collect();
        let linewise = rng.chance(1, 2);
        // one sequence in four ends with a WebSocket upgrade: it is dispatched over the websocket routes whatever came before it
        let ws_last = rng.chance(1, 4);
        let mut reqs = reqs;
        if ws_last {
            reqs.last_mut().unwrap().0 = "GET".to_string();
            r.count("keepalive_sequences_ending_in_upgrade", 1);
        }
        let got = ask_sequence(addr, &reqs, linewise, ws_last);
        r.eval();
        r.count("keepalive_sequences", 1);
        for (i, (method, host, path)) in reqs.iter().enumerate() {
            let ws = ws_last && i + 1 == reqs.len();
            let want_name = match route_ref(m, host.as_deref(), path, ws, matcher) {
                Choice::Route(s, j) => handler_name(s, j, ws),
                Choice::NotFound => if ws { "closed-without-upgrade".into() } else { "404".into() },
            };
            match got.get(i) {
                Some(Ok(g)) if *g == want_name => r.count("keepalive_answers_matching_reference", 1),
                Some(Ok(g)) => {
                    let ex = J::obj(vec![("app", app_json(m)), ("connection", J::Arr(reqs.iter().map(|(me, h, p)| J::s(format!("{} {} Host={:?}", me, p, h))).collect())), ("request_index", J::u(i as u64)), ("delivery", J::s(if linewise { "line by line, 2 ms apart" } else { "one write per request" })), ("expected", J::s(&want_name)), ("got", J::s(show(g.as_bytes(), 80))), ("runtime", J::s(runtime))]);
                    r.violation("C04/keep-alive:wrong-handler", format!("[{}] request #{} of a keep-alive connection ({} {} Host {:?}, {}): answered by {:?}, the routing rule selects {:?}", runtime, i, method, path, host, if linewise { "head sent line by line" } else { "one write" }, show(g.as_bytes(), 40), want_name), ex, replay.to_vec());
                    break;
                }
                Some(Err(e)) => {
                    r.inconclusive(format!("keep-alive request failed: {}", e));
                    break;
                }
                None => break,
            }
        }
    }
}

pub fn run_app_cases(r: &mut Report, addr: SocketAddr, m: &AppModel, rng: &mut Rng, nreq: usize, matcher: Matcher, runtime: &str, replay: &[String]) {
    for _ in 0..nreq {
        let ws = rng.chance(1, 10);
        let host = gen_host(rng, m);
        let path = gen_path(rng, m);
        let want = route_ref(m, host.as_deref(), &path, ws, matcher);
        let want_name = match &want {
            Choice::Route(s, j) => handler_name(*s, *j, ws),
            Choice::NotFound => if ws { "closed-without-upgrade".into() } else { "404".into() },
        };
        r.eval();
        r.count(if ws { "websocket_upgrades" } else { "http_requests" }, 1);
        match &want {
            Choice::Route(Some(_), _) => r.count("expected_host_route", 1),
            Choice::Route(None, _) => r.count("expected_default_route", 1),
            Choice::NotFound => r.count("expected_no_route", 1),
        }
        // how many routes match: shadowing is only exercised when more than one does
        let nmatch = m.hosts.iter().chain(std::iter::once(&m.default)).flat_map(|s| if ws { s.ws_routes.iter() } else { s.routes.iter() }).filter(|p| matcher(p, &path)).count();
        if nmatch >= 2 {
            r.count("requests_matching_several_routes", 1);
            r.nontrivial(fnv(format!("{:?}|{:?}|{}|{}", app_json(m).to_string(), host, path, ws).as_bytes()));
        }
        // the query may itself contain `?`, `/`, `*` and text that looks like a registered path (RFC 3986 allows all of them)
        let q: &str = *rng.pick(&["q=1&r=/other", "", "next=/docs/x?y=1", "what?", "a?b?c", "?", "x=*", "/static/index.html", "q=%3F&r=%2F"]);
        let variants: Vec<(&str, Option<&str>, Vec<(&str, &str)>)> = if ws { vec![("GET", None, vec![]), ("GET", Some(q), vec![("X-Extra", "1")])] } else { vec![("GET", None, vec![]), (*rng.pick(&["POST", "PUT", "DELETE", "GET"]), Some(q), vec![("X-Extra", "1"), ("Accept", "*/*")])] };
        let mut variants = variants;
        if !ws && want == Choice::NotFound {
            // no route: 404 whatever the method, also for OPTIONS (which the library answers itself only for routed paths)
            variants.push(("OPTIONS", None, vec![]));
        }
        for (vi, (method, query, extra)) in variants.iter().enumerate() {
            let ex = |got: &str| J::obj(vec![("app", app_json(m)), ("host", host.as_ref().map(J::s).unwrap_or(J::Null)), ("path", J::s(&path)), ("websocket", J::Bool(ws)), ("method", J::s(*method)), ("query", query.map(J::s).unwrap_or(J::Null)), ("expected", J::s(&want_name)), ("got", J::s(show(got.as_bytes(), 80))), ("runtime", J::s(runtime))]);
            match ask(addr, method, host.as_deref(), &path, *query, extra, ws) {
                Ok(got) => {
                    if got != want_name {
                        let sig = if vi == 1 { "C04/choice-depends-on-query-method-or-headers" } else if ws { "C04/wrong-websocket-handler" } else { "C04/wrong-handler" };
                        r.violation(sig, format!("[{}] Host {:?} path {:?}{}: answered by {:?}, the routing rule selects {:?}", runtime, host, path, if ws { " (websocket upgrade)" } else { "" }, show(got.as_bytes(), 40), want_name), ex(&got), replay.to_vec());
                    } else {
                        r.count("answers_matching_reference", 1);
                    }
                }
                Err(e) => r.inconclusive(format!("request failed: {}", e)),
            }
        }
    }
}

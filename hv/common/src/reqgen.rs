//! Generator + model of well-formed HTTP/1.x requests (the grammar C02 quantifies over), and the
//! comparison of an observed parse result with the model. Shared by the sync and tokio harnesses.

use crate::json::J;
use crate::rng::Rng;
use crate::util::{hex, show};

#[derive(Clone, Debug)]
pub struct ReqModel {
    pub method: String,
    pub path: String,
    pub query: Option<String>,
    pub version: String,
    /// (name as sent, optional whitespace after the colon, value)
    pub fields: Vec<(String, usize, String)>,
    pub body: Option<Vec<u8>>,
    /// addresses listed in the single X-Forwarded-For field, in order
    pub xff: Option<Vec<String>>,
    pub cookies: Option<Vec<(String, String)>>,
}

#[derive(Clone, Debug, Default)]
pub struct Obs {
    pub method: String,
    pub uri: String,
    pub query: String,
    pub version: String,
    pub nheaders: usize,
    /// for every lower-cased name the model knows: all values in order
    pub per_name: Vec<(String, Vec<String>)>,
    pub cookies: Vec<(String, String)>,
    pub origin: String,
    pub proxies: Vec<String>,
    pub port: u16,
    pub content: Option<Vec<u8>>,
}

const KNOWN: [&str; 14] = ["Accept", "Accept-Encoding", "Accept-Language", "Authorization", "Cache-Control", "Content-Type", "Host", "Origin", "Pragma", "Referer", "User-Agent", "Via", "ETag", "Link"];

pub struct GenOpts {
    pub max_fields: usize,
    pub max_body: usize,
    pub allow_xff: bool,
}

fn random_case(rng: &mut Rng, s: &str) -> String {
    s.chars().map(|c| if rng.chance(1, 2) { c.to_ascii_uppercase() } else { c.to_ascii_lowercase() }).collect()
}

fn gen_path(rng: &mut Rng) -> String {
    let nseg = rng.urange(0, 4);
    let mut p = String::from("/");
    for i in 0..nseg {
        let n = rng.urange(1, 8);
        for _ in 0..n {
            match rng.below(12) {
                0 => p.push_str(&format!("%{:02X}", rng.below(256))),
                1 => p.push(*rng.pick(&[':', '@', '!', '$', '&', '\'', '(', ')', '*', '+', ',', ';', '='])),
                2 => p.push(*rng.pick(&['-', '.', '_', '~'])),
                _ => p.push((b'a' + rng.below(26) as u8) as char),
            }
        }
        if i + 1 < nseg || rng.chance(1, 4) {
            p.push('/');
        }
    }
    p
}

fn gen_query(rng: &mut Rng) -> String {
    let n = rng.urange(0, 12);
    let mut q = String::new();
    for _ in 0..n {
        match rng.below(10) {
            0 => q.push('?'),
            1 => q.push('='),
            2 => q.push('&'),
            3 => q.push_str(&format!("%{:02x}", rng.below(256))),
            4 => q.push('/'),
            _ => q.push((b'a' + rng.below(26) as u8) as char),
        }
    }
    q
}

fn gen_value(rng: &mut Rng) -> String {
    let n = match rng.below(8) {
        0 => 0,
        1..=5 => rng.urange(1, 20),
        _ => rng.urange(20, 300),
    };
    let mut v = String::new();
    for _ in 0..n {
        match rng.below(14) {
            0 => v.push(' '),
            1 => v.push('\t'),
            2 => v.push(*rng.pick(&['é', 'ü', '€', '日', '😀', '\u{a0}'])),
            3 => v.push(*rng.pick(&[':', ';', ',', '=', '"', '/', '?', '%', '\\'])),
            _ => v.push((0x21 + rng.below(0x5e) as u8) as char),
        }
    }
    // no leading/trailing whitespace (the statement excludes trailing whitespace; leading is OWS)
    v.trim_matches(|c| c == ' ' || c == '\t').to_string()
}

fn gen_ip(rng: &mut Rng) -> String {
    if rng.chance(2, 3) {
        format!("{}.{}.{}.{}", rng.below(256), rng.below(256), rng.below(256), rng.below(256))
    } else {
        match rng.below(3) {
            0 => "::1".to_string(),
            1 => format!("2001:db8::{:x}", rng.below(65536)),
            _ => format!("fe80::{:x}:{:x}", rng.below(65536), rng.below(65536)),
        }
    }
}

pub fn gen_request(rng: &mut Rng, o: &GenOpts) -> ReqModel {
    let method = rng.pick(&["GET", "POST", "PUT", "DELETE", "OPTIONS"]).to_string();
    let path = gen_path(rng);
    let query = if rng.chance(1, 2) { Some(gen_query(rng)) } else { None };
    let version = rng.pick(&["HTTP/1.1", "HTTP/1.0"]).to_string();
    let nfields = match rng.below(10) {
        0 => 0,
        1..=6 => rng.urange(1, 8.min(o.max_fields.max(1))),
        _ => rng.urange(0, o.max_fields),
    }
    .min(o.max_fields);
    let mut fields: Vec<(String, usize, String)> = Vec::new();
    // a small pool of names so that repeats are common; repeats are interleaved with other names
    let mut pool: Vec<String> = Vec::new();
    for _ in 0..rng.urange(1, 6) {
        if rng.chance(1, 2) {
            pool.push(rng.pick(&KNOWN).to_string());
        } else {
            let n = rng.urange(1, 10);
            let mut s = String::from("X-");
            for _ in 0..n {
                s.push(*rng.pick(&['a', 'b', 'c', 'Z', '9', '-', '_', '!', '#', '~']));
            }
            pool.push(s);
        }
    }
    for _ in 0..nfields {
        // one field in six repeats an earlier field exactly (same name up to case, byte-identical value): two
        // such fields are two fields, in the parse result and after a relay (seeded C02-L)
        if !fields.is_empty() && rng.chance(1, 6) {
            let (n0, _, v0) = fields[rng.below(fields.len() as u64) as usize].clone();
            let name = if rng.chance(1, 2) { n0 } else { random_case(rng, &n0) };
            fields.push((name, rng.urange(0, 3), v0));
            continue;
        }
        let base = rng.pick(&pool).clone();
        fields.push((random_case(rng, &base), rng.urange(0, 3), gen_value(rng)));
    }
    let mut cookies = None;
    if rng.chance(1, 4) && fields.len() < o.max_fields {
        let n = rng.urange(1, 4);
        let mut cs = Vec::new();
        let mut text = String::new();
        for i in 0..n {
            let name: String = (0..rng.urange(1, 6)).map(|_| (b'a' + rng.below(26) as u8) as char).collect();
            let val: String = (0..rng.urange(0, 8)).map(|_| *rng.pick(&['a', 'B', '1', '=', '-', '.', '%'])).collect();
            if i > 0 {
                text.push(';');
                text.push_str(&" ".repeat(rng.urange(0, 2)));
            }
            text.push_str(&name);
            text.push_str(&" ".repeat(rng.urange(0, 1)));
            text.push('=');
            text.push_str(&val);
            cs.push((name, val));
        }
        let at = rng.urange(0, fields.len());
        fields.insert(at, (random_case(rng, "Cookie"), rng.urange(0, 2), text));
        cookies = Some(cs);
    }
    let mut xff = None;
    if o.allow_xff && rng.chance(1, 3) && fields.len() < o.max_fields {
        let n = rng.urange(1, 4);
        let ips: Vec<String> = (0..n).map(|_| gen_ip(rng)).collect();
        let mut text = String::new();
        for (i, ip) in ips.iter().enumerate() {
            if i > 0 {
                text.push(',');
                if rng.chance(1, 2) {
                    text.push(' ');
                }
            }
            text.push_str(ip);
        }
        let at = rng.urange(0, fields.len());
        fields.insert(at, (random_case(rng, "X-Forwarded-For"), rng.urange(0, 2), text));
        xff = Some(ips);
    }
    let body = if rng.chance(1, 2) && fields.len() < o.max_fields.max(1) {
        let n = match rng.below(6) {
            0 => 0,
            1..=3 => rng.urange(1, 200),
            4 => rng.urange(200, 5000.min(o.max_body.max(200))),
            _ => rng.urange(0, o.max_body),
        }
        .min(o.max_body);
        let b = match rng.below(3) {
            0 => rng.bytes(n),
            1 => (0..n).map(|_| *rng.pick(b"\r\n :GET/HTP1.")).collect(),
            _ => (0..n).map(|_| b'a' + rng.below(26) as u8).collect(),
        };
        let at = rng.urange(0, fields.len());
        fields.insert(at, (random_case(rng, "Content-Length"), rng.urange(0, 2), n.to_string()));
        Some(b)
    } else {
        None
    };
    ReqModel { method, path, query, version, fields, body, xff, cookies }
}

impl ReqModel {
    pub fn render(&self) -> Vec<u8> {
        let mut v = Vec::new();
        v.extend_from_slice(self.method.as_bytes());
        v.push(b' ');
        v.extend_from_slice(self.path.as_bytes());
        if let Some(q) = &self.query {
            v.push(b'?');
            v.extend_from_slice(q.as_bytes());
        }
        v.push(b' ');
        v.extend_from_slice(self.version.as_bytes());
        v.extend_from_slice(b"\r\n");
        for (n, ows, val) in &self.fields {
            v.extend_from_slice(n.as_bytes());
            v.push(b':');
            v.extend(std::iter::repeat(b' ').take(*ows));
            v.extend_from_slice(val.as_bytes());
            v.extend_from_slice(b"\r\n");
        }
        v.extend_from_slice(b"\r\n");
        if let Some(b) = &self.body {
            v.extend_from_slice(b);
        }
        v
    }

    /// distinct lower-cased field names in first-occurrence order
    pub fn names(&self) -> Vec<String> {
        let mut out: Vec<String> = Vec::new();
        for (n, _, _) in &self.fields {
            let l = n.to_ascii_lowercase();
            if !out.contains(&l) {
                out.push(l);
            }
        }
        out
    }

    pub fn values_of(&self, lname: &str) -> Vec<String> {
        self.fields.iter().filter(|(n, _, _)| n.eq_ignore_ascii_case(lname)).map(|(_, _, v)| v.clone()).collect()
    }

    pub fn to_json(&self) -> J {
        J::obj(vec![
            ("request_line", J::s(format!("{} {}{} {}", self.method, self.path, self.query.as_ref().map(|q| format!("?{}", q)).unwrap_or_default(), self.version))),
            ("nfields", J::u(self.fields.len() as u64)),
            ("fields", J::Arr(self.fields.iter().take(6).map(|(n, o, v)| J::s(format!("{}:{}{}", n, " ".repeat(*o), show(v.as_bytes(), 60)))).collect())),
            ("body_len", self.body.as_ref().map(|b| J::u(b.len() as u64)).unwrap_or(J::Null)),
            ("xff", self.xff.as_ref().map(|x| J::arr_s(x)).unwrap_or(J::Null)),
        ])
    }

    /// Compare an observed parse with the model. Returns (signature, description) pairs.
    pub fn compare(&self, o: &Obs, peer_ip: &str, peer_port: u16, ctx: &str) -> Vec<(String, String)> {
        let mut v: Vec<(String, String)> = Vec::new();
        let mut bad = |sig: &str, what: String| v.push((format!("C02/{}:{}", ctx, sig), what));
        if o.method != self.method {
            bad("method", format!("method {:?} != sent {:?}", o.method, self.method));
        }
        if o.uri != self.path {
            bad("path", format!("path {:?} != sent {:?}", o.uri, self.path));
        }
        if o.query != self.query.clone().unwrap_or_default() {
            bad("query", format!("query {:?} != sent {:?}", o.query, self.query));
        }
        if o.version != self.version {
            bad("version", format!("version {:?} != sent {:?}", o.version, self.version));
        }
        if o.nheaders != self.fields.len() {
            bad("header-count", format!("{} header fields parsed, {} sent", o.nheaders, self.fields.len()));
        }
        for n in self.names() {
            let want = self.values_of(&n);
            let got = o.per_name.iter().find(|(k, _)| *k == n).map(|(_, v)| v.clone()).unwrap_or_default();
            if got != want {
                let mut gs = got.clone();
                let mut ws = want.clone();
                gs.sort();
                ws.sort();
                if gs == ws {
                    bad("same-name-order", format!("values of repeated field {:?} are reordered: {:?} instead of {:?}", n, got.iter().map(|x| show(x.as_bytes(), 30)).collect::<Vec<_>>(), want.iter().map(|x| show(x.as_bytes(), 30)).collect::<Vec<_>>()));
                } else {
                    bad("header-values", format!("values of field {:?}: {:?} instead of {:?}", n, got.iter().map(|x| show(x.as_bytes(), 40)).collect::<Vec<_>>(), want.iter().map(|x| show(x.as_bytes(), 40)).collect::<Vec<_>>()));
                }
            }
        }
        if let Some(cs) = &self.cookies {
            if &o.cookies != cs {
                bad("cookies", format!("cookies {:?} != sent {:?}", o.cookies, cs));
            }
        } else if !o.cookies.is_empty() {
            bad("cookies", format!("cookies {:?} reported but no Cookie field sent", o.cookies));
        }
        let norm = |s: &str| s.parse::<std::net::IpAddr>().map(|i| i.to_string()).unwrap_or(s.to_string());
        match &self.xff {
            Some(ips) => {
                let want_origin = norm(ips.last().unwrap());
                let mut want_prox: Vec<String> = ips[..ips.len() - 1].iter().map(|s| norm(s)).collect();
                want_prox.push(norm(peer_ip));
                if o.origin != want_origin || o.proxies != want_prox {
                    // narrow classifier for the untrimmed-entry defect: the SUT's view equals the model's view of the
                    // list with every entry that follows ", " removed
                    bad("forwarded-address", format!("X-Forwarded-For {:?} from peer {}: origin {} proxies {:?}, expected origin {} proxies {:?}", ips, peer_ip, o.origin, o.proxies, want_origin, want_prox));
                }
            }
            None => {
                if o.origin != norm(peer_ip) || !o.proxies.is_empty() {
                    bad("peer-address", format!("origin {} proxies {:?} without X-Forwarded-For from peer {}", o.origin, o.proxies, peer_ip));
                }
            }
        }
        if o.port != peer_port {
            bad("port", format!("port {} != peer port {}", o.port, peer_port));
        }
        if o.content != self.body {
            bad("body", format!("body {:?} != sent {:?}", o.content.as_ref().map(|b| show(b, 40)), self.body.as_ref().map(|b| show(b, 40))));
        }
        v
    }

    pub fn replay_hex(&self) -> String {
        hex(&self.render())
    }
}

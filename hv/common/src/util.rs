//! Small helpers: hex, fingerprints, printable rendering, parallel sharding.

pub fn hex(b: &[u8]) -> String {
    let mut s = String::with_capacity(b.len() * 2);
    for x in b {
        s.push_str(&format!("{:02x}", x));
    }
    s
}

pub fn unhex(s: &str) -> Option<Vec<u8>> {
    if s.len() % 2 != 0 {
        return None;
    }
    (0..s.len() / 2).map(|i| u8::from_str_radix(s.get(2 * i..2 * i + 2)?, 16).ok()).collect()
}

/// FNV-1a 64-bit: fingerprint of a case for the distinct-case count.
pub fn fnv(b: &[u8]) -> u64 {
    let mut h: u64 = 0xcbf29ce484222325;
    for x in b {
        h ^= *x as u64;
        h = h.wrapping_mul(0x100000001b3);
    }
    h
}

pub fn fnv_parts(parts: &[&[u8]]) -> u64 {
    let mut h: u64 = 0xcbf29ce484222325;
    for p in parts {
        for x in p.iter() {
            h ^= *x as u64;
            h = h.wrapping_mul(0x100000001b3);
        }
        h ^= 0xff;
        h = h.wrapping_mul(0x100000001b3);
    }
    h
}

/// Render bytes for humans: printable ASCII kept, the rest as \xNN; truncated.
pub fn show(b: &[u8], max: usize) -> String {
    let mut s = String::new();
    for (i, x) in b.iter().enumerate() {
        if i >= max {
            s.push_str(&format!("…(+{} B)", b.len() - max));
            break;
        }
        match *x {
            b'\r' => s.push_str("\\r"),
            b'\n' => s.push_str("\\n"),
            b'\\' => s.push_str("\\\\"),
            0x20..=0x7e => s.push(*x as char),
            _ => s.push_str(&format!("\\x{:02x}", x)),
        }
    }
    s
}

/// Run `f(shard, nshards)` on `n` threads and collect the results in shard order.
pub fn par<T: Send + 'static>(n: usize, f: impl Fn(usize, usize) -> T + Send + Sync + 'static) -> Vec<T> {
    let f = std::sync::Arc::new(f);
    let hs: Vec<_> = (0..n)
        .map(|i| {
            let f = f.clone();
            std::thread::Builder::new()
                .name(format!("shard{}", i))
                .stack_size(16 << 20)
                .spawn(move || f(i, n))
                .unwrap()
        })
        .collect();
    hs.into_iter().map(|h| h.join().expect("shard thread panicked (harness error)")).collect()
}

pub fn ncpu() -> usize {
    std::thread::available_parallelism().map(|n| n.get()).unwrap_or(4).min(16)
}

/// Extract a readable message from a panic payload.
pub fn panic_msg(p: &(dyn std::any::Any + Send)) -> String {
    if let Some(s) = p.downcast_ref::<&str>() {
        s.to_string()
    } else if let Some(s) = p.downcast_ref::<String>() {
        s.clone()
    } else {
        "<non-string panic payload>".to_string()
    }
}

thread_local! {
    static LAST_PANIC_LOC: std::cell::RefCell<Option<String>> = const { std::cell::RefCell::new(None) };
}

/// Install (once per process) a panic hook that remembers, per thread, where the last panic was raised; the
/// previously installed hook still runs afterwards.
pub fn install_panic_loc_hook() {
    static ONCE: std::sync::Once = std::sync::Once::new();
    ONCE.call_once(|| {
        let prev = std::panic::take_hook();
        std::panic::set_hook(Box::new(move |info| {
            let loc = info.location().map(|l| format!("{}:{}", l.file(), l.line())).unwrap_or_else(|| "?".into());
            LAST_PANIC_LOC.with(|c| *c.borrow_mut() = Some(loc));
            prev(info);
        }));
    });
}

/// Run `f`, turning a panic into `Err((message, location))`. The location is relative to the repository when the
/// panic was raised in the code under test (`/repo/...`), which is what makes it attributable.
pub fn catch_panic<T>(f: impl FnOnce() -> T) -> Result<T, (String, String)> {
    install_panic_loc_hook();
    LAST_PANIC_LOC.with(|c| *c.borrow_mut() = None);
    match std::panic::catch_unwind(std::panic::AssertUnwindSafe(f)) {
        Ok(v) => Ok(v),
        Err(p) => {
            let loc = LAST_PANIC_LOC.with(|c| c.borrow().clone()).unwrap_or_else(|| "?".into());
            Err((panic_msg(&*p), loc.strip_prefix("/repo/").map(|s| s.to_string()).unwrap_or(loc)))
        }
    }
}

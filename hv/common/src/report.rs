//! What a harness run observed: counts, distinct non-trivial case fingerprints, samples,
//! monitor-specific counters, violations grouped by signature, inconclusive reasons.

use crate::json::J;
use std::collections::{BTreeMap, HashSet};

#[derive(Clone, Debug)]
pub struct Violation {
    pub sig: String,
    pub what: String,
    pub count: u64,
    /// concrete witness (first seen)
    pub example: J,
    /// argv that re-executes the witness without the generator
    pub replay: Vec<String>,
}

#[derive(Default, Clone, Debug)]
pub struct Report {
    pub evaluations: u64,
    pub distinct: HashSet<u64>,
    pub samples: Vec<J>,
    pub max_samples: usize,
    pub counters: BTreeMap<String, u64>,
    pub sets: BTreeMap<String, HashSet<u64>>,
    pub maxima: BTreeMap<String, u64>,
    pub notes: BTreeMap<String, J>,
    pub violations: BTreeMap<String, Violation>,
    pub inconclusive: Vec<String>,
    pub harness_errors: Vec<String>,
}

impl Report {
    pub fn new() -> Self {
        Report { max_samples: 6, ..Default::default() }
    }

    pub fn eval(&mut self) {
        self.evaluations += 1;
    }

    /// Record the fingerprint of a case that satisfies the property's non-triviality rule.
    pub fn nontrivial(&mut self, fp: u64) {
        self.distinct.insert(fp);
    }

    pub fn sample(&mut self, j: J) {
        if self.samples.len() < self.max_samples {
            self.samples.push(j);
        }
    }

    pub fn count(&mut self, key: &str, n: u64) {
        *self.counters.entry(key.to_string()).or_insert(0) += n;
    }

    pub fn set_insert(&mut self, key: &str, fp: u64) {
        self.sets.entry(key.to_string()).or_default().insert(fp);
    }

    pub fn max(&mut self, key: &str, v: u64) {
        let e = self.maxima.entry(key.to_string()).or_insert(0);
        if v > *e {
            *e = v;
        }
    }

    pub fn note(&mut self, key: &str, v: J) {
        self.notes.insert(key.to_string(), v);
    }

    pub fn violation(&mut self, sig: &str, what: impl Into<String>, example: J, replay: Vec<String>) {
        match self.violations.get_mut(sig) {
            Some(v) => v.count += 1,
            None => {
                self.violations.insert(
                    sig.to_string(),
                    Violation { sig: sig.to_string(), what: what.into(), count: 1, example, replay },
                );
            }
        }
    }

    /// how many violating executions have been recorded so far (all signatures)
    pub fn violation_instances(&self) -> u64 {
        self.violations.values().map(|v| v.count).sum()
    }

    pub fn inconclusive(&mut self, why: impl Into<String>) {
        let w = why.into();
        if self.inconclusive.len() < 50 && !self.inconclusive.contains(&w) {
            self.inconclusive.push(w);
        }
    }

    pub fn harness_error(&mut self, why: impl Into<String>) {
        let w = why.into();
        if self.harness_errors.len() < 50 && !self.harness_errors.contains(&w) {
            self.harness_errors.push(w);
        }
    }

    pub fn merge(&mut self, o: Report) {
        self.evaluations += o.evaluations;
        self.distinct.extend(o.distinct);
        for s in o.samples {
            self.sample(s);
        }
        for (k, v) in o.counters {
            *self.counters.entry(k).or_insert(0) += v;
        }
        for (k, v) in o.sets {
            self.sets.entry(k).or_default().extend(v);
        }
        for (k, v) in o.maxima {
            self.max(&k, v);
        }
        for (k, v) in o.notes {
            self.notes.entry(k).or_insert(v);
        }
        for (k, v) in o.violations {
            match self.violations.get_mut(&k) {
                Some(m) => m.count += v.count,
                None => {
                    self.violations.insert(k, v);
                }
            }
        }
        for w in o.inconclusive {
            self.inconclusive(w);
        }
        for w in o.harness_errors {
            self.harness_error(w);
        }
    }

    pub fn merge_all(rs: Vec<Report>) -> Report {
        let mut it = rs.into_iter();
        let mut r = it.next().unwrap_or_else(Report::new);
        for o in it {
            r.merge(o);
        }
        r
    }

    pub fn to_json(&self, rule: &str, exhaustive: Option<bool>, assumptions: &[&str]) -> J {
        let mut kv: Vec<(String, J)> = vec![
            ("evaluations".into(), J::u(self.evaluations)),
            ("distinct_nontrivial".into(), J::u(self.distinct.len() as u64)),
            ("rule".into(), J::s(rule)),
            ("samples".into(), J::Arr(self.samples.clone())),
        ];
        if let Some(e) = exhaustive {
            kv.push(("exhaustive".into(), J::Bool(e)));
        }
        let mut extra: Vec<(String, J)> = Vec::new();
        for (k, v) in &self.counters {
            extra.push((k.clone(), J::u(*v)));
        }
        for (k, v) in &self.sets {
            extra.push((k.clone(), J::u(v.len() as u64)));
        }
        for (k, v) in &self.maxima {
            extra.push((k.clone(), J::u(*v)));
        }
        for (k, v) in &self.notes {
            extra.push((k.clone(), v.clone()));
        }
        kv.push(("extra".into(), J::Obj(extra)));
        kv.push((
            "violations".into(),
            J::Arr(
                self.violations
                    .values()
                    .map(|v| {
                        J::obj(vec![
                            ("sig", J::s(&v.sig)),
                            ("what", J::s(&v.what)),
                            ("count", J::u(v.count)),
                            ("example", v.example.clone()),
                            ("replay", J::arr_s(&v.replay)),
                        ])
                    })
                    .collect(),
            ),
        ));
        kv.push(("inconclusive".into(), J::arr_s(&self.inconclusive)));
        kv.push(("harness_errors".into(), J::arr_s(&self.harness_errors)));
        kv.push(("assumptions".into(), J::arr_s(assumptions)));
        J::Obj(kv)
    }

    /// Write the result file the driver reads.
    pub fn write(&self, path: &str, rule: &str, exhaustive: Option<bool>, assumptions: &[&str]) {
        let j = self.to_json(rule, exhaustive, assumptions);
        std::fs::write(path, j.to_string()).expect("cannot write result file");
    }
}

//! SplitMix64-seeded xoshiro256**: deterministic, no external semantics to depend on.

#[derive(Clone, Debug)]
pub struct Rng {
    s: [u64; 4],
}

pub fn splitmix(x: &mut u64) -> u64 {
    *x = x.wrapping_add(0x9E37_79B9_7F4A_7C15);
    let mut z = *x;
    z = (z ^ (z >> 30)).wrapping_mul(0xBF58_476D_1CE4_E5B9);
    z = (z ^ (z >> 27)).wrapping_mul(0x94D0_49BB_1331_11EB);
    z ^ (z >> 31)
}

impl Rng {
    pub fn new(seed: u64) -> Self {
        let mut x = seed;
        let s = [splitmix(&mut x), splitmix(&mut x), splitmix(&mut x), splitmix(&mut x)];
        Rng { s }
    }

    /// Independent stream for (seed, lane): used for per-case sub-seeds.
    pub fn derive(seed: u64, lane: u64) -> Self {
        let mut x = seed ^ lane.wrapping_mul(0xD6E8_FEB8_6659_FD93);
        let a = splitmix(&mut x);
        Rng::new(a ^ lane.rotate_left(17))
    }

    pub fn next_u64(&mut self) -> u64 {
        let r = self.s[1].wrapping_mul(5).rotate_left(7).wrapping_mul(9);
        let t = self.s[1] << 17;
        self.s[2] ^= self.s[0];
        self.s[3] ^= self.s[1];
        self.s[1] ^= self.s[2];
        self.s[0] ^= self.s[3];
        self.s[2] ^= t;
        self.s[3] = self.s[3].rotate_left(45);
        r
    }

    /// Uniform in 0..n (n > 0).
    pub fn below(&mut self, n: u64) -> u64 {
        assert!(n > 0);
        // multiply-shift; bias is irrelevant for workload generation
        ((self.next_u64() as u128 * n as u128) >> 64) as u64
    }

    pub fn usize(&mut self, n: usize) -> usize {
        self.below(n as u64) as usize
    }

    /// Uniform in lo..=hi.
    pub fn range(&mut self, lo: u64, hi: u64) -> u64 {
        lo + self.below(hi - lo + 1)
    }

    pub fn urange(&mut self, lo: usize, hi: usize) -> usize {
        self.range(lo as u64, hi as u64) as usize
    }

    /// True with probability num/den.
    pub fn chance(&mut self, num: u64, den: u64) -> bool {
        self.below(den) < num
    }

    pub fn pick<'a, T>(&mut self, xs: &'a [T]) -> &'a T {
        &xs[self.usize(xs.len())]
    }

    pub fn bytes(&mut self, n: usize) -> Vec<u8> {
        let mut v = Vec::with_capacity(n);
        while v.len() < n {
            let x = self.next_u64().to_le_bytes();
            let k = (n - v.len()).min(8);
            v.extend_from_slice(&x[..k]);
        }
        v
    }

    pub fn shuffle<T>(&mut self, xs: &mut [T]) {
        for i in (1..xs.len()).rev() {
            let j = self.usize(i + 1);
            xs.swap(i, j);
        }
    }

    pub fn f64(&mut self) -> f64 {
        (self.next_u64() >> 11) as f64 / (1u64 << 53) as f64
    }
}

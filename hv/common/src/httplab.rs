//! C01 laboratory shared by the threaded (`hv`) and tokio (`hvt`) harnesses: script generator,
//! client-side player over real TCP connections, reference model of the expected responses,
//! and the comparison with the handler-side log. Independent of Humphrey.

use crate::httpref::{parse_imf_fixdate, parse_response, Framing, Parse, RefMessage};
use crate::json::J;
use crate::report::Report;
use crate::rng::Rng;
use crate::util::{fnv, hex, show};
use std::io::{Read, Write};
use std::net::{SocketAddr, TcpStream};
use std::time::{Duration, Instant, SystemTime, UNIX_EPOCH};

#[derive(Clone, Debug, PartialEq)]
pub struct Logged {
    pub xid: String,
    pub method: String,
    pub uri: String,
    pub query: String,
    pub version: String,
    pub body: Option<Vec<u8>>,
}

pub trait Lab: Sync {
    /// app without connection timeout; at most `pool()` connections are served at the same time
    fn addr(&self) -> SocketAddr;
    fn pool(&self) -> usize;
    /// app with a 250 ms connection timeout (None where the runtime has no such knob)
    fn timeout_addr(&self) -> Option<SocketAddr>;
    /// handler-side log entries whose X-Id starts with the prefix (removed from the log)
    fn take_log(&self, xid_prefix: &str) -> Vec<Logged>;
    fn runtime(&self) -> &'static str;
}

pub const TIMEOUT_MS: u64 = 250;

#[derive(Clone, Debug, PartialEq)]
pub enum Target {
    R(u32),
    Unrouted,
    CorsA,
    CorsB,
    CorsC,
    Echo,
    Empty,
    Panic,
    /// host sub-app "cors.hv" whose CORS configuration was set for the whole sub-app BEFORE its routes were registered:
    /// a path-aware route `/pa/*` and a plain route `/late` (seeded C01-M)
    HostPathAware(u32),
    HostLate,
}

#[derive(Clone, Debug)]
pub struct ReqSpec {
    pub xid: String,
    pub method: &'static str,
    pub target: Target,
    pub conn: Option<String>,
    pub version: &'static str,
    pub body: Option<Vec<u8>>,
}

#[derive(Clone, Debug, PartialEq)]
pub enum Ending {
    None,
    Malformed(&'static str),
    Idle,
}

#[derive(Clone, Debug)]
pub struct Script {
    pub id: String,
    pub reqs: Vec<ReqSpec>,
    pub ending: Ending,
}

pub const MALFORMED: [&str; 8] = ["unknown-method", "two-part-start-line", "empty-version", "field-without-colon", "non-numeric-length", "negative-length", "invalid-utf8-field", "lowercase-method"];

pub fn malformed_bytes(kind: &str) -> Vec<u8> {
    match kind {
        "unknown-method" => b"BREW /r/1 HTTP/1.1\r\nHost: hv\r\n\r\n".to_vec(),
        "two-part-start-line" => b"GET /r/1\r\nHost: hv\r\n\r\n".to_vec(),
        "empty-version" => b"GET /r/1 \r\nHost: hv\r\n\r\n".to_vec(),
        "field-without-colon" => b"GET /r/1 HTTP/1.1\r\nHost hv\r\n\r\n".to_vec(),
        "non-numeric-length" => b"POST /echo HTTP/1.1\r\nHost: hv\r\nContent-Length: abc\r\n\r\n".to_vec(),
        "negative-length" => b"POST /echo HTTP/1.1\r\nHost: hv\r\nContent-Length: -5\r\n\r\n".to_vec(),
        "invalid-utf8-field" => b"GET /r/1 HTTP/1.1\r\nHost: hv\r\nX-Bad: \xff\xfe\r\n\r\n".to_vec(),
        _ => b"get /r/1 HTTP/1.1\r\nHost: hv\r\n\r\n".to_vec(),
    }
}

impl ReqSpec {
    pub fn path(&self) -> String {
        match &self.target {
            Target::R(n) => format!("/r/{}", n),
            Target::Unrouted => "/nowhere/at/all".to_string(),
            Target::CorsA => "/cors/a".into(),
            Target::CorsB => "/cors/b".into(),
            Target::CorsC => "/cors/c".into(),
            Target::Echo => "/echo".into(),
            Target::Empty => "/empty".into(),
            Target::Panic => "/panic".into(),
            Target::HostPathAware(n) => format!("/pa/{}", n),
            Target::HostLate => "/late".into(),
        }
    }
    pub fn host(&self) -> &'static str {
        match &self.target {
            Target::HostPathAware(_) | Target::HostLate => "cors.hv",
            _ => "hv",
        }
    }
    pub fn query(&self) -> String {
        format!("id={}", self.xid)
    }
    pub fn render(&self) -> Vec<u8> {
        let mut v = format!("{} {}?{} {}\r\nHost: {}\r\nX-Id: {}\r\n", self.method, self.path(), self.query(), self.version, self.host(), self.xid).into_bytes();
        if let Some(c) = &self.conn {
            v.extend_from_slice(format!("Connection: {}\r\n", c).as_bytes());
        }
        if let Some(b) = &self.body {
            v.extend_from_slice(format!("Content-Length: {}\r\n", b.len()).as_bytes());
        }
        v.extend_from_slice(b"\r\n");
        if let Some(b) = &self.body {
            v.extend_from_slice(b);
        }
        v
    }
    pub fn keep_alive(&self) -> bool {
        self.conn.as_ref().map(|c| c.eq_ignore_ascii_case("keep-alive")).unwrap_or(false)
    }
    /// None = the connection is expected to close without a response (panicking handler)
    pub fn expected(&self) -> Option<ExpResp> {
        let routed_cors: Option<Vec<(&'static str, Vec<&'static str>)>> = match self.target {
            // (header, accepted values); an empty accepted list = must be absent; "?*" = absent or "*"
            Target::CorsA => Some(vec![("access-control-allow-origin", vec!["*"]), ("access-control-allow-headers", vec!["*"]), ("access-control-allow-methods", vec!["", "*"])]),
            Target::CorsB => Some(vec![("access-control-allow-origin", vec!["https://a.example, https://b.example"]), ("access-control-allow-methods", vec!["GET, POST"]), ("access-control-allow-headers", vec!["X-Custom, Content-Type"])]),
            Target::CorsC => Some(vec![("access-control-allow-origin", vec!["*"]), ("access-control-allow-methods", vec![""]), ("access-control-allow-headers", vec![""])]),
            Target::HostPathAware(_) | Target::HostLate => Some(vec![("access-control-allow-origin", vec!["https://h.example"]), ("access-control-allow-methods", vec!["GET, PUT"]), ("access-control-allow-headers", vec!["X-Host"])]),
            _ => None,
        };
        if self.target == Target::Panic && self.method != "OPTIONS" {
            return None;
        }
        let cors = routed_cors.unwrap_or_default();
        if self.method == "OPTIONS" {
            return Some(if self.target == Target::Unrouted { ExpResp { status: 404, body: NOT_FOUND.as_bytes().to_vec(), cors: vec![] } } else { ExpResp { status: 204, body: vec![], cors } });
        }
        let (status, body) = match &self.target {
            Target::R(n) => (200, format!("R|{}|/r/{}|{}", self.method, n, self.query()).into_bytes()),
            Target::Unrouted => (404, NOT_FOUND.as_bytes().to_vec()),
            Target::CorsA | Target::CorsB | Target::CorsC => (200, format!("C|{}", self.path()).into_bytes()),
            Target::Echo => (200, self.body.clone().unwrap_or_default()),
            Target::Empty => (200, vec![]),
            Target::HostPathAware(n) => (200, format!("P|/pa/*|/pa/{}", n).into_bytes()),
            Target::HostLate => (200, b"L|/late".to_vec()),
            Target::Panic => unreachable!(),
        };
        Some(ExpResp { status, body, cors })
    }
}

pub const NOT_FOUND: &str = "<html><body><h1>404 Not Found</h1></body></html>";

#[derive(Clone, Debug)]
pub struct ExpResp {
    pub status: u16,
    pub body: Vec<u8>,
    pub cors: Vec<(&'static str, Vec<&'static str>)>,
}

pub fn gen_script(rng: &mut Rng, id: &str, allow_panic: bool, ending: Ending) -> Script {
    let n = rng.urange(1, 8);
    let mut reqs = Vec::new();
    for i in 0..n {
        let method = *rng.pick(&["GET", "GET", "POST", "PUT", "DELETE", "OPTIONS"]);
        let target = match rng.below(if allow_panic { 14 } else { 13 }) {
            0..=2 => Target::R(rng.below(50) as u32),
            3 => Target::Unrouted,
            4 => Target::CorsA,
            5 => Target::CorsB,
            6 => Target::CorsC,
            7 | 8 => Target::Echo,
            9 | 10 => Target::Empty,
            11 => Target::HostPathAware(rng.below(50) as u32),
            12 => Target::HostLate,
            _ => Target::Panic,
        };
        let last = i + 1 == n;
        // all but the last request ask for keep-alive (otherwise the script would end early); the last one varies
        let conn = if !last || ending != Ending::None {
            Some(rng.pick(&["keep-alive", "Keep-Alive", "KEEP-ALIVE", "kEeP-aLiVe"]).to_string())
        } else {
            match rng.below(4) {
                0 => None,
                1 => Some(rng.pick(&["close", "Close"]).to_string()),
                _ => Some(rng.pick(&["keep-alive", "Keep-Alive", "KEEP-ALIVE"]).to_string()),
            }
        };
        let has_body = matches!(method, "POST" | "PUT") || (target == Target::Echo && rng.chance(1, 2));
        let xid = format!("{}.{}", id, i);
        let body = if has_body {
            let n = match rng.below(4) { 0 => 0, 1 | 2 => rng.urange(1, 80), _ => rng.urange(80, 3000) };
            let mut b = format!("<{}>", xid).into_bytes();
            let filler: Vec<u8> = match rng.below(3) { 0 => rng.bytes(n), 1 => (0..n).map(|_| *rng.pick(b"GET / HTTP/1.1\r\n:")).collect(), _ => vec![b'x'; n] };
            b.extend(filler);
            if n == 0 && rng.chance(1, 2) { Some(Vec::new()) } else { Some(b) }
        } else {
            None
        };
        let is_panic = target == Target::Panic && method != "OPTIONS";
        reqs.push(ReqSpec { xid, method, target, conn, version: if rng.chance(1, 4) { "HTTP/1.0" } else { "HTTP/1.1" }, body });
        if is_panic {
            break; // nothing can follow on a connection whose handler panicked
        }
    }
    let ending = if reqs.last().map(|r| r.expected().is_none()).unwrap_or(false) { Ending::None } else { ending };
    Script { id: id.to_string(), reqs, ending }
}

pub fn script_json(s: &Script) -> J {
    J::obj(vec![
        ("id", J::s(&s.id)),
        ("requests", J::Arr(s.reqs.iter().map(|r| J::s(format!("{} {} {} conn={:?} body={}", r.method, r.path(), r.version, r.conn, r.body.as_ref().map(|b| b.len() as i64).unwrap_or(-1)))).collect())),
        ("ending", J::s(format!("{:?}", s.ending))),
    ])
}

// ------------------------------------------------------------------ client side

pub struct Conn {
    pub s: TcpStream,
    pub buf: Vec<u8>,
    pub eof: bool,
    pub reset: bool,
}

impl Conn {
    pub fn open(addr: SocketAddr) -> std::io::Result<Conn> {
        let s = TcpStream::connect_timeout(&addr, Duration::from_secs(5))?;
        s.set_nodelay(true)?;
        Ok(Conn { s, buf: Vec::new(), eof: false, reset: false })
    }

    /// segments: sizes (last repeats); gap_kind 0 none, 1 yield, 2 sleep 1 ms
    pub fn send(&mut self, bytes: &[u8], seg: &[usize], gap: u8) -> std::io::Result<()> {
        let mut p = 0;
        let mut i = 0;
        while p < bytes.len() {
            let n = if seg.is_empty() { bytes.len() } else { seg[i.min(seg.len() - 1)].max(1) }.min(bytes.len() - p);
            self.s.write_all(&bytes[p..p + n])?;
            p += n;
            i += 1;
            if p < bytes.len() {
                match gap {
                    1 => std::thread::yield_now(),
                    2 => std::thread::sleep(Duration::from_millis(1)),
                    _ => {}
                }
            }
        }
        Ok(())
    }

    /// read more bytes; returns false on timeout
    pub fn fill(&mut self, wait: Duration) -> bool {
        if self.eof {
            return true;
        }
        self.s.set_read_timeout(Some(wait)).ok();
        let mut tmp = [0u8; 16384];
        match self.s.read(&mut tmp) {
            Ok(0) => {
                self.eof = true;
                true
            }
            Ok(n) => {
                self.buf.extend_from_slice(&tmp[..n]);
                true
            }
            Err(ref e) if e.kind() == std::io::ErrorKind::WouldBlock || e.kind() == std::io::ErrorKind::TimedOut || e.kind() == std::io::ErrorKind::Interrupted => false,
            Err(_) => {
                self.eof = true;
                self.reset = true;
                true
            }
        }
    }

    /// Read one response from the stream. Err(text) = malformed; Ok(None) = EOF/silence before any byte of it.
    pub fn read_response(&mut self, deadline: Duration) -> Result<Option<RefMessage>, String> {
        let start = Instant::now();
        let mut head_seen: Option<Instant> = None;
        loop {
            match parse_response(&self.buf, self.eof) {
                Parse::Complete(m) => {
                    // a response without framing is only complete at EOF (its body runs until close)
                    if m.framing == Framing::None && !self.eof && !((100..200).contains(&m.status()) || m.status() == 204 || m.status() == 304) {
                        // the body runs until close: wait for EOF, but not longer than 400 ms after the head is complete
                        let head_at = *head_seen.get_or_insert_with(Instant::now);
                        if start.elapsed() > deadline || head_at.elapsed() > Duration::from_millis(400) {
                            // not self-delimiting and the connection is still open: everything received so far is its body
                            let mut m = m;
                            m.body = self.buf[m.consumed..].to_vec();
                            self.buf.clear();
                            return Ok(Some(m));
                        }
                        self.fill(Duration::from_millis(20));
                        continue;
                    }
                    let used = m.consumed;
                    self.buf.drain(..used);
                    return Ok(Some(m));
                }
                Parse::Malformed(e) => return Err(e),
                Parse::Incomplete => {
                    if self.eof {
                        return if self.buf.is_empty() { Ok(None) } else { Err(format!("EOF inside a response after {} bytes", self.buf.len())) };
                    }
                    if start.elapsed() > deadline {
                        return if self.buf.is_empty() { Ok(None) } else { Err(format!("response incomplete after {:?}: {:?}", deadline, show(&self.buf, 80))) };
                    }
                    self.fill(Duration::from_millis(20));
                }
            }
        }
    }

    /// Wait for EOF. Some(true) = closed, Some(false) = still open after the wait, with bytes possibly buffered.
    pub fn wait_closed(&mut self, wait: Duration) -> bool {
        let start = Instant::now();
        while !self.eof && start.elapsed() < wait {
            self.fill(Duration::from_millis(20));
        }
        self.eof
    }
}

fn now_secs() -> i64 {
    SystemTime::now().duration_since(UNIX_EPOCH).unwrap().as_secs() as i64
}

/// Judge one response against the expectation; returns (sig suffix, what) problems.
pub fn judge_response(req: &ReqSpec, exp: &ExpResp, m: &RefMessage) -> Vec<(String, String)> {
    let mut v = Vec::new();
    if m.status() != exp.status {
        v.push(("status".to_string(), format!("status {} instead of {} for {} {}", m.status(), exp.status, req.method, req.path())));
        return v;
    }
    let bare_options_404 = req.method == "OPTIONS" && exp.status == 404;
    if m.first != req.version {
        v.push((if bare_options_404 { "options-unrouted-bare-404".into() } else if req.method == "OPTIONS" { "options-version-not-echoed".into() } else { "version".into() }, format!("response version {} for a {} request", m.first, req.version)));
    }
    match m.header("date").and_then(parse_imf_fixdate) {
        Some(t) => {
            if (t - now_secs()).abs() > 5 {
                v.push(("date-wrong".into(), format!("Date {:?} is not the current time", m.header("date"))));
            }
        }
        None => v.push((if bare_options_404 { "options-unrouted-bare-404".into() } else { "date-missing".into() }, format!("Date header missing or not an IMF-fixdate: {:?}", m.header("date")))),
    }
    if m.header("server").is_none() {
        v.push((if bare_options_404 { "options-unrouted-bare-404".into() } else { "server-missing".into() }, "Server header missing".into()));
    }
    for (h, accepted) in &exp.cors {
        let got = m.header(h).unwrap_or("");
        // field names inside Access-Control-Allow-Headers are case-insensitive
        let ok = if *h == "access-control-allow-headers" { accepted.iter().any(|a| a.eq_ignore_ascii_case(got)) } else { accepted.contains(&got) };
        if !ok {
            v.push(("cors".into(), format!("CORS header {} is {:?}, expected one of {:?}", h, got, accepted)));
        }
    }
    if exp.status != 204 {
        match &m.framing {
            Framing::ContentLength(n) => {
                if *n != exp.body.len() {
                    v.push(("content-length".into(), format!("Content-Length {} but the handler's body has {} bytes", n, exp.body.len())));
                }
            }
            _ => v.push((if bare_options_404 { "options-unrouted-bare-404".into() } else { "not-self-delimiting".into() }, format!("response has no Content-Length ({:?})", m.framing))),
        }
        if m.body != exp.body && !(matches!(m.framing, Framing::None | Framing::UntilClose)) {
            v.push(("body".into(), format!("body {:?} instead of {:?}", show(&m.body, 60), show(&exp.body, 60))));
        }
    } else if !m.body.is_empty() {
        v.push(("body".into(), "204 with a body".into()));
    }
    v.dedup_by(|a, b| a.0 == b.0);
    v
}

pub struct PlayCfg {
    pub seg: Vec<usize>,
    pub gap: u8,
    pub plan_name: String,
}

pub fn gen_plan(rng: &mut Rng, which: usize) -> PlayCfg {
    match which % 3 {
        0 => PlayCfg { seg: vec![], gap: 0, plan_name: "whole".into() },
        1 => PlayCfg { seg: vec![1], gap: *rng.pick(&[0u8, 1]), plan_name: "bytewise".into() },
        _ => {
            let seg: Vec<usize> = (0..rng.urange(2, 6)).map(|_| rng.urange(1, 40)).collect();
            let gap = rng.below(3) as u8;
            PlayCfg { plan_name: format!("sizes{:?}/gap{}", seg, gap), seg, gap }
        }
    }
}

fn viol(r: &mut Report, sig: &str, what: String, s: &Script, cfg: &PlayCfg, mode: &str, lab: &dyn Lab, extra: J, replay: &[String]) {
    r.violation(sig, format!("[{} {} {}] {}", lab.runtime(), mode, cfg.plan_name, what), J::obj(vec![("script", script_json(s)), ("mode", J::s(mode)), ("segmentation", J::s(&cfg.plan_name)), ("runtime", J::s(lab.runtime())), ("observed", J::s(&what)), ("detail", extra)]), replay.to_vec());
}

/// Consume the (known, pinned) CRLF that follows a non-empty body. Returns true if it was there.
pub fn eat_body_crlf(c: &mut Conn) -> bool {
    if c.buf.len() < 2 && !c.eof {
        c.fill(Duration::from_millis(30));
    }
    if c.buf.len() == 1 && !c.eof {
        c.fill(Duration::from_millis(30));
    }
    if c.buf.starts_with(b"\r\n") {
        c.buf.drain(..2);
        true
    } else {
        false
    }
}

static DEAD_SERVERS: std::sync::Mutex<Vec<SocketAddr>> = std::sync::Mutex::new(Vec::new());

/// Two fresh connections, one trivial request each, 10 s each: if neither is answered the server has stopped serving.
/// The address is then remembered so that the rest of the shard's workload is skipped instead of waiting 10 s per request.
fn server_stopped_serving(addr: SocketAddr) -> bool {
    for _ in 0..2 {
        if let Ok(mut c) = Conn::open(addr) {
            if c.send(b"GET /r/0 HTTP/1.1\r\nHost: hv\r\nConnection: close\r\n\r\n", &[], 0).is_ok() {
                if let Ok(Some(_)) = c.read_response(Duration::from_secs(10)) {
                    return false;
                }
            }
        }
    }
    DEAD_SERVERS.lock().unwrap().push(addr);
    true
}

/// A wait that ran out in silence: a verdict only if the server has stopped serving everybody, otherwise inconclusive.
fn silence(r: &mut Report, lab: &dyn Lab, addr: SocketAddr, what: &str, replay: &[String]) {
    if server_stopped_serving(addr) {
        r.violation("C01/server-stopped-serving", format!("[{}] {}; two fresh connections with a trivial request were not answered within 10 s each either: the server no longer serves anybody (after {} plays of this shard)", lab.runtime(), what, r.evaluations), J::obj(vec![("observed", J::s(what)), ("runtime", J::s(lab.runtime()))]), replay.to_vec());
    } else {
        r.inconclusive(what.to_string());
    }
}

pub fn is_dead(addr: SocketAddr) -> bool {
    DEAD_SERVERS.lock().unwrap().contains(&addr)
}

/// Lock-step play: the next request is sent only after the previous response is complete.
pub fn play_lockstep(r: &mut Report, lab: &dyn Lab, s: &Script, cfg: &PlayCfg, replay: &[String]) {
    if is_dead(lab.addr()) || (s.ending == Ending::Idle && lab.timeout_addr().map(is_dead).unwrap_or(false)) {
        r.count("plays_skipped_server_stopped_serving", 1);
        return;
    }
    let addr = if s.ending == Ending::Idle { lab.timeout_addr().unwrap() } else { lab.addr() };
    let mode = "lock-step";
    r.eval();
    r.count("scripts_played", 1);
    let mut c = match Conn::open(addr) {
        Ok(c) => c,
        Err(e) => {
            r.inconclusive(format!("cannot connect to the lab app: {}", e));
            return;
        }
    };
    let mut expected_log: Vec<Logged> = Vec::new();
    let mut open_expected = true;
    let on_timeout_app = s.ending == Ending::Idle;
    let mut last_io = Instant::now();
    for (i, q) in s.reqs.iter().enumerate() {
        if on_timeout_app && i > 0 && last_io.elapsed() > Duration::from_millis(100) {
            // the client itself stalled close to the server's timeout: this play cannot be judged
            r.count("idle_scripts_discarded_client_stalled", 1);
            return;
        }
        if c.send(&q.render(), &cfg.seg, cfg.gap).is_err() {
            viol(r, "C01/connection-lost-before-request", format!("connection refused request #{} although the previous one asked for keep-alive", i), s, cfg, mode, lab, J::Null, replay);
            return;
        }
        r.count("requests_sent", 1);
        expected_log.push(Logged { xid: q.xid.clone(), method: q.method.into(), uri: q.path(), query: q.query(), version: q.version.into(), body: q.body.clone() });
        if q.method == "OPTIONS" || q.target == Target::Unrouted {
            expected_log.pop(); // OPTIONS is answered by the library and unrouted targets by the error handler: no route handler runs
        }
        match q.expected() {
            None => {
                // panicking handler: the connection must close without a response
                let closed = c.wait_closed(Duration::from_secs(10));
                if !c.buf.is_empty() {
                    viol(r, "C01/panic:bytes-after-panic", format!("{} bytes arrived on a connection whose handler panicked", c.buf.len()), s, cfg, mode, lab, J::s(show(&c.buf, 100)), replay);
                } else if !closed {
                    silence(r, lab, addr, "the connection of a panicking handler was not closed within 10 s", replay);
                } else {
                    r.count("panic_connections_closed", 1);
                }
                open_expected = false;
                break;
            }
            Some(exp) => {
                match c.read_response(Duration::from_secs(10)) {
                    Err(e) => {
                        viol(r, "C01/response-malformed", format!("response to request #{} is not well-formed: {}", i, e), s, cfg, mode, lab, J::s(show(&c.buf, 200)), replay);
                        return;
                    }
                    Ok(None) => {
                        if c.eof {
                            viol(r, "C01/response-missing", format!("connection closed without a response to request #{} ({} {})", i, q.method, q.path()), s, cfg, mode, lab, J::Null, replay);
                        } else {
                            // silence on an open connection: slow, or has the server stopped serving altogether?
                            if server_stopped_serving(addr) {
                                viol(r, "C01/server-stopped-serving", format!("request #{} ({} {}) got no response within 10 s on an open connection, and two fresh connections with a trivial request were not answered within 10 s each either: the server no longer serves anybody (after {} scripts of this shard)", i, q.method, q.path(), r.evaluations), s, cfg, mode, lab, J::Null, replay);
                            } else {
                                r.inconclusive(format!("no response to request #{} within 10 s", i));
                            }
                        }
                        return;
                    }
                    Ok(Some(m)) => {
                        last_io = Instant::now();
                        r.count("responses_judged", 1);
                        for (k, what) in judge_response(q, &exp, &m) {
                            let sig = if k == "options-unrouted-bare-404" { "C01/options-unrouted-bare-404".to_string() } else if k == "options-version-not-echoed" { "C01/options-version-not-echoed".to_string() } else { format!("C01/response:{}", k) };
                            viol(r, &sig, format!("request #{}: {}", i, what), s, cfg, mode, lab, J::Null, replay);
                        }
                        if matches!(m.framing, Framing::ContentLength(n) if n > 0) && eat_body_crlf(&mut c) {
                            r.violation("C01/crlf-after-nonempty-body", "two bytes CRLF follow every non-empty body on the wire and belong to no response", J::obj(vec![("script", script_json(s)), ("request", J::u(i as u64))]), replay.to_vec());
                        }
                        let self_delimiting = matches!(m.framing, Framing::ContentLength(_) | Framing::Chunked) || m.status() == 204;
                        if q.keep_alive() {
                            r.count("keep_alive_requests", 1);
                            if !self_delimiting {
                                // already reported as options-unrouted-bare-404 / not-self-delimiting; the stream cannot be followed further
                                return;
                            }
                        } else {
                            open_expected = false;
                        }
                    }
                }
            }
        }
        if !open_expected {
            break;
        }
    }
    // ending
    match &s.ending {
        Ending::Malformed(kind) if open_expected => {
            let bytes = malformed_bytes(kind);
            if c.send(&bytes, &[], 0).is_err() {
                viol(r, "C01/connection-lost-before-request", "connection lost before the malformed request although keep-alive was requested".into(), s, cfg, mode, lab, J::Null, replay);
                return;
            }
            match c.read_response(Duration::from_secs(10)) {
                Ok(Some(m)) => {
                    if m.status() == 400 {
                        r.count(&format!("malformed_400.{}", kind), 1);
                        r.count("malformed_answered_400", 1);
                    } else {
                        viol(r, &format!("C01/malformed-not-400:{}", kind), format!("malformed request ({}) answered {} instead of 400", kind, m.status()), s, cfg, mode, lab, J::s(show(&bytes, 80)), replay);
                    }
                }
                Ok(None) if c.reset => r.count("malformed_reset_before_400", 1),
                Ok(None) => viol(r, &format!("C01/malformed-not-400:{}", kind), format!("malformed request ({}) got no response (eof={})", kind, c.eof), s, cfg, mode, lab, J::s(show(&bytes, 80)), replay),
                Err(e) => viol(r, "C01/response-malformed", format!("response to a malformed request is itself malformed: {}", e), s, cfg, mode, lab, J::Null, replay),
            }
            open_expected = false;
        }
        Ending::Idle if open_expected => {
            let t = Instant::now();
            std::thread::sleep(Duration::from_millis(TIMEOUT_MS * 3));
            match c.read_response(Duration::from_secs(10)) {
                Ok(Some(m)) => {
                    if m.status() == 408 {
                        r.count("idle_answered_408", 1);
                    } else {
                        viol(r, "C01/idle-not-408", format!("idle connection answered {} instead of 408", m.status()), s, cfg, mode, lab, J::Null, replay);
                    }
                }
                Ok(None) => viol(r, "C01/idle-not-408", format!("idle connection got no 408 within {:?} (timeout 250 ms), eof={}", t.elapsed(), c.eof), s, cfg, mode, lab, J::Null, replay),
                Err(e) => viol(r, "C01/response-malformed", format!("408 response malformed: {}", e), s, cfg, mode, lab, J::Null, replay),
            }
            open_expected = false;
        }
        _ => {}
    }
    // disposition
    if open_expected && fnv(s.id.as_bytes()) % 3 == 0 {
        // the last request asked for keep-alive; the client now half-closes and reads to EOF. Its FIN is not a
        // request: nothing at all may be written in answer to it (exactly one response per request).
        let _ = c.s.shutdown(std::net::Shutdown::Write);
        let closed = c.wait_closed(Duration::from_secs(5));
        if !c.buf.is_empty() {
            viol(r, "C01/response-without-request", format!("the server wrote {} bytes in answer to the client's FIN after {} answered request(s): {:?}", c.buf.len(), s.reqs.len(), show(&c.buf, 60)), s, cfg, mode, lab, J::Null, replay);
        } else {
            r.count("half_close_endings_silent", 1);
            if !closed {
                r.count("half_close_not_closed_within_5s", 1);
            }
        }
    } else if open_expected {
        // the last request asked for keep-alive: a further request must be answered
        let probe = ReqSpec { xid: format!("{}.probe", s.id), method: "GET", target: Target::R(0), conn: Some("close".into()), version: "HTTP/1.1", body: None };
        let ok = c.send(&probe.render(), &[], 0).is_ok();
        match if ok { c.read_response(Duration::from_secs(10)) } else { Ok(None) } {
            Ok(Some(m)) if m.status() == 200 => {
                r.count("keep_alive_continuations", 1);
                eat_body_crlf(&mut c);
            }
            other => viol(r, "C01/keep-alive-not-honoured", format!("connection did not stay open after a well-formed keep-alive request (probe: {:?})", other.map(|m| m.map(|x| x.status()))), s, cfg, mode, lab, J::Null, replay),
        }
        expected_log.push(Logged { xid: probe.xid.clone(), method: "GET".into(), uri: probe.path(), query: probe.query(), version: "HTTP/1.1".into(), body: None });
        c.wait_closed(Duration::from_secs(5));
    } else {
        // must be closed now; if not, a probe must NOT be answered
        if !c.wait_closed(Duration::from_secs(3)) {
            let probe = ReqSpec { xid: format!("{}.probe", s.id), method: "GET", target: Target::R(0), conn: Some("close".into()), version: "HTTP/1.1", body: None };
            c.send(&probe.render(), &[], 0).ok();
            match c.read_response(Duration::from_secs(3)) {
                Ok(Some(m)) => viol(r, "C01/stays-open-without-keep-alive", format!("connection stayed open and answered a further request ({}) after a request that did not ask for keep-alive / after 400 / 408", m.status()), s, cfg, mode, lab, J::Null, replay),
                _ => {
                    if !c.eof {
                        r.inconclusive("connection neither closed nor answering after an expected close");
                    }
                }
            }
        } else {
            r.count("closes_observed", 1);
            if !c.buf.is_empty() {
                viol(r, "C01/stray-bytes-before-close", format!("{} stray bytes before the connection closed: {:?}", c.buf.len(), show(&c.buf, 60)), s, cfg, mode, lab, J::Null, replay);
            }
        }
    }
    // handler-side log: exactly the well-formed non-OPTIONS requests, in order, field by field
    let deadline = Instant::now() + Duration::from_secs(2);
    let mut log = lab.take_log(&format!("{}.", s.id));
    while log.len() < expected_log.len() && Instant::now() < deadline {
        std::thread::sleep(Duration::from_millis(5));
        log.extend(lab.take_log(&format!("{}.", s.id)));
    }
    if log != expected_log {
        let sig = if log.len() < expected_log.len() { "C01/handler-log:request-not-dispatched" } else if log.len() > expected_log.len() { "C01/handler-log:extra-dispatch" } else { "C01/handler-log:request-altered" };
        viol(r, sig, format!("handlers saw {} requests, the client sent {} well-formed ones; first difference at #{}", log.len(), expected_log.len(), log.iter().zip(expected_log.iter()).position(|(a, b)| a != b).unwrap_or(log.len().min(expected_log.len()))), s, cfg, mode, lab, J::obj(vec![("handler_log", J::Arr(log.iter().map(|l| J::s(format!("{:?}", l).chars().take(160).collect::<String>())).collect()))]), replay);
    } else {
        r.count("handler_logs_matched", 1);
    }
}

/// Pipelined play: the whole byte stream is sent under a segmentation whose segments may span requests.
pub fn play_pipelined(r: &mut Report, lab: &dyn Lab, s: &Script, cfg: &PlayCfg, replay: &[String]) {
    let mode = "pipelined";
    if is_dead(lab.addr()) {
        return;
    }
    // only scripts of ordinary requests (no panic, no special ending) are pipelined
    if s.reqs.iter().any(|q| q.expected().is_none()) || s.reqs.len() < 2 {
        return;
    }
    r.eval();
    r.count("scripts_pipelined", 1);
    let mut c = match Conn::open(lab.addr()) {
        Ok(c) => c,
        Err(e) => {
            r.inconclusive(format!("cannot connect: {}", e));
            return;
        }
    };
    let mut stream = Vec::new();
    for q in &s.reqs {
        stream.extend(q.render());
    }
    // segments may span request boundaries: scale the plan up
    let seg: Vec<usize> = if cfg.seg.is_empty() { vec![] } else { cfg.seg.iter().map(|x| x * 7).collect() };
    if c.send(&stream, &seg, cfg.gap).is_err() {
        r.count("pipelined_send_failed", 1);
    }
    // collect responses until EOF or 400 ms of silence
    let mut got: Vec<RefMessage> = Vec::new();
    let mut malformed: Option<String> = None;
    loop {
        match c.read_response(Duration::from_millis(400)) {
            Ok(Some(m)) => {
                let has_body = matches!(m.framing, Framing::ContentLength(n) if n > 0);
                got.push(m);
                if has_body {
                    eat_body_crlf(&mut c);
                }
            }
            Ok(None) => break,
            Err(e) => {
                malformed = Some(e);
                break;
            }
        }
    }
    // order-preserving matching: every response must be the exact expected response of a later request than the previous match
    let mut next = 0usize;
    let mut matched = 0usize;
    let mut terminal_error = false;
    for m in &got {
        if terminal_error {
            viol(r, "C01/pipelined:response-after-error", "a response followed a terminal 400/408".into(), s, cfg, mode, lab, J::Null, replay);
            return;
        }
        let mut found = None;
        for (j, q) in s.reqs.iter().enumerate().skip(next) {
            let exp = q.expected().unwrap();
            if m.status() == exp.status && judge_response(q, &exp, m).iter().all(|(k, _)| k.starts_with("options") || k == "date-missing" || k == "server-missing" || k == "not-self-delimiting") {
                found = Some(j);
                break;
            }
        }
        match found {
            Some(j) => {
                next = j + 1;
                matched += 1;
            }
            None => {
                if m.status() == 400 || m.status() == 408 {
                    terminal_error = true;
                } else {
                    viol(r, "C01/pipelined:foreign-response", format!("response {} {:?} corresponds to no remaining request of the pipeline (duplicate, reordered or altered)", m.status(), show(&m.body, 40)), s, cfg, mode, lab, J::Null, replay);
                    return;
                }
            }
        }
    }
    if let Some(e) = malformed {
        viol(r, "C01/pipelined:malformed-bytes", format!("bytes on the wire that are no well-formed response: {}", e), s, cfg, mode, lab, J::s(show(&c.buf, 120)), replay);
        return;
    }
    // handler log: dispatched requests must each be an unaltered request of the script, in order
    let log = lab.take_log(&format!("{}.", s.id));
    let mut li = 0;
    for l in &log {
        let mut ok = false;
        while li < s.reqs.len() {
            let q = &s.reqs[li];
            li += 1;
            if q.xid == l.xid {
                ok = q.method == l.method && q.path() == l.uri && q.query() == l.query && q.version == l.version && q.body == l.body;
                break;
            }
        }
        if !ok {
            viol(r, "C01/pipelined:handler-saw-altered-request", format!("a handler was called with a request that is not one of the pipeline's requests in order: {:?}", format!("{:?}", l).chars().take(120).collect::<String>()), s, cfg, mode, lab, J::Null, replay);
            return;
        }
    }
    r.count("pipelined_responses", matched as u64);
    let ends_open = s.reqs.iter().all(|q| q.keep_alive());
    let want = s.reqs.iter().position(|q| !q.keep_alive()).map(|p| p + 1).unwrap_or(s.reqs.len());
    if matched < want {
        // the known defect: read-ahead beyond the current request is discarded with the per-request BufReader
        r.violation("C01/pipelined-readahead-discarded", format!("[{}] pipelined requests whose bytes arrived together with an earlier request were never answered", lab.runtime()), J::obj(vec![("script", script_json(s)), ("sent", J::u(want as u64)), ("answered", J::u(matched as u64)), ("segmentation", J::s(&cfg.plan_name)), ("terminal_400_or_408", J::Bool(terminal_error))]), replay.to_vec());
    } else {
        r.count("pipelines_fully_answered", 1);
    }
    let _ = ends_open;
}

/// The panic clause: successive panicking connections on a small pool must not disturb healthy ones.
pub fn play_panic_isolation(r: &mut Report, lab: &dyn Lab, rng: &mut Rng, id: &str, replay: &[String]) {
    if is_dead(lab.addr()) {
        return;
    }
    r.eval();
    r.count("panic_isolation_rounds", 1);
    let cfg = PlayCfg { seg: vec![], gap: 0, plan_name: "whole".into() };
    let npanic = rng.urange(3, 6);
    for k in 0..npanic {
        // a panicking connection ...
        let p = Script { id: format!("{}p{}", id, k), reqs: vec![ReqSpec { xid: format!("{}p{}.0", id, k), method: "GET", target: Target::Panic, conn: Some("keep-alive".into()), version: "HTTP/1.1", body: None }], ending: Ending::None };
        play_lockstep(r, lab, &p, &cfg, replay);
        // ... followed by a healthy one, which must be served completely
        let h = gen_script(rng, &format!("{}h{}", id, k), false, Ending::None);
        play_lockstep(r, lab, &h, &cfg, replay);
    }
}

/// A connection on which the client sends nothing and half-closes: zero requests, so zero responses.
pub fn play_zero_requests(r: &mut Report, lab: &dyn Lab, id: &str, replay: &[String]) {
    if is_dead(lab.addr()) {
        return;
    }
    r.eval();
    let mut c = match Conn::open(lab.addr()) {
        Ok(c) => c,
        Err(e) => {
            r.inconclusive(format!("cannot connect to the lab app: {}", e));
            return;
        }
    };
    let _ = c.s.shutdown(std::net::Shutdown::Write);
    c.wait_closed(Duration::from_secs(5));
    if !c.buf.is_empty() {
        r.violation("C01/response-without-request", format!("[{}] the server wrote {} bytes on a connection that carried no request at all: {:?}", lab.runtime(), c.buf.len(), show(&c.buf, 60)), J::obj(vec![("id", J::s(id)), ("runtime", J::s(lab.runtime()))]), replay.to_vec());
    } else {
        r.count("zero_request_connections_silent", 1);
    }
}

/// A client that connects to the app with a connection timeout and sends nothing at all: the timed-out wait for the
/// FIRST request is answered 408 and the connection closes, just like an idle wait between keep-alive requests.
pub fn play_idle_from_start(r: &mut Report, lab: &dyn Lab, id: &str, replay: &[String]) {
    let addr = match lab.timeout_addr() {
        Some(a) => a,
        None => return,
    };
    if is_dead(addr) {
        return;
    }
    r.eval();
    let mut c = match Conn::open(addr) {
        Ok(c) => c,
        Err(e) => {
            r.inconclusive(format!("cannot connect to the lab app: {}", e));
            return;
        }
    };
    std::thread::sleep(Duration::from_millis(TIMEOUT_MS * 3));
    let ex = J::obj(vec![("id", J::s(id)), ("timeout_ms", J::u(TIMEOUT_MS)), ("runtime", J::s(lab.runtime()))]);
    match c.read_response(Duration::from_secs(5)) {
        Ok(Some(m)) if m.status() == 408 => {
            if c.wait_closed(Duration::from_secs(5)) {
                r.count("idle_from_start_answered_408_and_closed", 1);
            } else {
                r.violation("C01/idle-not-408", format!("[{}] the connection stayed open after the 408 for a client that never sent a request", lab.runtime()), ex, replay.to_vec());
            }
        }
        Ok(Some(m)) => r.violation("C01/idle-not-408", format!("[{}] a client that connected and sent nothing for {} ms (timeout {} ms) was answered {} instead of 408", lab.runtime(), TIMEOUT_MS * 3, TIMEOUT_MS, m.status()), ex, replay.to_vec()),
        Ok(None) => r.violation("C01/idle-not-408", format!("[{}] a client that connected and sent nothing got no 408 within {} ms + 5 s (timeout {} ms), eof={}", lab.runtime(), TIMEOUT_MS * 3, TIMEOUT_MS, c.eof), ex, replay.to_vec()),
        Err(e) => r.violation("C01/response-malformed", format!("[{}] 408 response malformed: {}", lab.runtime(), e), ex, replay.to_vec()),
    }
}

/// One well-formed request on the app with a connection timeout, delivered in two segments that are further
/// apart than the timeout. The timeout governs the wait *for a request*; whatever the server makes of a slow
/// request, the request must get exactly one response (the regular one, or a 408 followed by close) and must
/// not vanish.
pub fn play_slow_request(r: &mut Report, lab: &dyn Lab, rng: &mut Rng, id: &str, replay: &[String]) {
    let addr = match lab.timeout_addr() {
        Some(a) => a,
        None => return,
    };
    if is_dead(addr) {
        return;
    }
    r.eval();
    let body: Vec<u8> = format!("<{}.0>{}", id, "slow-body-".repeat(rng.urange(1, 6))).into_bytes();
    let q = ReqSpec { xid: format!("{}.0", id), method: "POST", target: Target::Echo, conn: Some("close".into()), version: "HTTP/1.1", body: Some(body) };
    let bytes = q.render();
    let head_end = bytes.windows(4).position(|w| w == b"\r\n\r\n").map(|p| p + 4).unwrap_or(bytes.len());
    // split point: after the first byte, inside the start line / headers, at the head/body boundary, inside the body
    let split = match rng.below(4) {
        0 => 1,
        1 => rng.urange(2, head_end - 1),
        2 => head_end,
        _ => rng.urange(head_end, bytes.len() - 1).max(head_end).min(bytes.len() - 1),
    };
    let mut c = match Conn::open(addr) {
        Ok(c) => c,
        Err(e) => {
            r.inconclusive(format!("cannot connect to the lab app: {}", e));
            return;
        }
    };
    let ex = J::obj(vec![("request", J::s(show(&bytes, 120))), ("split_at", J::u(split as u64)), ("pause_ms", J::u(TIMEOUT_MS * 8 / 5)), ("timeout_ms", J::u(TIMEOUT_MS)), ("runtime", J::s(lab.runtime()))]);
    if c.s.write_all(&bytes[..split]).is_err() {
        r.inconclusive("could not send the first segment of a slow request");
        return;
    }
    std::thread::sleep(Duration::from_millis(TIMEOUT_MS * 8 / 5));
    // the server may legitimately have answered 408 and closed in the pause: a failing write is not a verdict
    let _ = c.s.write_all(&bytes[split..]);
    match c.read_response(Duration::from_secs(10)) {
        Ok(Some(m)) if m.status() == 408 => r.count("slow_requests_answered_408", 1),
        Ok(Some(m)) => {
            let exp = q.expected().unwrap();
            let probs = judge_response(&q, &exp, &m);
            if probs.is_empty() {
                r.count("slow_requests_answered", 1);
            } else {
                for (k, what) in probs {
                    r.violation(&format!("C01/slow-request:response:{}", k), format!("[{}] request delivered in two segments {} ms apart (timeout {} ms): {}", lab.runtime(), TIMEOUT_MS * 8 / 5, TIMEOUT_MS, what), ex.clone(), replay.to_vec());
                }
            }
        }
        Ok(None) if c.eof => r.violation("C01/slow-request:no-response", format!("[{}] a well-formed request delivered in two segments {} ms apart (connection timeout {} ms, split at byte {}) got no response at all: the connection was closed silently", lab.runtime(), TIMEOUT_MS * 8 / 5, TIMEOUT_MS, split), ex, replay.to_vec()),
        Ok(None) => silence(r, lab, addr, "no response to a slow request within 10 s", replay),
        Err(e) => r.violation("C01/response-malformed", format!("[{}] response to a slow request is not well-formed: {}", lab.runtime(), e), ex, replay.to_vec()),
    }
    // the echo handler's log entry is not part of this play's verdict: drop it
    let _ = lab.take_log(&format!("{}.", id));
}

/// A multi-megabyte echo to a client that does not read for a while (longer than the connection timeout on the
/// timeout app): once the client reads, the response must be there in full - status, Content-Length and every byte.
pub fn play_big_response(r: &mut Report, lab: &dyn Lab, rng: &mut Rng, id: &str, on_timeout_app: bool, replay: &[String]) {
    let addr = if on_timeout_app {
        match lab.timeout_addr() {
            Some(a) => a,
            None => return,
        }
    } else {
        lab.addr()
    };
    if is_dead(addr) {
        return;
    }
    r.eval();
    let n = *rng.pick(&[2usize << 20, 5 << 20, 8 << 20]) + rng.urange(0, 4096);
    // (a blocked write makes partial progress on its first attempts: an armed write timeout needs several periods)
    let stall_ms = if on_timeout_app { TIMEOUT_MS * 6 } else { *rng.pick(&[150u64, 400]) };
    let mut body = format!("<{}.0>", id).into_bytes();
    let mut x = fnv(id.as_bytes()) | 1;
    while body.len() < n {
        x ^= x << 13;
        x ^= x >> 7;
        x ^= x << 17;
        body.extend_from_slice(&x.to_le_bytes());
    }
    body.truncate(n);
    let q = ReqSpec { xid: format!("{}.0", id), method: "POST", target: Target::Echo, conn: Some("close".into()), version: "HTTP/1.1", body: Some(body.clone()) };
    // rendered before connecting: on the timeout app the first byte has to follow the connect promptly
    let wire = q.render();
    let mut c = match Conn::open(addr) {
        Ok(c) => c,
        Err(e) => {
            r.inconclusive(format!("cannot connect to the lab app: {}", e));
            return;
        }
    };
    let t_connected = Instant::now();
    let ex = J::obj(vec![("body_bytes", J::u(n as u64)), ("client_stalls_ms_before_reading", J::u(stall_ms)), ("app_connection_timeout_ms", if on_timeout_app { J::u(TIMEOUT_MS) } else { J::Null }), ("runtime", J::s(lab.runtime()))]);
    let gap_before_first_byte = t_connected.elapsed();
    if let Err(e) = c.s.write_all(&wire) {
        // the server hung up while the request was still being written: whatever it said (or did not say) is the observation
        let said = match c.read_response(Duration::from_secs(2)) {
            Ok(Some(m)) => format!("a {} response", m.status()),
            Ok(None) => format!("nothing (eof={}, reset={})", c.eof, c.reset),
            Err(x) => format!("an incomplete response ({})", x.chars().take(60).collect::<String>()),
        };
        if on_timeout_app && (said.contains("408") || gap_before_first_byte > Duration::from_millis(100)) {
            // the harness client itself was slower than the app's timeout between connect and first byte (loaded machine):
            // the 408 is the documented answer, nothing to judge
            r.count("big_requests_discarded_client_slower_than_timeout", 1);
            return;
        }
        r.violation("C01/big-request:connection-lost", format!("[{}] the server closed the connection while a well-formed {}-byte POST was still being sent ({}); it answered {}{}", lab.runtime(), n, e, said, if on_timeout_app { format!("; app with a {} ms connection timeout", TIMEOUT_MS) } else { String::new() }), ex, replay.to_vec());
        return;
    }
    std::thread::sleep(Duration::from_millis(stall_ms));
    let what = format!("[{}] echo of {} bytes to a client that starts reading {} ms after sending{}", lab.runtime(), n, stall_ms, if on_timeout_app { format!(" (connection timeout {} ms)", TIMEOUT_MS) } else { String::new() });
    match c.read_response(Duration::from_secs(30)) {
        Ok(Some(m)) => {
            if m.status() != 200 || !matches!(m.framing, Framing::ContentLength(l) if l == n) {
                r.violation("C01/big-response:head", format!("{}: status {} framing {:?}", what, m.status(), m.framing), ex, replay.to_vec());
            } else if m.body != body {
                let first = m.body.iter().zip(body.iter()).position(|(a, b)| a != b).unwrap_or(m.body.len().min(body.len()));
                r.violation("C01/big-response:body", format!("{}: body differs from what the handler returned (first difference at byte {}, {} bytes received)", what, first, m.body.len()), ex, replay.to_vec());
            } else {
                r.count("big_responses_intact", 1);
                r.count("big_response_bytes", n as u64);
            }
        }
        Ok(None) => {
            if c.eof {
                r.violation("C01/response-missing", format!("{}: connection closed without a response", what), ex, replay.to_vec());
            } else {
                silence(r, lab, addr, "no response to a large request within 30 s", replay);
            }
        }
        Err(e) => r.violation("C01/big-response:truncated", format!("{}: the response is not complete: {}", what, e.chars().take(160).collect::<String>()), ex, replay.to_vec()),
    }
    let _ = lab.take_log(&format!("{}.", id));
}

/// A connection that has to wait for a worker: every worker of the pool is held by an idle keep-alive connection, one
/// more client sends its request and stays queued for 400 ms (well beyond the pool's 100 ms overload threshold); when a
/// worker becomes free the queued request is answered like any other. Threaded runtime only (`pool() > 0`).
pub fn play_queued_connection(r: &mut Report, lab: &dyn Lab, id: &str, replay: &[String]) {
    let n = lab.pool();
    if n == 0 || n > 8 || is_dead(lab.addr()) {
        return;
    }
    r.eval();
    let mk = |xid: String, ka: bool| ReqSpec { xid, method: "GET", target: Target::R(7), conn: Some(if ka { "keep-alive" } else { "close" }.into()), version: "HTTP/1.1", body: None };
    let mut parkers: Vec<Conn> = Vec::new();
    for k in 0..n {
        let q = mk(format!("{}k{}.0", id, k), true);
        let mut c = match Conn::open(lab.addr()) {
            Ok(c) => c,
            Err(e) => {
                r.inconclusive(format!("cannot connect to the lab app: {}", e));
                return;
            }
        };
        if c.send(&q.render(), &[], 0).is_err() || !matches!(c.read_response(Duration::from_secs(10)), Ok(Some(_))) {
            // other plays judge plain requests; here an unanswered parker only means the scenario cannot be set up
            r.count("queued_connection_rounds_not_set_up", 1);
            return;
        }
        eat_body_crlf(&mut c);
        parkers.push(c);
    }
    let q = mk(format!("{}q.0", id), false);
    let exp = q.expected().unwrap();
    let ex = J::obj(vec![("pool", J::u(n as u64)), ("idle_keep_alive_connections_holding_workers", J::u(n as u64)), ("queued_ms", J::u(400)), ("runtime", J::s(lab.runtime()))]);
    let mut c = match Conn::open(lab.addr()) {
        Ok(c) => c,
        Err(e) => {
            r.inconclusive(format!("cannot connect to the lab app: {}", e));
            return;
        }
    };
    if c.send(&q.render(), &[], 0).is_err() {
        r.count("queued_connection_rounds_not_set_up", 1);
        return;
    }
    std::thread::sleep(Duration::from_millis(400));
    // free one worker: its client hangs up
    drop(parkers.pop());
    let what = format!("[{}] request sent on a connection that waited 400 ms for a worker (pool of {}, all held by idle keep-alive connections)", lab.runtime(), n);
    match c.read_response(Duration::from_secs(10)) {
        Ok(Some(m)) => {
            let probs = judge_response(&q, &exp, &m);
            if probs.is_empty() {
                r.count("queued_connections_answered", 1);
            }
            for (k, w) in probs {
                r.violation(&format!("C01/queued-connection:response:{}", k), format!("{}: {}", what, w), ex.clone(), replay.to_vec());
            }
        }
        Ok(None) => {
            if c.eof || c.reset {
                r.violation("C01/queued-connection:dropped", format!("{}: the connection was closed without a response (eof={}, reset={})", what, c.eof, c.reset), ex, replay.to_vec());
            } else {
                silence(r, lab, lab.addr(), "no response to a queued connection within 10 s after a worker became free", replay);
            }
        }
        Err(e) => r.violation("C01/response-malformed", format!("{}: {}", what, e.chars().take(160).collect::<String>()), ex, replay.to_vec()),
    }
    drop(parkers);
    let _ = lab.take_log(&format!("{}k", id));
    let _ = lab.take_log(&format!("{}q.", id));
}

pub fn fingerprint(s: &Script) -> u64 {
    let mut v = Vec::new();
    for q in &s.reqs {
        v.extend(q.render());
    }
    v.extend(format!("{:?}", s.ending).bytes());
    fnv(&v)
}

pub fn replay_hex(s: &Script) -> String {
    let mut v = Vec::new();
    for q in &s.reqs {
        v.extend(q.render());
    }
    hex(&v[..v.len().min(4000)])
}

/// The whole C01 workload against one lab.
pub fn run_all(r: &mut Report, lab: &dyn Lab, seed: u64, shard: usize, nshards: usize, nscripts: u64, nidle: u64, sub: &str) {
    let mut k = shard as u64;
    while k < nscripts {
        let mut rng = Rng::derive(seed, 0x0100_0000 + k);
        let id = format!("{}s{}", sub, k);
        let ending = match rng.below(5) {
            0 => Ending::Malformed(MALFORMED[(k as usize / 5) % MALFORMED.len()]),
            _ => Ending::None,
        };
        let s = gen_script(&mut rng, &id, true, ending);
        r.nontrivial(fingerprint(&s));
        if k < 2 {
            r.sample(script_json(&s));
        }
        let replay = vec!["c01".to_string(), "--seed".into(), seed.to_string(), "--script".into(), k.to_string()];
        for which in 0..3 {
            let cfg = gen_plan(&mut rng, which);
            let mut s2 = s.clone();
            // ids must be unique per play so that handler logs can be told apart
            s2.id = format!("{}v{}", id, which);
            for (i, q) in s2.reqs.iter_mut().enumerate() {
                q.xid = format!("{}.{}", s2.id, i);
                if let Some(b) = &mut q.body {
                    if !b.is_empty() {
                        let mut nb = format!("<{}>", q.xid).into_bytes();
                        nb.extend_from_slice(&b[b.iter().position(|c| *c == b'>').map(|p| p + 1).unwrap_or(0)..]);
                        *b = nb;
                    }
                }
            }
            play_lockstep(r, lab, &s2, &cfg, &replay);
            let mut s3 = s2.clone();
            s3.id = format!("{}w{}", id, which);
            for (i, q) in s3.reqs.iter_mut().enumerate() {
                q.xid = format!("{}.{}", s3.id, i);
            }
            if s3.ending == Ending::None {
                play_pipelined(r, lab, &s3, &cfg, &replay);
            }
        }
        if k % 40 == 7 {
            play_panic_isolation(r, lab, &mut rng, &format!("{}x", id), &replay);
        }
        if k % 25 == 3 {
            play_zero_requests(r, lab, &format!("{}z", id), &replay);
        }
        if k % 16 == 5 {
            play_slow_request(r, lab, &mut rng, &format!("{}y", id), &replay);
        }
        if k % 40 == 9 {
            play_idle_from_start(r, lab, &format!("{}q", id), &replay);
        }
        if k % 50 == 11 {
            play_big_response(r, lab, &mut rng, &format!("{}b", id), false, &replay);
        }
        if k % 50 == 27 {
            play_big_response(r, lab, &mut rng, &format!("{}c", id), true, &replay);
        }
        if k % 40 == 13 {
            play_queued_connection(r, lab, &format!("{}g", id), &replay);
        }
        k += nshards as u64;
    }
    // idle past the timeout (only where the runtime has the knob)
    if lab.timeout_addr().is_some() {
        let mut k = shard as u64;
        while k < nidle {
            let mut rng = Rng::derive(seed, 0x0110_0000 + k);
            let id = format!("{}i{}", sub, k);
            let mut s = gen_script(&mut rng, &id, false, Ending::Idle);
            // scripts on the timeout app must not stall between requests: keep them short
            s.reqs.truncate(3);
            if let Some(l) = s.reqs.last_mut() {
                l.conn = Some("keep-alive".into());
            }
            s.ending = Ending::Idle;
            let cfg = PlayCfg { seg: vec![], gap: 0, plan_name: "whole".into() };
            r.nontrivial(fingerprint(&s) ^ 0x1d1e);
            play_lockstep(r, lab, &s, &cfg, &["c01".to_string(), "--seed".into(), seed.to_string(), "--idle".into(), k.to_string()]);
            k += nshards as u64;
        }
    }
}

//! Reference RFC 6455 section 5.2 frame codec and strict server-frame validator. Independent of Humphrey.

#[derive(Clone, Debug, PartialEq, Eq)]
pub struct RefFrame {
    pub fin: bool,
    pub rsv: [bool; 3],
    pub opcode: u8,
    pub mask: Option<[u8; 4]>,
    /// payload in the clear
    pub payload: Vec<u8>,
}

impl RefFrame {
    pub fn new(opcode: u8, fin: bool, mask: Option<[u8; 4]>, payload: Vec<u8>) -> Self {
        RefFrame { fin, rsv: [false; 3], opcode, mask, payload }
    }

    /// Wire bytes per RFC 6455 5.2: shortest length form; payload XOR-masked when a key is present.
    pub fn encode(&self) -> Vec<u8> {
        let mut out = Vec::with_capacity(self.payload.len() + 14);
        let b0 = ((self.fin as u8) << 7) | ((self.rsv[0] as u8) << 6) | ((self.rsv[1] as u8) << 5) | ((self.rsv[2] as u8) << 4) | (self.opcode & 0x0f);
        out.push(b0);
        let m = if self.mask.is_some() { 0x80u8 } else { 0 };
        let n = self.payload.len();
        if n <= 125 {
            out.push(m | n as u8);
        } else if n <= 0xffff {
            out.push(m | 126);
            out.extend_from_slice(&(n as u16).to_be_bytes());
        } else {
            out.push(m | 127);
            out.extend_from_slice(&(n as u64).to_be_bytes());
        }
        match self.mask {
            Some(k) => {
                out.extend_from_slice(&k);
                out.extend(self.payload.iter().enumerate().map(|(i, b)| b ^ k[i & 3]));
            }
            None => out.extend_from_slice(&self.payload),
        }
        out
    }
}

pub enum Dec {
    Frame(RefFrame, usize),
    Incomplete,
}

/// Decode one frame from the start of `b` (any opcode value is returned as is).
pub fn decode(b: &[u8]) -> Dec {
    if b.len() < 2 {
        return Dec::Incomplete;
    }
    let fin = b[0] & 0x80 != 0;
    let rsv = [b[0] & 0x40 != 0, b[0] & 0x20 != 0, b[0] & 0x10 != 0];
    let opcode = b[0] & 0x0f;
    let masked = b[1] & 0x80 != 0;
    let mut p = 2;
    let l7 = (b[1] & 0x7f) as u64;
    let len = if l7 == 126 {
        if b.len() < 4 {
            return Dec::Incomplete;
        }
        p = 4;
        u16::from_be_bytes([b[2], b[3]]) as u64
    } else if l7 == 127 {
        if b.len() < 10 {
            return Dec::Incomplete;
        }
        p = 10;
        u64::from_be_bytes([b[2], b[3], b[4], b[5], b[6], b[7], b[8], b[9]])
    } else {
        l7
    };
    let mask = if masked {
        if b.len() < p + 4 {
            return Dec::Incomplete;
        }
        let k = [b[p], b[p + 1], b[p + 2], b[p + 3]];
        p += 4;
        Some(k)
    } else {
        None
    };
    if (b.len() - p) as u64 >= len {
        let len = len as usize;
        let mut payload = b[p..p + len].to_vec();
        if let Some(k) = mask {
            for (i, x) in payload.iter_mut().enumerate() {
                *x ^= k[i & 3];
            }
        }
        Dec::Frame(RefFrame { fin, rsv, opcode, mask, payload }, p + len)
    } else {
        Dec::Incomplete
    }
}

/// What a server may send (RFC 6455 5.1, 5.2, 5.5): unmasked, RSV = 0, known opcode, control
/// frames not fragmented and at most 125 bytes, shortest length encoding.
pub fn validate_server_frame(raw: &[u8], f: &RefFrame) -> Result<(), String> {
    if f.mask.is_some() {
        return Err("server frame is masked".into());
    }
    if f.rsv != [false; 3] {
        return Err("RSV bits set".into());
    }
    if !matches!(f.opcode, 0 | 1 | 2 | 8 | 9 | 10) {
        return Err(format!("reserved opcode {:#x}", f.opcode));
    }
    if f.opcode >= 8 {
        if !f.fin {
            return Err("fragmented control frame".into());
        }
        if f.payload.len() > 125 {
            return Err("control frame payload > 125".into());
        }
    }
    if raw != f.encode().as_slice() {
        return Err("length not in shortest form".into());
    }
    Ok(())
}

/// Sec-WebSocket-Accept reference: Base64(SHA-1(key + GUID)) with independent SHA-1 and Base64.
pub fn accept_for(key: &str) -> String {
    let mut v = key.as_bytes().to_vec();
    v.extend_from_slice(b"258EAFA5-E914-47DA-95CA-C5AB0DC85B11");
    b64(&sha1(&v))
}

/// Reference SHA-1 (FIPS 180-4), streaming formulation (different structure from the SUT's).
pub fn sha1(msg: &[u8]) -> [u8; 20] {
    let mut h: [u32; 5] = [0x67452301, 0xEFCDAB89, 0x98BADCFE, 0x10325476, 0xC3D2E1F0];
    let ml = (msg.len() as u64).wrapping_mul(8);
    let mut block = [0u8; 64];
    let mut process = |blk: &[u8; 64], h: &mut [u32; 5]| {
        let mut w = [0u32; 80];
        for t in 0..16 {
            w[t] = u32::from_be_bytes([blk[4 * t], blk[4 * t + 1], blk[4 * t + 2], blk[4 * t + 3]]);
        }
        for t in 16..80 {
            w[t] = (w[t - 3] ^ w[t - 8] ^ w[t - 14] ^ w[t - 16]).rotate_left(1);
        }
        let (mut a, mut b, mut c, mut d, mut e) = (h[0], h[1], h[2], h[3], h[4]);
        for (t, wt) in w.iter().enumerate() {
            let (f, k) = if t < 20 {
                ((b & c) ^ (!b & d), 0x5A827999u32)
            } else if t < 40 {
                (b ^ c ^ d, 0x6ED9EBA1)
            } else if t < 60 {
                ((b & c) ^ (b & d) ^ (c & d), 0x8F1BBCDC)
            } else {
                (b ^ c ^ d, 0xCA62C1D6)
            };
            let tmp = a.rotate_left(5).wrapping_add(f).wrapping_add(e).wrapping_add(k).wrapping_add(*wt);
            e = d;
            d = c;
            c = b.rotate_left(30);
            b = a;
            a = tmp;
        }
        h[0] = h[0].wrapping_add(a);
        h[1] = h[1].wrapping_add(b);
        h[2] = h[2].wrapping_add(c);
        h[3] = h[3].wrapping_add(d);
        h[4] = h[4].wrapping_add(e);
    };
    let mut chunks = msg.chunks_exact(64);
    for c in &mut chunks {
        block.copy_from_slice(c);
        process(&block, &mut h);
    }
    let rem = chunks.remainder();
    let mut tail = [0u8; 128];
    tail[..rem.len()].copy_from_slice(rem);
    tail[rem.len()] = 0x80;
    let tl = if rem.len() < 56 { 64 } else { 128 };
    tail[tl - 8..tl].copy_from_slice(&ml.to_be_bytes());
    for c in tail[..tl].chunks_exact(64) {
        block.copy_from_slice(c);
        process(&block, &mut h);
    }
    let mut out = [0u8; 20];
    for i in 0..5 {
        out[4 * i..4 * i + 4].copy_from_slice(&h[i].to_be_bytes());
    }
    out
}

/// Reference Base64 (RFC 4648 section 4) computed arithmetically from a bit accumulator.
pub fn b64(data: &[u8]) -> String {
    fn sym(v: u32) -> char {
        (match v {
            0..=25 => b'A' + v as u8,
            26..=51 => b'a' + (v as u8 - 26),
            52..=61 => b'0' + (v as u8 - 52),
            62 => b'+',
            _ => b'/',
        }) as char
    }
    let mut out = String::new();
    let mut acc: u32 = 0;
    let mut bits = 0;
    for b in data {
        acc = (acc << 8) | *b as u32;
        bits += 8;
        while bits >= 6 {
            bits -= 6;
            out.push(sym((acc >> bits) & 63));
        }
    }
    if bits > 0 {
        out.push(sym((acc << (6 - bits)) & 63));
    }
    while out.len() % 4 != 0 {
        out.push('=');
    }
    out
}

/// Strict reference Base64 decoder (RFC 4648 section 3: length multiple of 4, padding only at the end,
/// only alphabet symbols; non-canonical trailing bits are accepted as most decoders do, flagged separately).
pub fn b64_decode(s: &str) -> Result<Vec<u8>, String> {
    let b = s.as_bytes();
    if b.len() % 4 != 0 {
        return Err("length not a multiple of 4".into());
    }
    let val = |c: u8| -> Option<u32> {
        match c {
            b'A'..=b'Z' => Some((c - b'A') as u32),
            b'a'..=b'z' => Some((c - b'a') as u32 + 26),
            b'0'..=b'9' => Some((c - b'0') as u32 + 52),
            b'+' => Some(62),
            b'/' => Some(63),
            _ => None,
        }
    };
    let mut out = Vec::new();
    let n = b.len() / 4;
    for (gi, g) in b.chunks(4).enumerate() {
        let pad = if g[3] == b'=' { if g[2] == b'=' { 2 } else { 1 } } else { 0 };
        if pad > 0 && gi != n - 1 {
            return Err("padding before the final group".into());
        }
        let mut acc = 0u32;
        for (i, c) in g.iter().enumerate() {
            if i >= 4 - pad {
                acc <<= 6;
                continue;
            }
            match val(*c) {
                Some(v) => acc = (acc << 6) | v,
                None => return Err(format!("foreign symbol {:?}", *c as char)),
            }
        }
        let bytes = acc.to_be_bytes();
        out.extend_from_slice(&bytes[1..4 - pad]);
    }
    Ok(out)
}

/// True if the final group's unused bits are zero (canonical encoding).
pub fn b64_canonical(s: &str) -> bool {
    match b64_decode(s) {
        Ok(v) => b64(&v) == s,
        Err(_) => false,
    }
}

//! Minimal JSON value + writer + reader (used for harness output and replay files only).

#[derive(Clone, Debug, PartialEq)]
pub enum J {
    Null,
    Bool(bool),
    Int(i64),
    Num(f64),
    Str(String),
    Arr(Vec<J>),
    Obj(Vec<(String, J)>),
}

impl J {
    pub fn s(x: impl AsRef<str>) -> J {
        J::Str(x.as_ref().to_string())
    }
    pub fn u(x: u64) -> J {
        J::Int(x as i64)
    }
    pub fn obj(kv: Vec<(&str, J)>) -> J {
        J::Obj(kv.into_iter().map(|(k, v)| (k.to_string(), v)).collect())
    }
    pub fn arr_s<S: AsRef<str>>(xs: &[S]) -> J {
        J::Arr(xs.iter().map(J::s).collect())
    }
    pub fn get(&self, k: &str) -> Option<&J> {
        match self {
            J::Obj(kv) => kv.iter().find(|(kk, _)| kk == k).map(|(_, v)| v),
            _ => None,
        }
    }
    pub fn as_str(&self) -> Option<&str> {
        match self {
            J::Str(s) => Some(s),
            _ => None,
        }
    }
    pub fn as_i64(&self) -> Option<i64> {
        match self {
            J::Int(i) => Some(*i),
            J::Num(f) => Some(*f as i64),
            _ => None,
        }
    }
    pub fn as_arr(&self) -> Option<&[J]> {
        match self {
            J::Arr(a) => Some(a),
            _ => None,
        }
    }

    pub fn write(&self, out: &mut String) {
        match self {
            J::Null => out.push_str("null"),
            J::Bool(b) => out.push_str(if *b { "true" } else { "false" }),
            J::Int(i) => out.push_str(&i.to_string()),
            J::Num(f) => {
                if f.is_finite() {
                    out.push_str(&format!("{}", f))
                } else {
                    out.push_str("null")
                }
            }
            J::Str(s) => write_str(s, out),
            J::Arr(a) => {
                out.push('[');
                for (i, x) in a.iter().enumerate() {
                    if i > 0 {
                        out.push(',');
                    }
                    x.write(out);
                }
                out.push(']');
            }
            J::Obj(kv) => {
                out.push('{');
                for (i, (k, v)) in kv.iter().enumerate() {
                    if i > 0 {
                        out.push(',');
                    }
                    write_str(k, out);
                    out.push(':');
                    v.write(out);
                }
                out.push('}');
            }
        }
    }

    pub fn to_string(&self) -> String {
        let mut s = String::new();
        self.write(&mut s);
        s
    }

    pub fn parse(text: &str) -> Result<J, String> {
        let b = text.as_bytes();
        let mut p = P { b, i: 0 };
        p.ws();
        let v = p.value()?;
        p.ws();
        if p.i != b.len() {
            return Err(format!("trailing data at {}", p.i));
        }
        Ok(v)
    }
}

fn write_str(s: &str, out: &mut String) {
    out.push('"');
    for c in s.chars() {
        match c {
            '"' => out.push_str("\\\""),
            '\\' => out.push_str("\\\\"),
            '\n' => out.push_str("\\n"),
            '\r' => out.push_str("\\r"),
            '\t' => out.push_str("\\t"),
            c if (c as u32) < 0x20 || c as u32 == 0x7f => out.push_str(&format!("\\u{:04x}", c as u32)),
            c => out.push(c),
        }
    }
    out.push('"');
}

struct P<'a> {
    b: &'a [u8],
    i: usize,
}

impl<'a> P<'a> {
    fn ws(&mut self) {
        while self.i < self.b.len() && matches!(self.b[self.i], b' ' | b'\n' | b'\r' | b'\t') {
            self.i += 1;
        }
    }
    fn value(&mut self) -> Result<J, String> {
        if self.i >= self.b.len() {
            return Err("eof".into());
        }
        match self.b[self.i] {
            b'n' => self.lit("null", J::Null),
            b't' => self.lit("true", J::Bool(true)),
            b'f' => self.lit("false", J::Bool(false)),
            b'"' => Ok(J::Str(self.string()?)),
            b'[' => {
                self.i += 1;
                let mut v = Vec::new();
                self.ws();
                if self.peek() == Some(b']') {
                    self.i += 1;
                    return Ok(J::Arr(v));
                }
                loop {
                    self.ws();
                    v.push(self.value()?);
                    self.ws();
                    match self.peek() {
                        Some(b',') => self.i += 1,
                        Some(b']') => {
                            self.i += 1;
                            return Ok(J::Arr(v));
                        }
                        _ => return Err(format!("bad array at {}", self.i)),
                    }
                }
            }
            b'{' => {
                self.i += 1;
                let mut v = Vec::new();
                self.ws();
                if self.peek() == Some(b'}') {
                    self.i += 1;
                    return Ok(J::Obj(v));
                }
                loop {
                    self.ws();
                    let k = self.string()?;
                    self.ws();
                    if self.peek() != Some(b':') {
                        return Err(format!("expected : at {}", self.i));
                    }
                    self.i += 1;
                    self.ws();
                    v.push((k, self.value()?));
                    self.ws();
                    match self.peek() {
                        Some(b',') => self.i += 1,
                        Some(b'}') => {
                            self.i += 1;
                            return Ok(J::Obj(v));
                        }
                        _ => return Err(format!("bad object at {}", self.i)),
                    }
                }
            }
            _ => {
                let st = self.i;
                while self.i < self.b.len() && matches!(self.b[self.i], b'-' | b'+' | b'.' | b'e' | b'E' | b'0'..=b'9') {
                    self.i += 1;
                }
                let t = std::str::from_utf8(&self.b[st..self.i]).unwrap();
                if let Ok(i) = t.parse::<i64>() {
                    Ok(J::Int(i))
                } else {
                    t.parse::<f64>().map(J::Num).map_err(|_| format!("bad number at {}", st))
                }
            }
        }
    }
    fn peek(&self) -> Option<u8> {
        self.b.get(self.i).copied()
    }
    fn lit(&mut self, s: &str, v: J) -> Result<J, String> {
        if self.b[self.i..].starts_with(s.as_bytes()) {
            self.i += s.len();
            Ok(v)
        } else {
            Err(format!("bad literal at {}", self.i))
        }
    }
    fn string(&mut self) -> Result<String, String> {
        if self.peek() != Some(b'"') {
            return Err(format!("expected string at {}", self.i));
        }
        self.i += 1;
        let mut out = Vec::new();
        loop {
            let c = *self.b.get(self.i).ok_or("eof in string")?;
            self.i += 1;
            match c {
                b'"' => break,
                b'\\' => {
                    let e = *self.b.get(self.i).ok_or("eof in escape")?;
                    self.i += 1;
                    match e {
                        b'n' => out.push(b'\n'),
                        b'r' => out.push(b'\r'),
                        b't' => out.push(b'\t'),
                        b'b' => out.push(8),
                        b'f' => out.push(12),
                        b'u' => {
                            let h = std::str::from_utf8(self.b.get(self.i..self.i + 4).ok_or("eof in \\u")?)
                                .map_err(|e| e.to_string())?;
                            let cp = u32::from_str_radix(h, 16).map_err(|e| e.to_string())?;
                            self.i += 4;
                            let ch = char::from_u32(cp).unwrap_or('\u{fffd}');
                            let mut buf = [0u8; 4];
                            out.extend_from_slice(ch.encode_utf8(&mut buf).as_bytes());
                        }
                        other => out.push(other),
                    }
                }
                c => out.push(c),
            }
        }
        String::from_utf8(out).map_err(|e| e.to_string())
    }
}

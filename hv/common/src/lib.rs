//! Laboratory equipment shared by the harness binaries. No dependency on Humphrey.

pub mod alloc;
pub mod args;
pub mod c03lab;
pub mod httplab;
pub mod httpref;
pub mod json;
pub mod net;
pub mod reader;
pub mod reqgen;
pub mod respgen;
pub mod report;
pub mod rng;
pub mod routelab;
pub mod shutlab;
pub mod staticlab;
pub mod util;
pub mod wsref;

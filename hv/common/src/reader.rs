//! Scripted readers: serve a byte string according to a read plan; count reads; detect spinning.

use std::io::{self, Read};

/// Payload of the panic raised when a parser keeps reading after EOF.
pub const SPIN_MARK: &str = "HV-SPIN: reader polled 10000 times after EOF";

#[derive(Clone, Debug, PartialEq)]
pub enum Plan {
    /// give the caller as much as its buffer takes (what an in-memory mock does)
    Fill,
    /// at most one byte per read
    Bytewise,
    /// successive read sizes (the last one repeats); each read returns min(size, buf.len(), remaining)
    Sizes(Vec<usize>),
    /// a single split point: first reads serve data[..k] (respecting buffer size), later reads the rest
    SplitAt(usize),
    /// as `Sizes`, and every read that delivers data is preceded by one that fails with `ErrorKind::Interrupted`
    /// (what a signal without SA_RESTART does to a blocking read; `Read` says the caller retries)
    Interrupted(Vec<usize>),
}

pub struct ScriptedReader<'a> {
    data: &'a [u8],
    pos: usize,
    plan: Plan,
    step: usize,
    pub reads: u64,
    pub post_eof_reads: u64,
    intr_next: bool,
}

impl<'a> ScriptedReader<'a> {
    pub fn new(data: &'a [u8], plan: Plan) -> Self {
        ScriptedReader { data, pos: 0, plan, step: 0, reads: 0, post_eof_reads: 0, intr_next: true }
    }
    pub fn consumed(&self) -> usize {
        self.pos
    }
}

impl<'a> Read for ScriptedReader<'a> {
    fn read(&mut self, buf: &mut [u8]) -> io::Result<usize> {
        self.reads += 1;
        if buf.is_empty() {
            return Ok(0);
        }
        let rem = self.data.len() - self.pos;
        if rem == 0 {
            self.post_eof_reads += 1;
            if self.post_eof_reads > 10_000 {
                panic!("{}", SPIN_MARK);
            }
            return Ok(0);
        }
        if let Plan::Interrupted(_) = &self.plan {
            self.intr_next = !self.intr_next;
            if !self.intr_next {
                return Err(io::Error::from(io::ErrorKind::Interrupted));
            }
        }
        let want = match &self.plan {
            Plan::Fill => rem,
            Plan::Bytewise => 1,
            Plan::Sizes(v) | Plan::Interrupted(v) => {
                let s = if v.is_empty() { rem } else { v[self.step.min(v.len() - 1)] };
                self.step += 1;
                s.max(1)
            }
            Plan::SplitAt(k) => {
                if self.pos < *k {
                    *k - self.pos
                } else {
                    rem
                }
            }
        };
        let n = want.min(rem).min(buf.len());
        buf[..n].copy_from_slice(&self.data[self.pos..self.pos + n]);
        self.pos += n;
        Ok(n)
    }
}

/// The family of plans applied to one input: whole, bytewise, every split point (short inputs) or
/// `nrand` random split points, plus `nmulti` random multi-split plans.
pub fn plans_for(len: usize, rng: &mut crate::rng::Rng, every_split_max: usize, nrand: usize, nmulti: usize) -> Vec<Plan> {
    let mut v = vec![Plan::Fill, Plan::Bytewise];
    if len >= 2 {
        if len <= every_split_max {
            for k in 1..len {
                v.push(Plan::SplitAt(k));
            }
        } else {
            for _ in 0..nrand {
                v.push(Plan::SplitAt(rng.urange(1, len - 1)));
            }
        }
        for _ in 0..nmulti {
            let n = rng.urange(2, 12);
            let mx = (len / 2).max(2);
            v.push(Plan::Sizes((0..n).map(|_| rng.urange(1, mx)).collect()));
        }
        if nmulti > 0 {
            let n = rng.urange(1, 6);
            let mx = (len / 2).max(2);
            v.push(Plan::Interrupted((0..n).map(|_| rng.urange(1, mx)).collect()));
        }
    }
    v
}

pub fn plan_to_string(p: &Plan) -> String {
    match p {
        Plan::Fill => "fill".into(),
        Plan::Bytewise => "bytewise".into(),
        Plan::SplitAt(k) => format!("split@{}", k),
        Plan::Sizes(v) => format!("sizes:{}", v.iter().map(|x| x.to_string()).collect::<Vec<_>>().join(",")),
        Plan::Interrupted(v) => format!("intr:{}", v.iter().map(|x| x.to_string()).collect::<Vec<_>>().join(",")),
    }
}

pub fn plan_from_string(s: &str) -> Option<Plan> {
    if s == "fill" {
        Some(Plan::Fill)
    } else if s == "bytewise" {
        Some(Plan::Bytewise)
    } else if let Some(k) = s.strip_prefix("split@") {
        k.parse().ok().map(Plan::SplitAt)
    } else if let Some(v) = s.strip_prefix("sizes:") {
        v.split(',').map(|x| x.parse().ok()).collect::<Option<Vec<usize>>>().map(Plan::Sizes)
    } else if let Some(v) = s.strip_prefix("intr:") {
        v.split(',').map(|x| x.parse().ok()).collect::<Option<Vec<usize>>>().map(Plan::Interrupted)
    } else {
        None
    }
}

//! C20 laboratory shared by the threaded and tokio harnesses: traffic-state generator, client side,
//! and the judgement of "run returns, port is free, started responses are complete".

use crate::httplab::Conn;
use crate::httpref::Framing;
use crate::json::J;
use crate::report::Report;
use crate::rng::Rng;
use crate::util::fnv;
use std::net::{SocketAddr, TcpListener, TcpStream};
use std::time::{Duration, Instant};

/// What the harness must provide: a freshly started app with the standard C20 routes
/// (`/fast`, `/slow?ms=N&id=X`, `/big?kb=N&id=X`, websocket `/ws`).
pub trait RunningApp {
    fn addr(&self) -> SocketAddr;
    /// the action that sends the shutdown signal (callable once, from any thread)
    fn take_signaller(&mut self) -> Box<dyn FnOnce() + Send>;
    /// wait until `run` has returned; Some(instant it returned)
    fn wait_returned(&mut self, timeout: Duration) -> Option<Instant>;
    /// instants at which the handler for request id started (handler-side log)
    fn handler_started(&self, id: &str) -> Option<Instant>;
    /// when the application itself reported having accepted the connection from this client address (monitor event
    /// `ConnectionSuccess`, emitted by the accept thread before the connection is handed to the pool); None if the
    /// runtime offers no such observation
    fn accepted_at(&self, _client: SocketAddr) -> Option<Instant> {
        None
    }
    fn runtime(&self) -> &'static str;
}

#[derive(Clone, Debug, PartialEq)]
pub enum ConnState {
    JustAccepted,
    IdleKeepAlive,
    HalfSent,
    Handler(u64),
    BigResponse(usize),
    WebSocket,
}

#[derive(Clone, Debug, PartialEq)]
pub enum When {
    BeforeAnyConnection,
    AfterTrafficSettled,
    ConcurrentWithBurst,
}

#[derive(Clone, Debug)]
pub struct Scenario {
    pub pool: usize,
    pub bind: &'static str,
    pub conns: Vec<ConnState>,
    pub when: When,
}

pub fn gen_scenario(rng: &mut Rng) -> Scenario {
    let pool = rng.urange(1, 8);
    let bind = *rng.pick(&["127.0.0.1", "127.0.0.1", "0.0.0.0", "[::]"]);
    let when = match rng.below(6) {
        0 => When::BeforeAnyConnection,
        1 | 2 => When::ConcurrentWithBurst,
        _ => When::AfterTrafficSettled,
    };
    let n = if when == When::BeforeAnyConnection { 0 } else { rng.urange(0, 16) };
    let conns = (0..n)
        .map(|_| match rng.below(10) {
            0 => ConnState::JustAccepted,
            1 | 2 => ConnState::IdleKeepAlive,
            3 => ConnState::HalfSent,
            4 => ConnState::Handler(5),
            5 => ConnState::Handler(500),
            6 => ConnState::Handler(if rng.chance(1, 3) { 3000 } else { 1200 }),
            7 | 8 => ConnState::BigResponse(rng.urange(1024, 4096)),
            _ => ConnState::WebSocket,
        })
        .collect();
    Scenario { pool, bind, conns, when }
}

pub fn scenario_json(s: &Scenario) -> J {
    J::obj(vec![("pool", J::u(s.pool as u64)), ("bind", J::s(s.bind)), ("signal", J::s(format!("{:?}", s.when))), ("connections", J::Arr(s.conns.iter().map(|c| J::s(format!("{:?}", c))).collect()))])
}

struct Client {
    state: ConnState,
    id: String,
    conn: Option<Conn>,
    /// a complete request was sent before the signal
    request_sent: bool,
    /// when the request had been written completely
    sent_at: Instant,
    local: Option<SocketAddr>,
}

fn target_addr(a: SocketAddr) -> SocketAddr {
    // connect to the loopback address of the family the app is bound to
    let mut t = a;
    if a.ip().is_unspecified() {
        t.set_ip(if a.is_ipv4() { "127.0.0.1".parse().unwrap() } else { "::1".parse().unwrap() });
    }
    t
}

/// Runs one scenario against a started app. `sid` makes request ids unique.
pub fn run_scenario(r: &mut Report, app: &mut dyn RunningApp, sc: &Scenario, sid: &str, replay: &[String]) {
    r.eval();
    r.count("scenarios", 1);
    let addr = target_addr(app.addr());
    let rt = app.runtime();
    let ex = |why: &str| J::obj(vec![("scenario", scenario_json(sc)), ("runtime", J::s(rt)), ("why", J::s(why))]);
    // until the signal the server serves normally
    if sc.when != When::BeforeAnyConnection {
        let mut p = match Conn::open(addr) {
            Ok(c) => c,
            Err(e) => {
                r.inconclusive(format!("cannot connect to the lab app at {}: {}", addr, e));
                return;
            }
        };
        p.send(b"GET /fast HTTP/1.1\r\nHost: hv\r\n\r\n", &[], 0).ok();
        match p.read_response(Duration::from_secs(10)) {
            Ok(Some(m)) if m.status() == 200 => r.count("probes_answered_before_signal", 1),
            other => {
                r.violation("C20/not-serving-before-signal", format!("[{}] probe request before the signal was not answered normally: {:?}", rt, other.map(|m| m.map(|x| x.status()))), ex("probe"), replay.to_vec());
                return;
            }
        }
    }
    let mut clients: Vec<Client> = Vec::new();
    let open_clients = |clients: &mut Vec<Client>, r: &mut Report| {
        for (i, st) in sc.conns.iter().enumerate() {
            let id = format!("{}c{}", sid, i);
            let mut c = match Conn::open(addr) {
                Ok(c) => c,
                Err(_) => {
                    clients.push(Client { state: st.clone(), id, conn: None, request_sent: false, sent_at: Instant::now(), local: None });
                    continue;
                }
            };
            let mut sent = false;
            match st {
                ConnState::JustAccepted => {}
                ConnState::IdleKeepAlive => {
                    c.send(format!("GET /fast?id={} HTTP/1.1\r\nHost: hv\r\nConnection: keep-alive\r\n\r\n", id).as_bytes(), &[], 0).ok();
                }
                ConnState::HalfSent => {
                    c.send(format!("POST /fast?id={} HTTP/1.1\r\nHost: hv\r\nContent-Length: 100\r\n\r\nonly-a-part", id).as_bytes(), &[], 0).ok();
                }
                ConnState::Handler(ms) => {
                    c.send(format!("GET /slow?ms={}&id={} HTTP/1.1\r\nHost: hv\r\n\r\n", ms, id).as_bytes(), &[], 0).ok();
                    sent = true;
                }
                ConnState::BigResponse(kb) => {
                    c.send(format!("GET /big?kb={}&id={} HTTP/1.1\r\nHost: hv\r\n\r\n", kb, id).as_bytes(), &[], 0).ok();
                    sent = true;
                }
                ConnState::WebSocket => {
                    c.send(format!("GET /ws?id={} HTTP/1.1\r\nHost: hv\r\nUpgrade: websocket\r\nConnection: Upgrade\r\nSec-WebSocket-Key: aGVsbG8=\r\n\r\n", id).as_bytes(), &[], 0).ok();
                }
            }
            r.count("connections_opened", 1);
            let local = c.s.local_addr().ok();
            clients.push(Client { state: st.clone(), id, conn: Some(c), request_sent: sent, sent_at: Instant::now(), local });
        }
    };
    let t_signal;
    match sc.when {
        When::BeforeAnyConnection => {
            t_signal = Instant::now();
            (app.take_signaller())();
        }
        When::AfterTrafficSettled => {
            open_clients(&mut clients, r);
            // let the idle keep-alive exchanges complete and the handlers start
            for c in clients.iter_mut() {
                if c.state == ConnState::IdleKeepAlive {
                    if let Some(conn) = c.conn.as_mut() {
                        // (a connection queued behind occupied workers is not answered yet: that is a traffic state too)
                        let _ = conn.read_response(Duration::from_millis(150));
                    }
                }
            }
            // long enough for every connection to have been accepted and handed to a worker or queued behind the busy ones
            std::thread::sleep(Duration::from_millis(120));
            t_signal = Instant::now();
            (app.take_signaller())();
        }
        When::ConcurrentWithBurst => {
            // the signal is sent from another thread while the burst of connects is in progress
            let sig = app.take_signaller();
            let delay_us = (fnv(sid.as_bytes()) % 3000) as u64;
            let at = std::sync::Arc::new(std::sync::Mutex::new(None));
            let at2 = at.clone();
            let h = std::thread::spawn(move || {
                std::thread::sleep(Duration::from_micros(delay_us));
                *at2.lock().unwrap() = Some(Instant::now());
                sig();
            });
            open_clients(&mut clients, r);
            h.join().ok();
            t_signal = at.lock().unwrap().unwrap_or_else(Instant::now);
        }
    }
    // run must return
    let returned = app.wait_returned(Duration::from_secs(10));
    match returned {
        None => {
            r.violation(&format!("C20/run-did-not-return:{}", rt), format!("[{}] run() had not returned 10 s after the shutdown signal ({} connections, pool {})", rt, sc.conns.len(), sc.pool), ex("no return"), replay.to_vec());
            for c in clients.iter_mut() {
                c.conn = None;
            }
            return;
        }
        Some(t) => {
            let ms = t.saturating_duration_since(t_signal).as_millis() as u64;
            r.max("max_ms_signal_to_return", ms);
            r.count("returns_observed", 1);
        }
    }
    // the port can be bound again
    let bind_addr = app.addr();
    match TcpListener::bind(bind_addr) {
        Ok(l) => {
            r.count("rebinds_ok", 1);
            drop(l);
        }
        Err(e) => r.violation(&format!("C20/port-not-free:{}", rt), format!("[{}] re-binding {} after run() returned failed: {}", rt, bind_addr, e), ex("rebind"), replay.to_vec()),
    }
    // close the connections that merely occupy workers (idle, half-sent, just accepted, WebSocket): queued
    // connections then get served too, which lets the "never truncated" clause be observed on them as well
    for c in clients.iter_mut() {
        if !matches!(c.state, ConnState::Handler(_) | ConnState::BigResponse(_)) {
            c.conn = None;
        }
    }
    // responses of connections whose handler had started before the signal must be complete
    for c in clients.iter_mut() {
        let started_before = app.handler_started(&c.id).map(|t| t < t_signal).unwrap_or(false);
        let conn = match c.conn.as_mut() {
            Some(c) => c,
            None => continue,
        };
        match &c.state {
            ConnState::Handler(_) | ConnState::BigResponse(_) => {
                let want_len = match &c.state {
                    ConnState::BigResponse(kb) => kb * 1024,
                    _ => 0,
                };
                // a handler that has started (before or after the signal) will answer; a connection that never reached
                // a handler (dropped while racing with the signal) gets a short wait only
                let mut wait = Duration::from_millis(700);
                let t_wait = Instant::now();
                while t_wait.elapsed() < Duration::from_millis(700) {
                    if started_before || app.handler_started(&c.id).is_some() {
                        wait = Duration::from_secs(15);
                        break;
                    }
                    if conn.fill(Duration::from_millis(20)) && (conn.eof || !conn.buf.is_empty()) {
                        break;
                    }
                }
                match conn.read_response(wait) {
                    Ok(Some(m)) => {
                        let ok = m.status() == 200 && matches!(m.framing, Framing::ContentLength(_)) && (want_len == 0 || m.body.len() == want_len) && (want_len != 0 || String::from_utf8_lossy(&m.body).contains(&c.id));
                        if ok {
                            r.count("in_flight_responses_complete", 1);
                            if started_before {
                                r.count("in_flight_started_before_signal_complete", 1);
                            }
                        } else {
                            r.violation(&format!("C20/in-flight-response-wrong:{}", rt), format!("[{}] in-flight response for {:?} is wrong: status {} body {} bytes", rt, c.state, m.status(), m.body.len()), ex("wrong response"), replay.to_vec());
                        }
                    }
                    Ok(None) => {
                        if started_before && c.request_sent {
                            if conn.eof {
                                r.violation(&format!("C20/in-flight-response-lost:{}", rt), format!("[{}] the handler for {:?} had started before the signal but the connection was closed without a response", rt, c.state), ex("lost"), replay.to_vec());
                            } else {
                                r.inconclusive(format!("in-flight response for {:?} not received within 15 s", c.state));
                            }
                        } else if c.request_sent && conn.eof && c.local.and_then(|a| app.accepted_at(a)).map(|t| t < t_signal).unwrap_or(false) {
                            // not racing: the application itself had reported the connection as accepted before the signal
                            // (so it was handed to the pool and waited behind busy workers); queued work is finished after
                            // shutdown, not discarded. A connection still in the kernel's backlog at the signal IS racing.
                            r.violation(&format!("C20/queued-request-dropped:{}", rt), format!("[{}] a {:?} request on a connection the application had accepted before the signal (request sent {} ms before it), waiting behind occupied workers (pool {}), was closed without a response", rt, c.state, t_signal.saturating_duration_since(c.sent_at).as_millis(), sc.pool), ex("queued request dropped"), replay.to_vec());
                        } else {
                            r.count("racing_connections_got_nothing", 1);
                        }
                    }
                    Err(e) => {
                        r.violation(&format!("C20/in-flight-response-truncated:{}", rt), format!("[{}] response for {:?} was truncated or malformed: {}", rt, c.state, e), ex(&e), replay.to_vec());
                    }
                }
            }
            _ => {}
        }
    }
    // closing the clients lets the app's remaining workers finish
    for c in clients.iter_mut() {
        c.conn = None;
    }
    r.nontrivial(fnv(format!("{:?}", scenario_json(sc).to_string()).as_bytes()));
}


/// "Until the signal is sent the server keeps serving": a burst of connections that exhausts the process's file
/// descriptors makes `accept` fail (EMFILE) for a while. That is a transient condition: once descriptors are free again
/// the server serves as before, and `run` has not returned, since nobody sent the signal.
///
/// The descriptor limit is per process, so this runs alone (after the sharded part of the workload), with the soft limit
/// lowered to the current number of descriptors plus an ODD headroom: every accepted connection needs a client-side
/// descriptor first, so at exhaustion there is at least one connection the server was woken for and could not accept.
///
/// `rounds` shortages follow one another (the server must serve again after each); with `signal_in_shortage` the signal is
/// sent 200 ms into the last one, while `accept` is still failing: `run` returns promptly all the same - what earlier
/// shortages did to the accept loop must not delay it (seeded C20-K). "Promptly" is 2 s here (the unchanged tree needs
/// milliseconds); a machine that schedules threads late at that moment makes the round inconclusive, not violated.
pub fn fd_exhaustion_scenario(r: &mut Report, app: &mut dyn RunningApp, rounds: usize, signal_in_shortage: bool, replay: &[String]) {
    #[repr(C)]
    struct Rlimit {
        cur: u64,
        max: u64,
    }
    extern "C" {
        fn getrlimit(resource: i32, rlim: *mut Rlimit) -> i32;
        fn setrlimit(resource: i32, rlim: *const Rlimit) -> i32;
    }
    const RLIMIT_NOFILE: i32 = 7;
    let open_fds = || std::fs::read_dir("/proc/self/fd").map(|d| d.count() as u64).unwrap_or(0);
    let rt = app.runtime();
    let addr = target_addr(app.addr());
    let ask = |addr: SocketAddr| -> bool {
        use std::io::{Read, Write};
        let mut s = match TcpStream::connect(addr) {
            Ok(s) => s,
            Err(_) => return false,
        };
        let _ = s.write_all(b"GET /fast?id=fdx HTTP/1.1\r\nHost: hv\r\nConnection: close\r\n\r\n");
        let _ = s.set_read_timeout(Some(Duration::from_secs(5)));
        let mut b = Vec::new();
        let _ = s.read_to_end(&mut b);
        b.starts_with(b"HTTP/1.1 200")
    };
    r.eval();
    r.count("fd_exhaustion_scenarios", 1);
    r.nontrivial(0x20fd_0000 + fnv(rt.as_bytes()) + rounds as u64 * 2 + signal_in_shortage as u64);
    if !ask(addr) {
        r.inconclusive(format!("[{}] fd-exhaustion scenario: the lab app did not serve before the burst", rt));
        return;
    }
    let mut old = Rlimit { cur: 0, max: 0 };
    if unsafe { getrlimit(RLIMIT_NOFILE, &mut old) } != 0 {
        r.inconclusive("getrlimit failed");
        return;
    }
    let mut last = (0u64, 0u64, 0u64, 0u64);
    for round in 0..rounds {
        let in_shortage_signal = signal_in_shortage && round + 1 == rounds;
        let before = open_fds();
        let headroom = 41u64;
        let low = Rlimit { cur: (before + headroom).min(old.max), max: old.max };
        if unsafe { setrlimit(RLIMIT_NOFILE, &low) } != 0 {
            r.inconclusive("setrlimit failed");
            return;
        }
        let mut held: Vec<TcpStream> = Vec::new();
        let mut client_refused = 0;
        for _ in 0..400 {
            match TcpStream::connect(addr) {
                Ok(s) => held.push(s),
                Err(_) => {
                    client_refused += 1;
                    if client_refused >= 3 {
                        break;
                    }
                    std::thread::sleep(Duration::from_millis(20));
                }
            }
        }
        std::thread::sleep(Duration::from_millis(if in_shortage_signal { 200 } else { 300 }));
        let during = open_fds();
        let c = held.len() as u64;
        let accepted = during.saturating_sub(before + 1).saturating_sub(c); // (+1: the /proc/self/fd handle itself is not counted twice; tolerate one either way)
        let starved = c.saturating_sub(accepted);
        last = (before, low.cur, c, starved);
        let ex = J::obj(vec![("descriptors_before", J::u(before)), ("soft_limit_during_burst", J::u(low.cur)), ("client_connections", J::u(c)), ("connections_left_unaccepted_at_exhaustion", J::u(starved)), ("shortage_round", J::u(round as u64 + 1)), ("of_rounds", J::u(rounds as u64)), ("runtime", J::s(rt))]);
        if in_shortage_signal && client_refused >= 3 && starved > 0 {
            // the signal arrives while accept is still failing
            let signal = app.take_signaller();
            let t = Instant::now();
            signal();
            let back = app.wait_returned(Duration::from_secs(10)).map(|at| at.saturating_duration_since(t));
            let waited = t.elapsed();
            drop(held);
            if unsafe { setrlimit(RLIMIT_NOFILE, &old) } != 0 {
                r.harness_error("could not restore RLIMIT_NOFILE".to_string());
                return;
            }
            match back {
                None => r.violation(&format!("C20/run-did-not-return:{}", rt), format!("[{}] run() had not returned {:?} after a signal sent while the process was out of descriptors (shortage {} of {})", rt, waited, round + 1, rounds), ex, replay.to_vec()),
                Some(d) if d > Duration::from_secs(2) => {
                    // three 20 ms sleeps: is the machine scheduling threads promptly right now?
                    let over = (0..3).map(|_| { let t = Instant::now(); std::thread::sleep(Duration::from_millis(20)); t.elapsed().as_millis().saturating_sub(20) as u64 }).max().unwrap_or(0);
                    if over > 200 {
                        r.count("fd_exhaustion_signal_in_shortage_discarded_machine_stalled", 1);
                    } else {
                        r.violation(&format!("C20/run-returned-late-after-descriptor-shortages:{}", rt), format!("[{}] the signal was sent 200 ms into descriptor shortage {} of {} (accept failing with EMFILE); run() returned {} ms later - the unchanged accept loop needs milliseconds, the delay comes from what the earlier shortages left behind", rt, round + 1, rounds, d.as_millis()), ex, replay.to_vec());
                    }
                }
                Some(d) => {
                    r.count("fd_exhaustion_signal_in_shortage_returns", 1);
                    r.max("max_ms_to_return_after_a_signal_sent_in_a_descriptor_shortage", d.as_millis() as u64);
                }
            }
            return;
        }
        drop(held);
        let restored = unsafe { setrlimit(RLIMIT_NOFILE, &old) } == 0;
        if !restored {
            r.harness_error("could not restore RLIMIT_NOFILE".to_string());
            return;
        }
        r.max("fd_exhaustion_client_connections", c);
        r.max("fd_exhaustion_connections_the_server_could_not_accept", starved);
        if client_refused < 3 || starved == 0 {
            r.count("fd_exhaustion_not_reached", 1);
            return;
        }
        r.count("fd_shortages_driven", 1);
        std::thread::sleep(Duration::from_millis(300));
        if app.wait_returned(Duration::from_millis(200)).is_some() {
            r.violation(&format!("C20/run-returned-without-signal:{}", rt), format!("[{}] run() returned although no shutdown signal was sent: {} connections exhausted the descriptor limit for a moment (accept failed for {} of them)", rt, c, starved), ex, replay.to_vec());
            return;
        }
        let mut served = false;
        let t_serve = Instant::now();
        for _ in 0..100 {
            if ask(addr) {
                served = true;
                break;
            }
            std::thread::sleep(Duration::from_millis(100));
        }
        if !served {
            r.violation(&format!("C20/stopped-serving-without-signal:{}", rt), format!("[{}] after a burst of {} connections exhausted the descriptor limit for a moment (shortage {} of {}) the server no longer answers, although no shutdown signal was sent", rt, c, round + 1, rounds), ex, replay.to_vec());
            return;
        }
        r.max("max_ms_until_served_again_after_a_descriptor_shortage", t_serve.elapsed().as_millis() as u64);
        r.count("fd_exhaustion_survived_and_serving", 1);
    }
    let (before, low_cur, c, starved) = last;
    let ex = J::obj(vec![("descriptors_before", J::u(before)), ("soft_limit_during_burst", J::u(low_cur)), ("client_connections", J::u(c)), ("connections_left_unaccepted_at_exhaustion", J::u(starved)), ("shortages", J::u(rounds as u64)), ("runtime", J::s(rt))]);
    let signal = app.take_signaller();
    signal();
    match app.wait_returned(Duration::from_secs(10)) {
        Some(_) => r.count("fd_exhaustion_then_shutdown_returns", 1),
        None => r.violation(&format!("C20/run-did-not-return:{}", rt), format!("[{}] run() had not returned 10 s after the signal (after {} earlier descriptor shortage(s))", rt, rounds), ex, replay.to_vec()),
    }
}

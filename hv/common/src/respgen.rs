//! Generator + model of HTTP/1.x response messages as a conforming server would send them
//! (Content-Length, chunked in a given chunking, or header-only), used by C07 and C09.

use crate::json::J;
use crate::rng::Rng;
use crate::util::show;

pub const CODES: [u16; 39] = [100, 101, 200, 201, 202, 203, 204, 205, 206, 300, 301, 302, 303, 304, 305, 307, 400, 401, 403, 404, 405, 406, 407, 408, 409, 410, 411, 412, 413, 414, 415, 416, 417, 500, 501, 502, 503, 504, 505];

/// Reason phrases registered for a code (RFC 9110 names and their RFC 2616/7231 predecessors).
pub fn reasons(code: u16) -> &'static [&'static str] {
    match code {
        100 => &["Continue"],
        101 => &["Switching Protocols"],
        200 => &["OK"],
        201 => &["Created"],
        202 => &["Accepted"],
        203 => &["Non-Authoritative Information"],
        204 => &["No Content"],
        205 => &["Reset Content"],
        206 => &["Partial Content"],
        300 => &["Multiple Choices"],
        301 => &["Moved Permanently"],
        302 => &["Found"],
        303 => &["See Other"],
        304 => &["Not Modified"],
        305 => &["Use Proxy"],
        307 => &["Temporary Redirect"],
        400 => &["Bad Request"],
        401 => &["Unauthorized"],
        403 => &["Forbidden"],
        404 => &["Not Found"],
        405 => &["Method Not Allowed"],
        406 => &["Not Acceptable"],
        407 => &["Proxy Authentication Required"],
        408 => &["Request Timeout"],
        409 => &["Conflict"],
        410 => &["Gone"],
        411 => &["Length Required"],
        412 => &["Precondition Failed"],
        413 => &["Content Too Large", "Payload Too Large", "Request Entity Too Large"],
        414 => &["URI Too Long", "Request-URI Too Long"],
        415 => &["Unsupported Media Type"],
        416 => &["Range Not Satisfiable", "Requested Range Not Satisfiable"],
        417 => &["Expectation Failed"],
        500 => &["Internal Server Error"],
        501 => &["Not Implemented"],
        502 => &["Bad Gateway"],
        503 => &["Service Unavailable"],
        504 => &["Gateway Timeout"],
        505 => &["HTTP Version Not Supported"],
        _ => &[],
    }
}

#[derive(Clone, Debug, PartialEq)]
pub enum Framing {
    ContentLength,
    /// chunk sizes (sum = body length); per-chunk rendering of the size: (uppercase hex, leading zeros)
    Chunked(Vec<(usize, bool, usize)>),
    /// no framing header and no body
    HeaderOnly,
    /// no framing header, body delimited by connection close
    UntilClose,
}

#[derive(Clone, Debug)]
pub struct RespModel {
    pub version: String,
    pub code: u16,
    pub reason: String,
    pub fields: Vec<(String, usize, String)>,
    pub body: Vec<u8>,
    pub framing: Framing,
}

const NAMES: [&str; 12] = ["Content-Type", "Server", "Date", "ETag", "Cache-Control", "Location", "X-A", "X-b-c", "Set-Cookie", "Link", "Age", "Allow"];

fn gen_value(rng: &mut Rng) -> String {
    let n = rng.urange(0, 30);
    let mut v = String::new();
    for _ in 0..n {
        match rng.below(12) {
            0 => v.push(' '),
            1 => v.push(*rng.pick(&['é', '€', '😀'])),
            2 => v.push(*rng.pick(&[':', ';', ',', '=', '"', '/'])),
            _ => v.push((0x21 + rng.below(0x5e) as u8) as char),
        }
    }
    v.trim_matches(|c| c == ' ' || c == '\t').to_string()
}

pub fn compositions(n: usize) -> Vec<Vec<usize>> {
    if n == 0 {
        return vec![vec![]];
    }
    let mut out = Vec::new();
    for mask in 0..(1u32 << (n - 1)) {
        let mut parts = Vec::new();
        let mut cur = 1;
        for i in 0..n - 1 {
            if mask & (1 << i) != 0 {
                parts.push(cur);
                cur = 1;
            } else {
                cur += 1;
            }
        }
        parts.push(cur);
        out.push(parts);
    }
    out
}

pub fn gen_body(rng: &mut Rng, n: usize) -> Vec<u8> {
    match rng.below(3) {
        0 => rng.bytes(n),
        1 => (0..n).map(|_| *rng.pick(b"\r\n0123456789abcdef;: ")).collect(),
        _ => (0..n).map(|i| b'a' + (i % 26) as u8).collect(),
    }
}

pub fn random_chunking(rng: &mut Rng, n: usize) -> Vec<(usize, bool, usize)> {
    let mut parts = Vec::new();
    let mut left = n;
    while left > 0 {
        let c = match rng.below(4) {
            0 => 1,
            1 => rng.urange(1, 16.min(left)),
            2 => rng.urange(1, left),
            _ => left.min(rng.urange(1, 4096)),
        }
        .min(left);
        parts.push((c, rng.chance(1, 2), if rng.chance(1, 5) { rng.urange(1, 3) } else { 0 }));
        left -= c;
    }
    parts
}

pub fn gen_response(rng: &mut Rng, code: u16, max_fields: usize, max_body: usize, allow_until_close: bool) -> RespModel {
    let version = if rng.chance(4, 5) { "HTTP/1.1" } else { "HTTP/1.0" }.to_string();
    let reason = rng.pick(reasons(code)).to_string();
    let nf = rng.urange(0, max_fields);
    let mut fields = Vec::new();
    for _ in 0..nf {
        let n = *rng.pick(&NAMES);
        let name: String = if rng.chance(1, 3) { n.chars().map(|c| if rng.chance(1, 2) { c.to_ascii_uppercase() } else { c.to_ascii_lowercase() }).collect() } else { n.to_string() };
        fields.push((name, rng.urange(0, 2), gen_value(rng)));
    }
    let bodyless = (100..200).contains(&code) || code == 204 || code == 304;
    let n = if bodyless { 0 } else { match rng.below(5) { 0 => 0, 1 | 2 => rng.urange(1, 64), 3 => rng.urange(64, 4096.min(max_body.max(64))), _ => rng.urange(0, max_body) } };
    let body = gen_body(rng, n);
    let framing = if bodyless {
        if rng.chance(1, 2) { Framing::HeaderOnly } else { Framing::ContentLength }
    } else {
        match rng.below(if allow_until_close { 7 } else { 6 }) {
            0..=2 => Framing::ContentLength,
            3..=5 => Framing::Chunked(random_chunking(rng, n)),
            _ => Framing::UntilClose,
        }
    };
    let mut m = RespModel { version, code, reason, fields, body, framing };
    if bodyless {
        m.body.clear();
    }
    if m.framing == Framing::HeaderOnly {
        m.body.clear();
    }
    m
}

impl RespModel {
    /// The wire bytes, with the framing header inserted at a position chosen from `at`.
    pub fn render(&self, at: usize) -> Vec<u8> {
        let mut fields = self.fields.clone();
        let pos = if fields.is_empty() { 0 } else { at % (fields.len() + 1) };
        match &self.framing {
            Framing::ContentLength => fields.insert(pos, ("Content-Length".into(), 1, self.body.len().to_string())),
            Framing::Chunked(_) => fields.insert(pos, ("Transfer-Encoding".into(), 1, "chunked".into())),
            _ => {}
        }
        let mut v = format!("{} {} {}\r\n", self.version, self.code, self.reason).into_bytes();
        for (n, o, val) in &fields {
            v.extend_from_slice(n.as_bytes());
            v.push(b':');
            v.extend(std::iter::repeat(b' ').take(*o));
            v.extend_from_slice(val.as_bytes());
            v.extend_from_slice(b"\r\n");
        }
        v.extend_from_slice(b"\r\n");
        match &self.framing {
            Framing::Chunked(parts) => {
                let mut p = 0;
                for (n, upper, zeros) in parts {
                    let h = if *upper { format!("{:X}", n) } else { format!("{:x}", n) };
                    v.extend(std::iter::repeat(b'0').take(*zeros));
                    v.extend_from_slice(h.as_bytes());
                    v.extend_from_slice(b"\r\n");
                    v.extend_from_slice(&self.body[p..p + n]);
                    v.extend_from_slice(b"\r\n");
                    p += n;
                }
                v.extend_from_slice(b"0\r\n\r\n");
            }
            _ => v.extend_from_slice(&self.body),
        }
        v
    }

    /// what a correct client reports: fields (framing header translated), body
    pub fn expected_fields(&self) -> Vec<(String, String)> {
        let mut f: Vec<(String, String)> = self.fields.iter().map(|(n, _, v)| (n.to_ascii_lowercase(), v.clone())).collect();
        match &self.framing {
            Framing::ContentLength | Framing::Chunked(_) => f.push(("content-length".into(), self.body.len().to_string())),
            _ => {}
        }
        f
    }

    pub fn to_json(&self) -> J {
        J::obj(vec![
            ("status_line", J::s(format!("{} {} {}", self.version, self.code, self.reason))),
            ("nfields", J::u(self.fields.len() as u64)),
            ("framing", J::s(match &self.framing { Framing::ContentLength => "content-length".to_string(), Framing::Chunked(p) => format!("chunked {:?}", p.iter().map(|x| x.0).take(12).collect::<Vec<_>>()), Framing::HeaderOnly => "header-only".into(), Framing::UntilClose => "until-close".into() })),
            ("body_len", J::u(self.body.len() as u64)),
            ("body_head", J::s(show(&self.body, 40))),
        ])
    }
}

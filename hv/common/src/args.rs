//! `--key value` argument access.

pub struct Args {
    pub v: Vec<String>,
}

impl Args {
    pub fn from_env() -> Self {
        Args { v: std::env::args().skip(1).collect() }
    }
    pub fn cmd(&self) -> &str {
        self.v.get(0).map(|s| s.as_str()).unwrap_or("")
    }
    pub fn get(&self, key: &str) -> Option<&str> {
        let k = format!("--{}", key);
        self.v.iter().position(|a| *a == k).and_then(|i| self.v.get(i + 1)).map(|s| s.as_str())
    }
    pub fn flag(&self, key: &str) -> bool {
        let k = format!("--{}", key);
        self.v.iter().any(|a| *a == k)
    }
    pub fn u64(&self, key: &str, default: u64) -> u64 {
        self.get(key).and_then(|s| s.parse().ok()).unwrap_or(default)
    }
    pub fn thorough(&self) -> bool {
        self.get("tier") == Some("thorough")
    }
    pub fn seed(&self) -> u64 {
        self.u64("seed", 1)
    }
}

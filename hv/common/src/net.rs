//! Scripted loopback peers: a server that records what it receives and plays a scripted behaviour,
//! plus small client helpers. std only.

use crate::httpref::{parse_request, Parse, RefMessage};
use std::collections::VecDeque;
use std::io::{Read, Write};
use std::net::{Shutdown, SocketAddr, TcpListener, TcpStream};
use std::sync::atomic::{AtomicBool, Ordering};
use std::sync::{Arc, Mutex};
use std::time::{Duration, Instant};

#[derive(Clone, Debug)]
pub enum Play {
    /// read the request, then write `bytes` in segments (sizes; the last repeats) with a gap, then close
    Respond { bytes: Vec<u8>, seg: Vec<usize>, gap_us: u64, linger_ms: u64 },
    /// read the request, then say nothing for `hold_ms`, then close
    Silence { hold_ms: u64 },
    /// close right after accepting
    CloseImmediately,
    /// read the request, then send one byte every `per_byte_ms`
    Trickle { bytes: Vec<u8>, per_byte_ms: u64 },
    /// write without reading the request first
    RespondWithoutReading { bytes: Vec<u8> },
    /// read the request, wait, write `bytes`, then hold the connection open without sending more
    LateThenStall { first_delay_ms: u64, bytes: Vec<u8>, hold_ms: u64 },
    /// read the request, wait `delay_ms`, then write the whole response and close
    DelayedRespond { delay_ms: u64, bytes: Vec<u8> },
    /// read the request, then for each part wait `delay_ms` and write its bytes; then close
    Parts { parts: Vec<(u64, Vec<u8>)> },
    /// accept, never read a byte, never write; hold the connection for `hold_ms` (or until the peer goes away)
    AcceptNoRead { hold_ms: u64 },
}

#[derive(Clone, Debug)]
pub struct Received {
    pub conn: usize,
    pub peer: SocketAddr,
    pub raw: Vec<u8>,
    pub parsed: Option<RefMessage>,
    pub malformed: Option<String>,
    pub play: String,
}

pub struct ScriptedServer {
    pub addr: SocketAddr,
    queue: Arc<Mutex<VecDeque<Play>>>,
    log: Arc<Mutex<Vec<Received>>>,
    stop: Arc<AtomicBool>,
    handle: Option<std::thread::JoinHandle<()>>,
    /// connections whose play is still running
    pub active: Arc<Mutex<usize>>,
}

pub fn read_request(s: &mut TcpStream, deadline: Duration) -> (Vec<u8>, Option<RefMessage>, Option<String>) {
    let start = Instant::now();
    let mut buf = Vec::new();
    let mut tmp = [0u8; 8192];
    s.set_read_timeout(Some(Duration::from_millis(50))).ok();
    loop {
        match parse_request(&buf, false) {
            Parse::Complete(m) => return (buf, Some(m), None),
            Parse::Malformed(e) => return (buf, None, Some(e)),
            Parse::Incomplete => {}
        }
        if start.elapsed() > deadline {
            return (buf, None, Some("timeout waiting for a complete request".into()));
        }
        match s.read(&mut tmp) {
            Ok(0) => {
                return match parse_request(&buf, true) {
                    Parse::Complete(m) => (buf, Some(m), None),
                    Parse::Malformed(e) => (buf, None, Some(e)),
                    Parse::Incomplete => (buf, None, Some("EOF before any request".into())),
                }
            }
            Ok(n) => buf.extend_from_slice(&tmp[..n]),
            Err(ref e) if e.kind() == std::io::ErrorKind::WouldBlock || e.kind() == std::io::ErrorKind::TimedOut => {}
            Err(e) => return (buf, None, Some(format!("read error {}", e))),
        }
    }
}

fn write_segmented(s: &mut TcpStream, bytes: &[u8], seg: &[usize], gap_us: u64) -> std::io::Result<()> {
    let mut p = 0;
    let mut i = 0;
    while p < bytes.len() {
        let n = if seg.is_empty() { bytes.len() } else { seg[i.min(seg.len() - 1)].max(1) }.min(bytes.len() - p);
        s.write_all(&bytes[p..p + n])?;
        p += n;
        i += 1;
        if gap_us > 0 && p < bytes.len() {
            std::thread::sleep(Duration::from_micros(gap_us));
        }
    }
    Ok(())
}

impl ScriptedServer {
    pub fn start(bind: &str) -> std::io::Result<ScriptedServer> {
        let l = TcpListener::bind(bind)?;
        let addr = l.local_addr()?;
        l.set_nonblocking(true)?;
        let queue: Arc<Mutex<VecDeque<Play>>> = Arc::new(Mutex::new(VecDeque::new()));
        let log: Arc<Mutex<Vec<Received>>> = Arc::new(Mutex::new(Vec::new()));
        let stop = Arc::new(AtomicBool::new(false));
        let active = Arc::new(Mutex::new(0usize));
        let (q2, l2, s2, a2) = (queue.clone(), log.clone(), stop.clone(), active.clone());
        let handle = std::thread::Builder::new().name("scripted-server".into()).spawn(move || {
            let mut conn = 0usize;
            while !s2.load(Ordering::SeqCst) {
                match l.accept() {
                    Ok((mut s, peer)) => {
                        conn += 1;
                        s.set_nonblocking(false).ok();
                        s.set_nodelay(true).ok();
                        let play = q2.lock().unwrap().pop_front().unwrap_or(Play::CloseImmediately);
                        let (l3, a3, id) = (l2.clone(), a2.clone(), conn);
                        *a3.lock().unwrap() += 1;
                        std::thread::spawn(move || {
                            let name = format!("{:?}", play).chars().take(40).collect::<String>();
                            let rec = |raw: Vec<u8>, parsed: Option<RefMessage>, malformed: Option<String>| {
                                l3.lock().unwrap().push(Received { conn: id, peer, raw, parsed, malformed, play: name.clone() });
                            };
                            match play {
                                Play::CloseImmediately => {
                                    rec(Vec::new(), None, None);
                                }
                                Play::RespondWithoutReading { bytes } => {
                                    rec(Vec::new(), None, None);
                                    s.write_all(&bytes).ok();
                                    std::thread::sleep(Duration::from_millis(20));
                                }
                                Play::Respond { bytes, seg, gap_us, linger_ms } => {
                                    let (raw, p, m) = read_request(&mut s, Duration::from_secs(5));
                                    rec(raw, p, m);
                                    write_segmented(&mut s, &bytes, &seg, gap_us).ok();
                                    if linger_ms > 0 {
                                        // keep the connection open (as a keep-alive origin does), but notice when the peer goes away
                                        let end = Instant::now() + Duration::from_millis(linger_ms);
                                        s.set_read_timeout(Some(Duration::from_millis(25))).ok();
                                        let mut t = [0u8; 64];
                                        while Instant::now() < end {
                                            if let Ok(0) = s.read(&mut t) {
                                                break;
                                            }
                                        }
                                    }
                                }
                                Play::Silence { hold_ms } => {
                                    let (raw, p, m) = read_request(&mut s, Duration::from_secs(5));
                                    rec(raw, p, m);
                                    // hold the connection open, but notice when the peer goes away
                                    let end = Instant::now() + Duration::from_millis(hold_ms);
                                    s.set_read_timeout(Some(Duration::from_millis(25))).ok();
                                    let mut t = [0u8; 64];
                                    while Instant::now() < end {
                                        if let Ok(0) = s.read(&mut t) {
                                            break;
                                        }
                                    }
                                }
                                Play::LateThenStall { first_delay_ms, bytes, hold_ms } => {
                                    let (raw, p, m) = read_request(&mut s, Duration::from_secs(5));
                                    rec(raw, p, m);
                                    std::thread::sleep(Duration::from_millis(first_delay_ms));
                                    s.write_all(&bytes).ok();
                                    let end = Instant::now() + Duration::from_millis(hold_ms);
                                    s.set_read_timeout(Some(Duration::from_millis(25))).ok();
                                    let mut t = [0u8; 64];
                                    while Instant::now() < end {
                                        if let Ok(0) = s.read(&mut t) {
                                            break;
                                        }
                                    }
                                }
                                Play::AcceptNoRead { hold_ms } => {
                                    rec(Vec::new(), None, None);
                                    std::thread::sleep(Duration::from_millis(hold_ms));
                                }
                                Play::Parts { parts } => {
                                    let (raw, p, m) = read_request(&mut s, Duration::from_secs(5));
                                    rec(raw, p, m);
                                    for (delay_ms, bytes) in parts {
                                        std::thread::sleep(Duration::from_millis(delay_ms));
                                        if s.write_all(&bytes).is_err() {
                                            break;
                                        }
                                    }
                                }
                                Play::DelayedRespond { delay_ms, bytes } => {
                                    let (raw, p, m) = read_request(&mut s, Duration::from_secs(5));
                                    rec(raw, p, m);
                                    std::thread::sleep(Duration::from_millis(delay_ms));
                                    s.write_all(&bytes).ok();
                                }
                                Play::Trickle { bytes, per_byte_ms } => {
                                    let (raw, p, m) = read_request(&mut s, Duration::from_secs(5));
                                    rec(raw, p, m);
                                    for b in bytes {
                                        if s.write_all(&[b]).is_err() {
                                            break;
                                        }
                                        std::thread::sleep(Duration::from_millis(per_byte_ms));
                                    }
                                }
                            }
                            s.shutdown(Shutdown::Both).ok();
                            *a3.lock().unwrap() -= 1;
                        });
                    }
                    Err(ref e) if e.kind() == std::io::ErrorKind::WouldBlock => std::thread::sleep(Duration::from_micros(200)),
                    Err(_) => std::thread::sleep(Duration::from_millis(1)),
                }
            }
        })?;
        Ok(ScriptedServer { addr, queue, log, stop, handle: Some(handle), active })
    }

    pub fn push(&self, p: Play) {
        self.queue.lock().unwrap().push_back(p);
    }

    pub fn take_log(&self) -> Vec<Received> {
        std::mem::take(&mut *self.log.lock().unwrap())
    }

    pub fn log_len(&self) -> usize {
        self.log.lock().unwrap().len()
    }

    pub fn pending(&self) -> usize {
        self.queue.lock().unwrap().len()
    }

    pub fn clear(&self) {
        self.queue.lock().unwrap().clear();
    }
}

impl Drop for ScriptedServer {
    fn drop(&mut self) {
        self.stop.store(true, Ordering::SeqCst);
        if let Some(h) = self.handle.take() {
            h.join().ok();
        }
    }
}

/// A port on `ip` for a server the harness is about to start, never handed out twice to live users of this
/// process and never taken from the kernel's ephemeral range (so neither another shard's `bind(0)` nor an
/// outgoing connection's source port can grab it between this call and the server's own bind). Every process
/// draws from its own slice of 10000..32000 (by pid), each candidate is probed by binding it.
pub fn free_port(ip: &str) -> u16 {
    use std::sync::atomic::{AtomicU32, Ordering as O};
    static NEXT: AtomicU32 = AtomicU32::new(0);
    const SLICE: u32 = 1000;
    const SLICES: u32 = 22;
    let base = 10_000 + (std::process::id() % SLICES) * SLICE;
    for _ in 0..(SLICE * 4) {
        let k = NEXT.fetch_add(1, O::Relaxed);
        // after one pass through the own slice, spill over the whole range (offset by the own base)
        let port = if k < SLICE { base + k } else { 10_000 + (base - 10_000 + k) % (SLICE * SLICES) } as u16;
        let target = if ip.contains(':') { format!("[{}]:{}", ip.trim_matches(|c| c == '[' || c == ']'), port) } else { format!("{}:{}", ip, port) };
        if let Ok(l) = TcpListener::bind(&target) {
            drop(l);
            return port;
        }
    }
    panic!("no free port for {} (harness error)", ip);
}

/// A loopback port that is closed right now and stays unused by this harness.
pub fn closed_port() -> SocketAddr {
    format!("127.0.0.1:{}", free_port("127.0.0.1")).parse().unwrap()
}

/// Read until EOF or deadline; returns (bytes, saw_eof).
pub fn read_to_eof(s: &mut TcpStream, deadline: Duration) -> (Vec<u8>, bool) {
    let start = Instant::now();
    let mut buf = Vec::new();
    let mut tmp = [0u8; 16384];
    s.set_read_timeout(Some(Duration::from_millis(20))).ok();
    loop {
        if start.elapsed() > deadline {
            return (buf, false);
        }
        match s.read(&mut tmp) {
            Ok(0) => return (buf, true),
            Ok(n) => buf.extend_from_slice(&tmp[..n]),
            Err(ref e) if e.kind() == std::io::ErrorKind::WouldBlock || e.kind() == std::io::ErrorKind::TimedOut => {}
            Err(e) => {
                LAST_READ_ERROR.with(|c| *c.borrow_mut() = Some(format!("{:?}", e.kind())));
                return (buf, true);
            }
        }
    }
}

thread_local! {
    /// kind of the last read error seen by `read_to_eof` on this thread (diagnostics)
    pub static LAST_READ_ERROR: std::cell::RefCell<Option<String>> = std::cell::RefCell::new(None);
}

//! C06 laboratory: static handlers never leave their directory and serve what is inside it intact.
//! Monitor: every response of `serve_dir`, `serve_as_file_path` and the server's `directory_handler`
//! on a generated tree with uniquely tagged file contents is compared with (a) the confinement rule
//! (a 200 body must be the bytes of a regular file under the root; a canary tag anywhere is an escape)
//! and (b) an independent resolver for the documented lookup rules. The handlers themselves are bound
//! by the harness binary (threaded: `hv c06`, tokio: `hvt c06`) through a `CallFn`.

use crate::args::Args;
use crate::json::J;
use crate::report::Report;
use crate::rng::Rng;
use crate::util::{fnv, hex, ncpu, par, show, unhex};
use std::collections::HashMap;
use std::path::{Path, PathBuf};

const CANARY: &str = "HV-CANARY-OUTSIDE-ROOT";

/// What the monitor needs of a response.
pub struct SimpleResp {
    pub status: u16,
    pub content_type: String,
    pub location: String,
    pub body: Vec<u8>,
}

/// (handler, uri, route, cache) -> response, or the panic message.
pub type CallFn = Box<dyn Fn(Handler, &str, &str, bool) -> Result<SimpleResp, String> + Send + Sync>;

fn mime_for(ext: Option<&str>) -> Vec<&'static str> {
    // documented mapping (docs + mime.rs doc comments); unknown -> application/octet-stream
    let known = match ext {
        Some("css") => Some("text/css"),
        Some("html") | Some("htm") => Some("text/html"),
        Some("js") | Some("mjs") => Some("text/javascript"),
        Some("txt") => Some("text/plain"),
        Some("bmp") => Some("image/bmp"),
        Some("gif") => Some("image/gif"),
        Some("jpeg") | Some("jpg") => Some("image/jpeg"),
        Some("png") => Some("image/png"),
        Some("webp") => Some("image/webp"),
        Some("svg") => Some("image/svg+xml"),
        Some("ico") => Some("image/vnd.microsoft.icon"),
        Some("json") => Some("application/json"),
        Some("pdf") => Some("application/pdf"),
        Some("zip") => Some("application/zip"),
        Some("mp4") => Some("video/mp4"),
        Some("ogv") => Some("video/ogg"),
        Some("webm") => Some("video/webm"),
        Some("ttf") => Some("font/ttf"),
        Some("otf") => Some("font/otf"),
        Some("woff") => Some("font/woff"),
        Some("woff2") => Some("font/woff2"),
        _ => None,
    };
    match (known, ext) {
        (Some(k), _) => vec![k],
        // no extension: no Content-Type at all, or the generic type
        (None, None) => vec!["", "application/octet-stream"],
        // upper-case spelling of a known extension: the table is documented in lower case; either reading is accepted
        (None, Some(e)) if e.chars().any(|c| c.is_ascii_uppercase()) => {
            let l = e.to_ascii_lowercase();
            let mut v = mime_for(Some(&l));
            v.push("application/octet-stream");
            v
        }
        (None, Some(_)) => vec!["application/octet-stream"],
    }
}

pub struct Tree {
    pub base: PathBuf,
    pub root: PathBuf,
    /// relative path (with '/') -> content, for regular files under root
    pub files: Vec<(String, Vec<u8>)>,
    pub dirs: Vec<String>,
    by_content: HashMap<Vec<u8>, String>,
    /// named pipes under root (relative paths)
    pub fifos: Vec<String>,
}

fn write_file(p: &Path, content: &[u8]) {
    std::fs::create_dir_all(p.parent().unwrap()).unwrap();
    std::fs::write(p, content).unwrap();
}

pub fn build_tree(work: &str, seed: u64, variant: u64) -> Tree {
    let base = PathBuf::from(format!("{}/c06/{}-{}-{}", work, std::process::id(), seed, variant));
    let _ = std::fs::remove_dir_all(&base);
    let root = base.join("root");
    let mut rng = Rng::derive(seed, 0x0600 + variant);
    let mut names: Vec<String> = vec![
        "a.txt".into(), "sp ace.txt".into(), "ünï.html".into(), "100%.css".into(), "noext".into(), ".hidden".into(), "multi.dot.name.js".into(), "UP.HTML".into(), "pic.png".into(), "data.json".into(), "trailingdot.".into(), "q?mark.txt".into(), "ha#sh.svg".into(), "plus+sign.pdf".into(), "a..b.txt".into(), "co:lon.txt".into(),
    ];
    // a few random extras
    for _ in 0..4 {
        let n: String = (0..rng.urange(1, 8)).map(|_| *rng.pick(&['x', 'y', 'Z', '1', '-', '_', ' ', 'é', '~', '!', '(', ')'])).collect();
        let ext = *rng.pick(&["txt", "woff2", "mjs", "jpeg", "bin", "ogv", ""]);
        let n = n.trim().to_string();
        if n.is_empty() || n.contains("..") {
            continue;
        }
        names.push(if ext.is_empty() { n } else { format!("{}.{}", n, ext) });
    }
    let dirs: Vec<(String, Option<&str>)> = vec![
        ("".into(), if variant % 3 == 0 { Some("index.html") } else if variant % 3 == 1 { Some("index.htm") } else { None }),
        ("sub".into(), Some("index.htm")),
        ("sub/deep".into(), Some("index.html")),
        ("sub/both".into(), Some("both")),
        ("dir.with.dot".into(), None),
        ("sp dir".into(), Some("index.html")),
        ("empty".into(), None),
        ("root".into(), None),
    ];
    let mut files: Vec<(String, Vec<u8>)> = Vec::new();
    let mut tag = 0u32;
    let mut mk = |rel: String, files: &mut Vec<(String, Vec<u8>)>| {
        tag += 1;
        let mut content = format!("HV-FILE-{}-{:04}-{}|", variant, tag, rel).into_bytes();
        // arbitrary bytes after the tag so that "intact" is a real check
        for i in 0..(tag as usize * 37 % 300) {
            content.push((i * 131 % 256) as u8);
        }
        write_file(&root.join(&rel), &content);
        files.push((rel, content));
    };
    let mut dnames = Vec::new();
    for (d, idx) in &dirs {
        std::fs::create_dir_all(root.join(d)).unwrap();
        dnames.push(d.clone());
        match idx {
            Some("both") => {
                mk(format!("{}/index.html", d), &mut files);
                mk(format!("{}/index.htm", d), &mut files);
            }
            Some(i) => mk(if d.is_empty() { i.to_string() } else { format!("{}/{}", d, i) }, &mut files),
            None => {}
        }
    }
    for (i, n) in names.iter().enumerate() {
        let d = &dirs[i % 5].0;
        if d == "sub/both" {
            continue;
        }
        mk(if d.is_empty() { n.clone() } else { format!("{}/{}", d, n) }, &mut files);
    }
    // large files (read loops, size classes): one byte over 2 MiB, and ~5 MiB
    let mut big: Vec<(&str, usize)> = vec![("sub/big-2m1.bin", (2usize << 20) + 1), ("big-5m.webm", (5usize << 20) + 13)];
    if variant < 4 {
        // more than any socket buffer holds (over-the-wire phase: a stalled reader makes the server's write block)
        big.push(("sub/big-12m.bin", (12usize << 20) + 5));
    }
    for (rel, len) in big {
        let mut content = format!("HV-FILE-{}-big-{}|", variant, rel).into_bytes();
        let mut x = seed ^ (len as u64) ^ (variant << 32) | 1;
        while content.len() < len {
            x ^= x << 13;
            x ^= x >> 7;
            x ^= x << 17;
            content.extend_from_slice(&x.to_le_bytes());
        }
        content.truncate(len);
        write_file(&root.join(rel), &content);
        files.push((rel.to_string(), content));
    }
    // canaries: beside the root, above it, in a sibling whose name extends the root's name
    write_file(&base.join("canary.txt"), format!("{}-1", CANARY).as_bytes());
    write_file(&base.join("secret/canary.txt"), format!("{}-2", CANARY).as_bytes());
    write_file(&base.join("root-evil/canary.txt"), format!("{}-3", CANARY).as_bytes());
    write_file(&base.join("rootcanary.txt"), format!("{}-4", CANARY).as_bytes());
    // a second virtual host's directory with the SAME relative paths but foreign (canary-tagged) contents: whatever a
    // `directory` route of this root answers, it must never be one of these (cache keyed by path alone, host mix-up)
    for (rel, _) in &files {
        write_file(&base.join("otherhost").join(rel), format!("{}-5 other host's {}", CANARY, rel).as_bytes());
    }
    // named pipes inside the root: they are located inside the directory but are not regular files
    let mut fifos = Vec::new();
    for rel in ["pipe.fifo", "sub/queue.txt"] {
        extern "C" {
            fn mkfifo(path: *const std::os::raw::c_char, mode: u32) -> i32;
        }
        let c = std::ffi::CString::new(root.join(rel).to_str().unwrap()).unwrap();
        if unsafe { mkfifo(c.as_ptr(), 0o644) } == 0 {
            fifos.push(rel.to_string());
        }
    }
    let by_content = files.iter().map(|(p, c)| (c.clone(), p.clone())).collect();
    Tree { base, root, files, dirs: dnames, by_content, fifos }
}

fn pct_encode_path(rel: &str, all: bool) -> String {
    let mut s = String::new();
    for b in rel.bytes() {
        let unreserved = b.is_ascii_alphanumeric() || matches!(b, b'-' | b'_' | b'.' | b'~');
        if b == b'/' || (unreserved && !all) {
            s.push(b as char);
        } else if unreserved && all && b != b'.' {
            s.push_str(&format!("%{:02x}", b));
        } else if unreserved {
            s.push(b as char);
        } else {
            s.push_str(&format!("%{:02X}", b));
        }
    }
    s
}

fn ref_pct_decode(s: &str) -> Option<Vec<u8>> {
    let b = s.as_bytes();
    let mut out = Vec::new();
    let mut i = 0;
    while i < b.len() {
        if b[i] == b'%' {
            if i + 3 > b.len() {
                return None;
            }
            let h = (b[i + 1] as char).to_digit(16)?;
            let l = (b[i + 2] as char).to_digit(16)?;
            out.push((h * 16 + l) as u8);
            i += 3;
        } else {
            out.push(b[i]);
            i += 1;
        }
    }
    Some(out)
}

#[derive(Clone, Copy, PartialEq, Debug)]
pub enum Handler {
    ServeDir,
    ServeAsFilePath,
    Directory,
}

#[derive(Debug, PartialEq)]
enum Expect {
    /// 200 with exactly this file (relative path)
    File(String),
    /// 301 to uri + "/"
    Redirect,
    /// anything but a 200 (normally 404)
    NotServed,
    /// contains `..`/`:`: either not served, or a file inside the root (never outside)
    InsideOrNothing,
}

/// Independent statement of the documented lookup rules, with the file system as the judge.
fn expect_for(t: &Tree, h: Handler, rest: &str) -> Expect {
    // plain string concatenation (PathBuf::join would let an absolute `rel` replace the root)
    let full = |rel: &str| PathBuf::from(format!("{}/{}", t.root.to_str().unwrap(), rel));
    let is_file = |rel: &str| full(rel).symlink_metadata().map(|m| m.is_file()).unwrap_or(false);
    let is_dir = |rel: &str| full(rel).symlink_metadata().map(|m| m.is_dir()).unwrap_or(false);
    match h {
        Handler::ServeAsFilePath => {
            let rel = rest.strip_prefix('/').unwrap_or(rest);
            if rel.contains("..") || rel.contains('\0') {
                return Expect::InsideOrNothing;
            }
            if !rel.is_empty() && is_file(rel) {
                // normalise repeated slashes etc. through the file system: compare by content later
                Expect::File(rel.to_string())
            } else {
                Expect::NotServed
            }
        }
        Handler::ServeDir | Handler::Directory => {
            let dec = match ref_pct_decode(rest).and_then(|b| String::from_utf8(b).ok()) {
                Some(d) => d,
                None => return Expect::NotServed,
            };
            if dec.contains("..") || dec.contains(':') {
                return Expect::NotServed;
            }
            if dec.contains('\0') {
                return Expect::NotServed;
            }
            let rel = dec.trim_start_matches('/');
            if rel.is_empty() || rel.ends_with('/') {
                for idx in ["index.html", "index.htm"] {
                    let p = format!("{}{}", rel, idx);
                    if is_file(&p) {
                        return Expect::File(p);
                    }
                }
                Expect::NotServed
            } else if is_file(rel) {
                Expect::File(rel.to_string())
            } else if is_dir(rel) {
                Expect::Redirect
            } else {
                Expect::NotServed
            }
        }
    }
}

/// What the pipe feeder writes into a named pipe as soon as somebody opens it for reading.
pub const PIPE_DATA: &[u8] = b"HV-PIPE-DATA: this came out of a named pipe, not out of a regular file";

pub struct Lab {
    feeder_stop: std::sync::Arc<std::sync::atomic::AtomicBool>,
    feeder: Option<std::thread::JoinHandle<u64>>,
    pub tree: Tree,
    call: CallFn,
    /// signature prefix: "" for the threaded runtime, "tokio:" for the tokio one
    pub sig: &'static str,
    pub root_used: &'static str,
}

impl Lab {
    /// `bind` receives the directory string the handlers are to be configured with (with or without trailing slash).
    pub fn new(work: &str, seed: u64, variant: u64, bind: fn(&'static str) -> CallFn, sig: &'static str) -> Lab {
        let tree = build_tree(work, seed, variant);
        let root_plain: &'static str = Box::leak(tree.root.to_str().unwrap().to_string().into_boxed_str());
        let root_slash: &'static str = Box::leak(format!("{}/", root_plain).into_boxed_str());
        let root_used = if variant % 2 == 0 { root_plain } else { root_slash };
        // pipe feeder: a handler that opens a named pipe for reading would block until a writer appears; this thread
        // is that writer (non-blocking open succeeds only while a reader has the pipe open), so that a handler which
        // serves a pipe returns PIPE_DATA instead of wedging the run. It counts how often a reader appeared.
        let feeder_stop = std::sync::Arc::new(std::sync::atomic::AtomicBool::new(false));
        let (stop2, paths) = (feeder_stop.clone(), tree.fifos.iter().map(|f| tree.root.join(f)).collect::<Vec<_>>());
        let feeder = std::thread::spawn(move || {
            use std::io::Write;
            use std::os::unix::fs::OpenOptionsExt;
            let mut fed = 0u64;
            while !stop2.load(std::sync::atomic::Ordering::SeqCst) {
                for p in &paths {
                    if let Ok(mut f) = std::fs::OpenOptions::new().write(true).custom_flags(0o4000 /* O_NONBLOCK */).open(p) {
                        let _ = f.write_all(PIPE_DATA);
                        fed += 1;
                    }
                }
                std::thread::sleep(std::time::Duration::from_millis(2));
            }
            fed
        });
        Lab { feeder_stop, feeder: Some(feeder), tree, call: bind(root_used), sig, root_used }
    }

    /// how many times a reader opened one of the named pipes of the tree
    pub fn pipes_opened(&mut self) -> u64 {
        self.feeder_stop.store(true, std::sync::atomic::Ordering::SeqCst);
        self.feeder.take().and_then(|h| h.join().ok()).unwrap_or(0)
    }
}

impl Drop for Lab {
    fn drop(&mut self) {
        self.feeder_stop.store(true, std::sync::atomic::Ordering::SeqCst);
        if let Some(h) = self.feeder.take() {
            let _ = h.join();
        }
        let _ = std::fs::remove_dir_all(&self.tree.base);
    }
}

fn route_prefix(route: &str) -> &str {
    match route.find('*') {
        Some(i) => &route[..i],
        None => route,
    }
}

/// One handler call under the monitors. `rest` is the part of the URI after the route prefix.
pub fn check(r: &mut Report, lab: &Lab, h: Handler, route: &str, rest: &str, cache: bool, origin: &str) {
    let t = &lab.tree;
    let uri = format!("{}{}", route_prefix(route), rest);
    r.eval();
    r.count(match h { Handler::ServeDir => "calls_serve_dir", Handler::ServeAsFilePath => "calls_serve_as_file_path", Handler::Directory => "calls_directory_handler" }, 1);
    // serve_as_file_path is not route-aware: it sees the whole URI
    let seen_rest: &str = if h == Handler::ServeAsFilePath { &uri } else { rest };
    let want = expect_for(t, h, seen_rest);
    let res = (lab.call)(h, &uri, route, cache);
    let replay = vec!["c06".into(), "--handler".into(), format!("{:?}", h), "--route".into(), route.into(), "--rest-hex".into(), hex(rest.as_bytes()), "--cache".into(), (cache as u8).to_string(), "--variant".into(), (t.base.to_str().unwrap().rsplit('-').next().unwrap()).to_string()];
    let ex = |why: &str, resp: Option<&SimpleResp>| {
        J::obj(vec![("handler", J::s(format!("{:?}", h))), ("route", J::s(route)), ("uri", J::s(&uri)), ("cache", J::Bool(cache)), ("expected", J::s(format!("{:?}", want))), ("status", resp.map(|p| J::u(p.status as u64)).unwrap_or(J::Null)), ("body_head", resp.map(|p| J::s(show(&p.body, 60))).unwrap_or(J::Null)), ("origin", J::s(origin)), ("why", J::s(why))])
    };
    let resp = match res {
        Ok(p) => p,
        Err(p) => {
            r.violation(&format!("C06/{}{:?}:panic", lab.sig, h), format!("handler panicked on {:?}: {}", uri, p), ex("panic", None), replay);
            return;
        }
    };
    let status = resp.status;
    // confinement: canary tag anywhere, or a 200 body that is not a file under the root
    let body_has_canary = resp.body.windows(CANARY.len()).any(|w| w == CANARY.as_bytes());
    if body_has_canary {
        r.violation(&format!("C06/{}{:?}:escape", lab.sig, h), format!("request {:?} returned the contents of a file OUTSIDE the directory", uri), ex("canary content in body", Some(&resp)), replay);
        return;
    }
    if status == 200 {
        r.count("responses_200", 1);
        match t.by_content.get(&resp.body) {
            None => {
                r.violation(&format!("C06/{}{:?}:foreign-bytes", lab.sig, h), format!("200 body for {:?} is not the content of any file under the directory", uri), ex("foreign bytes", Some(&resp)), replay);
                return;
            }
            Some(rel) => {
                let ct = resp.content_type.clone();
                let ext = Path::new(rel).extension().and_then(|e| e.to_str());
                let ext = if rel.rsplit('/').next().unwrap().ends_with('.') { Some("") } else { ext };
                let ok_ct = mime_for(match ext { Some("") => None, e => e });
                let ok_ct2: Vec<&str> = if ext == Some("") { vec!["", "application/octet-stream"] } else { ok_ct };
                if !ok_ct2.contains(&ct.as_str()) {
                    r.violation(&format!("C06/{}{:?}:content-type", lab.sig, h), format!("file {:?} served with Content-Type {:?}, expected one of {:?}", rel, ct, ok_ct2), ex("content type", Some(&resp)), replay.clone());
                }
                match &want {
                    Expect::File(w) => {
                        // same file (compare canonical paths: `w` may contain `//` or `./`)
                        let a = PathBuf::from(format!("{}/{}", t.root.to_str().unwrap(), w)).canonicalize().ok();
                        let b = t.root.join(rel).canonicalize().ok();
                        if a != b {
                            r.violation(&format!("C06/{}{:?}:wrong-file", lab.sig, h), format!("request {:?} returned file {:?} instead of {:?}", uri, rel, w), ex("wrong file", Some(&resp)), replay);
                        } else {
                            r.count("files_served_intact", 1);
                        }
                    }
                    Expect::InsideOrNothing => r.count("dotdot_resolved_inside_root", 1),
                    other => {
                        r.violation(&format!("C06/{}{:?}:served-unexpectedly", lab.sig, h), format!("request {:?} returned file {:?} but the rules say {:?}", uri, rel, other), ex("served unexpectedly", Some(&resp)), replay);
                    }
                }
            }
        }
        return;
    }
    match &want {
        Expect::File(w) => {
            r.violation(&format!("C06/{}{:?}:not-served", lab.sig, h), format!("file {:?} inside the directory requested as {:?} was answered {}", w, uri, status), ex("availability", Some(&resp)), replay);
        }
        Expect::Redirect => {
            let loc = resp.location.as_str();
            if status != 301 || loc != format!("{}/", uri) {
                r.violation(&format!("C06/{}{:?}:directory-redirect", lab.sig, h), format!("directory {:?} without trailing slash answered {} Location {:?}", uri, status, loc), ex("redirect", Some(&resp)), replay);
            } else {
                r.count("redirects_301", 1);
            }
        }
        Expect::NotServed | Expect::InsideOrNothing => {
            if status == 301 && h != Handler::ServeAsFilePath {
                // a 301 is only legitimate for an existing directory
                r.violation(&format!("C06/{}{:?}:spurious-redirect", lab.sig, h), format!("{:?} answered 301 but is not a directory inside the root", uri), ex("spurious redirect", Some(&resp)), replay);
            } else {
                r.count("not_served", 1);
            }
        }
    }
}

const SEGS: [&str; 26] = ["sub", "a.txt", "nope", "index.html", ".", "..", "...", "", "%2e%2e", "%2E.", ".%2e", "%2f", "%5c", "%00", "%252e%252e", "%c0%ae%c0%ae", "sp%20ace.txt", "sp ace.txt", "canary.txt", "..%2f", "%2e%2e%2f..", "..\\", "root", "root-evil", "deep", "%2e"];

/// The whole workload. `handlers` = those this runtime provides; `bind` binds them to a directory string.
/// `over_the_wire`: optional extra phase run by shards 0..3 on their tree: (report, tree, directory string as bound).
pub type WireFn = fn(&mut Report, &Tree, &'static str, u64);

pub fn run(args: &Args, handlers: &'static [Handler], bind: fn(&'static str) -> CallFn, sig: &'static str, runtime: &'static str, over_the_wire: Option<WireFn>) {
    let out = args.get("out").expect("--out");
    let seed = args.seed();
    let work = args.get("work").unwrap_or("/verif/.work").to_string();
    if let Some(hs) = args.get("handler") {
        let h = match hs { "ServeDir" => Handler::ServeDir, "ServeAsFilePath" => Handler::ServeAsFilePath, _ => Handler::Directory };
        let lab = Lab::new(&work, seed, args.u64("variant", 0), bind, sig);
        let rest = String::from_utf8(unhex(args.get("rest-hex").unwrap()).unwrap()).unwrap();
        let mut r = Report::new();
        check(&mut r, &lab, h, args.get("route").unwrap(), &rest, args.get("cache") == Some("1"), "replay");
        r.nontrivial(1);
        r.nontrivial(2);
        r.write(out, "replay of one handler call", None, &[]);
        return;
    }
    let thorough = args.thorough();
    let depth = if thorough { 4 } else { 3 };
    let reports = par(ncpu(), move |shard, nsh| {
        let mut r = Report::new();
        let mut lab = Lab::new(&work, seed, shard as u64, bind, sig);
        let mut rng = Rng::derive(seed, 0x0660 + shard as u64);
        let routes = ["/*", "/static/*", "/static*", "/files/x*"];
        // (1) availability: every file and directory under the root, raw-safe and fully encoded spellings
        for (rel, _) in lab.tree.files.clone() {
            for &h in handlers {
                for route in routes {
                    if h == Handler::ServeAsFilePath && route != "/*" {
                        continue;
                    }
                    let mut spellings: Vec<String> = if h == Handler::ServeAsFilePath { vec![rel.clone()] } else { vec![pct_encode_path(&rel, false), pct_encode_path(&rel, true)] };
                    // raw spelling (non-ASCII octets sent as they are) where decoding cannot change the meaning
                    if h != Handler::ServeAsFilePath && !rel.is_ascii() && !rel.contains(['%', '?', '#', '+']) {
                        spellings.push(rel.clone());
                    }
                    for s in spellings {
                        let lead = if route_prefix(route).ends_with('/') { "" } else { "/" };
                        for cache in [false, true] {
                            if cache && h != Handler::Directory {
                                continue;
                            }
                            check(&mut r, &lab, h, route, &format!("{}{}", lead, s), cache, "availability");
                            r.count("availability_requests", 1);
                        }
                    }
                }
            }
            r.nontrivial(fnv(rel.as_bytes()) ^ shard as u64);
        }
        // named pipes inside the root: not regular files, so never served (and never opened: see the feeder)
        for rel in lab.tree.fifos.clone() {
            for &h in handlers {
                for route in ["/*", "/static/*"] {
                    if h == Handler::ServeAsFilePath && route != "/*" {
                        continue;
                    }
                    let lead = if route_prefix(route).ends_with('/') { "" } else { "/" };
                    for cache in [false, true] {
                        if cache && h != Handler::Directory {
                            continue;
                        }
                        check(&mut r, &lab, h, route, &format!("{}{}", lead, rel), cache, "named-pipe");
                        r.count("named_pipe_requests", 1);
                    }
                }
            }
        }
        for d in lab.tree.dirs.clone() {
            for &h in handlers.iter().filter(|h| **h != Handler::ServeAsFilePath) {
                for route in ["/*", "/static/*"] {
                    let e = pct_encode_path(&d, false);
                    if !d.is_empty() {
                        check(&mut r, &lab, h, route, &e, false, "directory-no-slash");
                    }
                    check(&mut r, &lab, h, route, &format!("{}/", e), false, "directory-slash");
                    r.count("directory_requests", 2);
                }
            }
        }
        // (2) all compositions of the segment alphabet to the given depth, each shard a slice.
        // Two segments are absolute file-system paths (without their leading slash): that of a canary file and of a
        // world-readable system file; after an empty segment they spell `//<absolute path>`.
        let abs_canary = lab.tree.base.join("canary.txt").to_str().unwrap().trim_start_matches('/').to_string();
        let mut alphabet: Vec<&str> = SEGS.to_vec();
        alphabet.push(&abs_canary);
        alphabet.push("etc/hostname");
        let n = alphabet.len();
        let total: usize = (1..=depth).map(|d| n.pow(d as u32)).sum();
        let mut idx = 0usize;
        for d in 1..=depth {
            for code in 0..n.pow(d as u32) {
                idx += 1;
                if idx % nsh != shard {
                    continue;
                }
                let mut x = code;
                let mut segs = Vec::new();
                for _ in 0..d {
                    segs.push(alphabet[x % n]);
                    x /= n;
                }
                let path = segs.join("/");
                r.nontrivial(fnv(path.as_bytes()));
                for &h in handlers {
                    let route = routes[(code + d) % routes.len()];
                    let route = if h == Handler::ServeAsFilePath { "/*" } else { route };
                    let lead = if route_prefix(route).ends_with('/') { "" } else { "/" };
                    let cache = h == Handler::Directory && code % 2 == 1;
                    check(&mut r, &lab, h, route, &format!("{}{}", lead, path), cache, "composition");
                    if code % 3 == 0 {
                        check(&mut r, &lab, h, route, &format!("{}{}/", lead, path), cache, "composition/");
                    }
                }
            }
        }
        if let (Some(f), true) = (over_the_wire, shard < 4) {
            f(&mut r, &lab.tree, lab.root_used, seed ^ shard as u64);
        }
        if shard == 0 {
            r.count("composition_space", total as u64);
            r.sample(J::obj(vec![("kind", J::s("composition")), ("uri", J::s("/static/%2e%2e/..%2f/canary.txt")), ("handlers", J::s("serve_dir, directory_handler, serve_as_file_path"))]));
            r.sample(J::obj(vec![("kind", J::s("tree")), ("files", J::arr_s(&lab.tree.files.iter().map(|f| f.0.clone()).take(12).collect::<Vec<_>>())), ("canaries", J::s("../canary.txt ../secret/canary.txt ../root-evil/canary.txt ../rootcanary.txt"))]));
        }
        // (3) depth-5 sample and random long compositions
        for _ in 0..(if thorough { 400_000 } else { 20_000 }) / nsh {
            let d = rng.urange(4, 6);
            let path: Vec<&str> = (0..d).map(|_| *rng.pick(&alphabet[..])).collect();
            let path = path.join("/");
            let h = *rng.pick(handlers);
            let route = if h == Handler::ServeAsFilePath { "/*" } else { *rng.pick(&routes) };
            let lead = if route_prefix(route).ends_with('/') { "" } else { "/" };
            check(&mut r, &lab, h, route, &format!("{}{}", lead, path), rng.chance(1, 2), "random-depth-4..6");
            r.count("random_deep_requests", 1);
        }
        r.count("named_pipes_in_trees", lab.tree.fifos.len() as u64);
        r.count("named_pipes_opened_by_a_handler", lab.pipes_opened());
        r
    });
    let total = Report::merge_all(reports);
    let rule = format!("[{} runtime, handlers {:?}] per shard a generated tree (nested dirs, index.html / index.htm / both / none, names with blanks, unicode, %, ?, #, +, multi-dot, leading dot, trailing dot, upper-case extension, `..` and `:` inside names) with uniquely tagged contents and four canary files outside the root; (1) every file requested by its path (raw-safe and fully percent-encoded spelling) through serve_dir, directory_handler (cache off/on) under 4 route prefixes and literally through serve_as_file_path, every directory with and without slash; (2) all compositions of {} path segments ({:?} ... plus two absolute file-system paths: a canary's and /etc/hostname's) to depth {} (each also with a trailing slash one time in three) through all three handlers; (3) random compositions of depth 4..6. distinct = distinct paths; non-trivial = every composed path (each contains at least one traversal, encoding or lookup decision)", runtime, handlers, SEGS.len() + 2, &SEGS[4..12], depth);
    total.write(out, &rule, Some(true), &["symbolic links are not generated (an administrator-placed link is outside the property)", "for upper-case spellings of known extensions and for extension-less files either the typed or the generic Content-Type is accepted", "exhaustive refers to the segment compositions up to the stated depth"]);
}

//! Counting global allocator (a monitor, not a sanitizer): sees the *requested* size of every
//! allocation, so a `vec![0; claimed_len]` is observed even though the kernel would map it lazily.
//! A single request above the hard cap is reported with write(2) and refused (the process then
//! aborts in `handle_alloc_error`; the parent attributes the death to the open case).

use std::alloc::{GlobalAlloc, Layout, System};
use std::sync::atomic::{AtomicBool, AtomicUsize, Ordering::Relaxed};

pub struct Counting;

static LIVE: AtomicUsize = AtomicUsize::new(0);
static PEAK: AtomicUsize = AtomicUsize::new(0);
static LARGEST: AtomicUsize = AtomicUsize::new(0);
static ARMED: AtomicBool = AtomicBool::new(false);
static HARD_CAP: AtomicUsize = AtomicUsize::new(usize::MAX);

fn report_overclaim(size: usize) {
    // no allocation here: format the number by hand into a stack buffer
    let mut buf = [0u8; 48];
    let pre = b"HV-OVERCLAIM size=";
    buf[..pre.len()].copy_from_slice(pre);
    let mut digits = [0u8; 20];
    let mut n = size;
    let mut k = 0;
    loop {
        digits[k] = b'0' + (n % 10) as u8;
        n /= 10;
        k += 1;
        if n == 0 {
            break;
        }
    }
    let mut p = pre.len();
    while k > 0 {
        k -= 1;
        buf[p] = digits[k];
        p += 1;
    }
    buf[p] = b'\n';
    p += 1;
    extern "C" {
        fn write(fd: i32, buf: *const u8, n: usize) -> isize;
    }
    unsafe {
        write(2, buf.as_ptr(), p);
    }
}

#[inline]
fn on_alloc(size: usize) {
    let live = LIVE.fetch_add(size, Relaxed) + size;
    if ARMED.load(Relaxed) {
        PEAK.fetch_max(live, Relaxed);
        LARGEST.fetch_max(size, Relaxed);
    }
}

unsafe impl GlobalAlloc for Counting {
    unsafe fn alloc(&self, l: Layout) -> *mut u8 {
        if l.size() > HARD_CAP.load(Relaxed) {
            report_overclaim(l.size());
            return std::ptr::null_mut();
        }
        let p = System.alloc(l);
        if !p.is_null() {
            on_alloc(l.size());
        }
        p
    }
    unsafe fn alloc_zeroed(&self, l: Layout) -> *mut u8 {
        if l.size() > HARD_CAP.load(Relaxed) {
            report_overclaim(l.size());
            return std::ptr::null_mut();
        }
        let p = System.alloc_zeroed(l);
        if !p.is_null() {
            on_alloc(l.size());
        }
        p
    }
    unsafe fn dealloc(&self, p: *mut u8, l: Layout) {
        System.dealloc(p, l);
        LIVE.fetch_sub(l.size(), Relaxed);
    }
    unsafe fn realloc(&self, p: *mut u8, l: Layout, new: usize) -> *mut u8 {
        if new > HARD_CAP.load(Relaxed) {
            report_overclaim(new);
            return std::ptr::null_mut();
        }
        let q = System.realloc(p, l, new);
        if !q.is_null() {
            LIVE.fetch_sub(l.size(), Relaxed);
            on_alloc(new);
        }
        q
    }
}

/// Refuse (and report) any single request above `bytes`.
pub fn set_hard_cap(bytes: usize) {
    HARD_CAP.store(bytes, Relaxed);
}

pub struct Armed {
    base: usize,
}

/// Start observing: peak live bytes above the current level, largest single request.
pub fn arm() -> Armed {
    let base = LIVE.load(Relaxed);
    PEAK.store(base, Relaxed);
    LARGEST.store(0, Relaxed);
    ARMED.store(true, Relaxed);
    Armed { base }
}

impl Armed {
    /// (peak live bytes above the level at arm(), largest single request)
    pub fn disarm(self) -> (usize, usize) {
        ARMED.store(false, Relaxed);
        (PEAK.load(Relaxed).saturating_sub(self.base), LARGEST.load(Relaxed))
    }
}

pub fn live() -> usize {
    LIVE.load(Relaxed)
}

//! `hvt`: tokio twins of the harnesses (humphrey built with feature `tokio`).

mod areader;
mod c01;
mod c02;
mod c04;
mod c20;

use hvcommon::args::Args;

fn main() {
    let args = Args::from_env();
    match args.cmd() {
        "c01" => c01::main(&args),
        "c02" => c02::main(&args),
        "c04" => c04::main(&args),
        "c20" => c20::main(&args),
        other => {
            eprintln!("unknown sub-command {:?}", other);
            std::process::exit(2);
        }
    }
}

//! `hvt`: tokio twins of the harnesses (humphrey built with feature `tokio`).

mod areader;
mod c01;
mod c02;
mod c03;
mod c04;
mod c06;
mod c20;

use hvcommon::args::Args;

#[global_allocator]
static GLOBAL: hvcommon::alloc::Counting = hvcommon::alloc::Counting;

fn main() {
    let args = Args::from_env();
    match args.cmd() {
        "c01" => c01::main(&args),
        "c02" => c02::main(&args),
        "c03" => c03::main(&args),
        "c03-worker" => c03::worker(&args),
        "c03-one" => c03::one(&args),
        "c04" => c04::main(&args),
        "c06" => c06::main(&args),
        "c20" => c20::main(&args),
        other => {
            eprintln!("unknown sub-command {:?}", other);
            std::process::exit(2);
        }
    }
}

//! C04 (tokio runtime): routing order.

use humphrey::http::{Request, Response, StatusCode};
use hvcommon::routelab::glob_ref;
use humphrey::stream::Stream;
use humphrey::{App, SubApp};
use hvcommon::args::Args;
use hvcommon::report::Report;
use hvcommon::rng::Rng;
use hvcommon::routelab::{self, handler_name, AppModel, SubModel};
use hvcommon::util::{ncpu, par};
use std::net::{SocketAddr, TcpListener, TcpStream};
use std::sync::Arc;
use std::time::Duration;
use tokio::io::AsyncWriteExt;
use tokio_util::sync::CancellationToken;

fn build_sub(m: &SubModel, idx: Option<usize>) -> SubApp<()> {
    let mut s: SubApp<()> = SubApp::new();
    for (j, p) in m.routes.iter().enumerate() {
        let name = handler_name(idx, j, false);
        s = s.with_route(p, move |_: Request, _: Arc<()>| {
            let name = name.clone();
            async move { Response::new(StatusCode::OK, name) }
        });
    }
    for (j, p) in m.ws_routes.iter().enumerate() {
        let name = handler_name(idx, j, true);
        s = s.with_websocket_route(p, move |_: Request, mut stream: Stream, _: Arc<()>| {
            let name = name.clone();
            async move {
                stream.write_all(format!("{}\n", name).as_bytes()).await.ok();
                stream.shutdown().await.ok();
            }
        });
    }
    for c in routelab::cors_plan(m) {
        s = match c {
            Some(p) => s.with_cors_config(&p, humphrey::http::cors::Cors::wildcard()),
            None => s.with_cors(humphrey::http::cors::Cors::wildcard()),
        };
    }
    s
}

pub fn main(args: &Args) {
    let out = args.get("out").expect("--out");
    let seed = args.seed();
    let only = args.get("app").map(|s| s.parse::<u64>().unwrap());
    let (napps, nreq): (u64, usize) = if args.thorough() { (1000, 120) } else { (160, 60) };
    let reports = par(if only.is_some() { 1 } else { ncpu().min(8) }, move |shard, nsh| {
        let mut r = Report::new();
        let rt = tokio::runtime::Builder::new_multi_thread().worker_threads(2).enable_all().build().unwrap();
        let mut k = only.unwrap_or(shard as u64);
        while k < napps || only == Some(k) {
            let mut rng = Rng::derive(seed, 0x0410_0000 + k);
            let m: AppModel = routelab::gen_app(&mut rng);
            let port = hvcommon::net::free_port("127.0.0.1");
            let addr: SocketAddr = format!("127.0.0.1:{}", port).parse().unwrap();
            let cancel = CancellationToken::new();
            let mut app: App<()> = App::new_with_config(()).with_shutdown(cancel.clone());
            // the tokio App has no with_default_subapp: register the default routes one by one
            for (j, p) in m.default.routes.iter().enumerate() {
                let name = handler_name(None, j, false);
                app = app.with_route(p, move |_: Request, _: Arc<()>| {
                    let name = name.clone();
                    async move { Response::new(StatusCode::OK, name) }
                });
            }
            for (j, p) in m.default.ws_routes.iter().enumerate() {
                let name = handler_name(None, j, true);
                app = app.with_websocket_route(p, move |_: Request, mut stream: Stream, _: Arc<()>| {
                    let name = name.clone();
                    async move {
                        stream.write_all(format!("{}\n", name).as_bytes()).await.ok();
                        stream.shutdown().await.ok();
                    }
                });
            }
            for c in routelab::cors_plan(&m.default) {
                app = match c {
                    Some(p) => app.with_cors_config(&p, humphrey::http::cors::Cors::wildcard()),
                    None => app.with_cors(humphrey::http::cors::Cors::wildcard()),
                };
            }
            for (i, h) in m.hosts.iter().enumerate() {
                app = app.with_host(h.host.as_ref().unwrap(), build_sub(h, Some(i)));
            }
            rt.spawn(async move {
                let _ = app.run(addr).await;
            });
            let mut up = false;
            for _ in 0..400 {
                if TcpStream::connect(addr).is_ok() {
                    up = true;
                    break;
                }
                std::thread::sleep(Duration::from_millis(3));
            }
            if !up {
                r.inconclusive("tokio lab app did not start");
            } else {
                r.count("apps", 1);
                if k < 1 {
                    r.sample(routelab::app_json(&m));
                }
                routelab::run_app_cases(&mut r, addr, &m, &mut rng, nreq, glob_ref, "tokio", &["c04".to_string(), "--seed".into(), seed.to_string(), "--app".into(), k.to_string()]);
                routelab::run_keepalive_cases(&mut r, addr, &m, &mut rng, nreq / 4 + 1, glob_ref, "tokio", &["c04".to_string(), "--seed".into(), seed.to_string(), "--app".into(), k.to_string()]);
            }
            cancel.cancel();
            if only.is_some() {
                break;
            }
            k += nsh as u64;
        }
        r
    });
    let mut total = Report::merge_all(reports);
    if only.is_some() {
        total.nontrivial(1);
        total.nontrivial(2);
    }
    total.write(out, "tokio runtime: the same generated applications and requests as hv c04", None, &[]);
}

//! C02 (tokio parser): same generator, model and oracle as `hv c02`, over an AsyncRead scripted reader
//! that also returns Pending between reads.

use crate::areader::AsyncScripted;
use humphrey::http::Request;
use hvcommon::args::Args;
use hvcommon::json::J;
use hvcommon::reader::{plan_from_string, plan_to_string, plans_for, Plan};
use hvcommon::report::Report;
use hvcommon::reqgen::{gen_request, GenOpts, Obs, ReqModel};
use hvcommon::rng::Rng;
use hvcommon::util::{fnv, hex, ncpu, panic_msg, par, show};
use std::net::SocketAddr;
use std::panic::{catch_unwind, AssertUnwindSafe};

pub fn observe(req: &Request, names: &[String]) -> Obs {
    Obs {
        method: req.method.to_string(),
        uri: req.uri.clone(),
        query: req.query.clone(),
        version: req.version.clone(),
        nheaders: req.headers.len(),
        per_name: names.iter().map(|n| (n.clone(), req.headers.get_all(n.as_str()).into_iter().map(|s| s.to_string()).collect())).collect(),
        cookies: req.get_cookies().into_iter().map(|c| (c.name, c.value)).collect(),
        origin: req.address.origin_addr.to_string(),
        proxies: req.address.proxies.iter().map(|p| p.to_string()).collect(),
        port: req.address.port,
        content: req.content.clone(),
    }
}

fn peer_for(rng: &mut Rng) -> SocketAddr {
    let port = rng.range(1024, 65535) as u16;
    if rng.chance(3, 4) {
        format!("10.{}.{}.{}:{}", rng.below(256), rng.below(256), rng.range(1, 254), port).parse().unwrap()
    } else {
        format!("[2001:db8::{:x}]:{}", rng.range(1, 65535), port).parse().unwrap()
    }
}

fn parse_with(rt: &tokio::runtime::Runtime, bytes: &[u8], plan: &Plan, pend: usize, peer: SocketAddr) -> std::thread::Result<Result<Request, humphrey::http::request::RequestError>> {
    catch_unwind(AssertUnwindSafe(|| {
        rt.block_on(async {
            let mut rd = AsyncScripted::new(bytes, plan.clone(), pend);
            Request::from_stream(&mut rd, peer).await
        })
    }))
}

fn run_case(rt: &tokio::runtime::Runtime, r: &mut Report, m: &ReqModel, peer: SocketAddr, plans: &[(Plan, usize)], seed: u64, case: u64) {
    let bytes = m.render();
    let names = m.names();
    let mut first: Option<Request> = None;
    for (plan, pend) in plans {
        r.eval();
        r.count("parses", 1);
        if *pend > 0 {
            r.count("parses_with_pending", 1);
        }
        let replay = vec!["c02".into(), "--seed".into(), seed.to_string(), "--case".into(), case.to_string(), "--plan".into(), plan_to_string(plan), "--pend".into(), pend.to_string()];
        let ex = |why: &str| J::obj(vec![("request", m.to_json()), ("bytes", J::s(show(&bytes, 300))), ("bytes_hex", J::s(hex(&bytes[..bytes.len().min(3000)]))), ("read_plan", J::s(plan_to_string(plan))), ("pending_every", J::u(*pend as u64)), ("peer", J::s(peer.to_string())), ("why", J::s(why))]);
        match parse_with(rt, &bytes, plan, *pend, peer) {
            Err(p) => {
                let msg = panic_msg(&*p);
                r.violation("C02/tokio:panic", format!("tokio Request::from_stream panicked on a well-formed request: {}", msg), ex(&msg), replay);
            }
            Ok(Err(e)) => r.violation(&format!("C02/tokio:rejects-well-formed:{:?}", e), format!("well-formed request rejected with {:?} under read plan {}", e, plan_to_string(plan)), ex("rejected"), replay),
            Ok(Ok(req)) => {
                let o = observe(&req, &names);
                for (sig, what) in m.compare(&o, &peer.ip().to_string(), peer.port(), "tokio-parse") {
                    r.violation(&sig, what.clone(), ex(&what), replay.clone());
                }
                if first.is_none() {
                    first = Some(req);
                }
            }
        }
    }
    if let Some(req) = first {
        r.eval();
        r.count("roundtrips", 1);
        let replay = vec!["c02".into(), "--seed".into(), seed.to_string(), "--case".into(), case.to_string(), "--plan".into(), "fill".into()];
        let ser: Vec<u8> = Vec::<u8>::from(req.clone());
        let ex = |why: &str| J::obj(vec![("request", m.to_json()), ("serialised", J::s(show(&ser, 400))), ("why", J::s(why))]);
        match parse_with(rt, &ser, &Plan::Fill, 0, peer) {
            Ok(Ok(req2)) => {
                let o2 = observe(&req2, &names);
                for (sig, what) in m.compare(&o2, &peer.ip().to_string(), peer.port(), "tokio-reparse") {
                    r.violation(&sig, what.clone(), ex(&what), replay.clone());
                }
            }
            Ok(Err(e)) => r.violation("C02/tokio:roundtrip-reparse-rejected", format!("parsing the serialised request fails with {:?}", e), ex("reparse rejected"), replay),
            Err(p) => r.violation("C02/tokio:panic", format!("parsing the serialised request panicked: {}", panic_msg(&*p)), ex("panic"), replay),
        }
    }
}

fn gen_case(seed: u64, case: u64, thorough: bool) -> (ReqModel, SocketAddr, Rng) {
    let mut rng = Rng::derive(seed, 0x0210_0000 + case);
    let opts = GenOpts { max_fields: 48, max_body: if thorough || case % 16 == 0 { 65536 } else { 4096 }, allow_xff: true };
    let m = gen_request(&mut rng, &opts);
    let peer = peer_for(&mut rng);
    (m, peer, rng)
}

pub fn main(args: &Args) {
    let out = args.get("out").expect("--out");
    let seed = args.seed();
    if let Some(c) = args.get("case") {
        let case: u64 = c.parse().unwrap();
        let rt = tokio::runtime::Builder::new_current_thread().enable_all().build().unwrap();
        let (m, peer, _) = gen_case(seed, case, false);
        let plan = plan_from_string(args.get("plan").unwrap_or("fill")).unwrap();
        let mut r = Report::new();
        run_case(&rt, &mut r, &m, peer, &[(plan, args.u64("pend", 0) as usize)], seed, case);
        r.nontrivial(1);
        r.nontrivial(2);
        r.write(out, "replay of one recorded case", None, &[]);
        return;
    }
    let thorough = args.thorough();
    let ncases: u64 = if thorough { 15_000 } else { 800 };
    let reports = par(ncpu(), move |shard, nsh| {
        let rt = tokio::runtime::Builder::new_current_thread().enable_all().build().unwrap();
        let mut r = Report::new();
        let mut case = shard as u64;
        while case < ncases {
            let (m, peer, mut rng) = gen_case(seed, case, thorough);
            let len = m.render().len();
            let plans: Vec<(Plan, usize)> = plans_for(len, &mut rng, 512, 24, 4).into_iter().map(|p| { let pend = *rng.pick(&[0usize, 0, 2, 3, 7]); (p, pend) }).collect();
            r.count("requests", 1);
            if m.fields.len() > 20 {
                r.count("requests_over_20_fields", 1);
            }
            if m.xff.is_some() {
                r.count("requests_with_xff", 1);
            }
            if !m.fields.is_empty() {
                r.nontrivial(fnv(&m.render()));
            }
            if case < 2 {
                r.sample(J::obj(vec![("request", m.to_json()), ("read_plans", J::u(plans.len() as u64))]));
            }
            run_case(&rt, &mut r, &m, peer, &plans, seed, case);
            case += nsh as u64;
        }
        r
    });
    let total = Report::merge_all(reports);
    total.write(out, "tokio parser: same grammar and read plans as hv c02; reads additionally interleaved with Poll::Pending + immediate wake (every 2nd/3rd/7th poll in 3 of 5 plans); distinct = distinct request bytes with at least one field", None, &[]);
}

//! C06 (tokio runtime): binds `humphrey::tokio::handlers::{serve_dir, serve_as_file_path}` to the shared
//! laboratory in `hvcommon::staticlab`. (The server's `directory` routes exist on the threaded runtime only.)

use humphrey::handler_traits::{PathAwareRequestHandler, RequestHandler};
use humphrey::handlers::{serve_as_file_path, serve_dir};
use humphrey::http::address::Address;
use humphrey::http::headers::{HeaderType, Headers};
use humphrey::http::method::Method;
use humphrey::http::{Request, Response};
use hvcommon::args::Args;
use hvcommon::staticlab::{self, CallFn, Handler, SimpleResp};
use hvcommon::util::panic_msg;
use std::collections::HashMap;
use std::panic::{catch_unwind, AssertUnwindSafe};
use std::sync::{Arc, Mutex};

fn mk_request(uri: &str) -> Request {
    Request { method: Method::Get, uri: uri.to_string(), query: String::new(), version: "HTTP/1.1".into(), headers: Headers::new(), content: None, address: Address::new("10.9.8.7:6543").unwrap() }
}

fn simple(p: Response) -> SimpleResp {
    SimpleResp { status: u16::from(p.status_code), content_type: p.headers.get(&HeaderType::ContentType).unwrap_or("").to_string(), location: p.headers.get(&HeaderType::Location).unwrap_or("").to_string(), body: p.body }
}

fn bind(root: &'static str) -> CallFn {
    let sd: Box<dyn PathAwareRequestHandler<()>> = Box::new(serve_dir::<()>(root));
    let sa: Box<dyn RequestHandler<()>> = Box::new(serve_as_file_path::<()>(root));
    let rt = tokio::runtime::Builder::new_current_thread().enable_all().build().unwrap();
    let rt = Mutex::new(rt);
    // the tokio handler trait wants `&'static str` routes: intern them
    let interned: Mutex<HashMap<String, &'static str>> = Mutex::new(HashMap::new());
    Box::new(move |h, uri, route, _cache| {
        let req = mk_request(uri);
        let route: &'static str = *interned.lock().unwrap().entry(route.to_string()).or_insert_with(|| Box::leak(route.to_string().into_boxed_str()));
        catch_unwind(AssertUnwindSafe(|| {
            let rt = rt.lock().unwrap_or_else(|e| e.into_inner());
            match h {
                Handler::ServeDir => rt.block_on(sd.serve(req, Arc::new(()), route)),
                Handler::ServeAsFilePath => rt.block_on(sa.serve(req, Arc::new(()))),
                Handler::Directory => unreachable!("no directory routes on the tokio runtime"),
            }
        }))
        .map(simple)
        .map_err(|p| panic_msg(&*p))
    })
}

pub fn main(args: &Args) {
    staticlab::run(args, &[Handler::ServeDir, Handler::ServeAsFilePath], bind, "tokio:", "tokio", None);
}

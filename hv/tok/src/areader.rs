//! AsyncRead twin of the scripted reader: serves bytes according to a plan and additionally returns
//! `Pending` (with an immediate wake) before a configurable fraction of reads.

use hvcommon::reader::Plan;
use std::pin::Pin;
use std::task::{Context, Poll};
use tokio::io::{AsyncRead, ReadBuf};

pub struct AsyncScripted<'a> {
    data: &'a [u8],
    pos: usize,
    plan: Plan,
    step: usize,
    pend_every: usize,
    polls: usize,
    just_pended: bool,
    pub post_eof_reads: u64,
}

impl<'a> AsyncScripted<'a> {
    pub fn new(data: &'a [u8], plan: Plan, pend_every: usize) -> Self {
        AsyncScripted { data, pos: 0, plan, step: 0, pend_every, polls: 0, just_pended: false, post_eof_reads: 0 }
    }
}

impl<'a> AsyncRead for AsyncScripted<'a> {
    fn poll_read(mut self: Pin<&mut Self>, cx: &mut Context<'_>, buf: &mut ReadBuf<'_>) -> Poll<std::io::Result<()>> {
        let me = &mut *self;
        me.polls += 1;
        if me.pend_every > 0 && !me.just_pended && me.polls % me.pend_every == 0 {
            me.just_pended = true;
            cx.waker().wake_by_ref();
            return Poll::Pending;
        }
        me.just_pended = false;
        let rem = me.data.len() - me.pos;
        if rem == 0 {
            me.post_eof_reads += 1;
            if me.post_eof_reads > 10_000 {
                panic!("{}", hvcommon::reader::SPIN_MARK);
            }
            return Poll::Ready(Ok(()));
        }
        let want = match &me.plan {
            Plan::Fill => rem,
            Plan::Bytewise => 1,
            Plan::Sizes(v) | Plan::Interrupted(v) => {
                let s = if v.is_empty() { rem } else { v[me.step.min(v.len() - 1)] };
                me.step += 1;
                s.max(1)
            }
            Plan::SplitAt(k) => {
                if me.pos < *k {
                    *k - me.pos
                } else {
                    rem
                }
            }
        };
        let n = want.min(rem).min(buf.remaining());
        buf.put_slice(&me.data[me.pos..me.pos + n]);
        me.pos += n;
        Poll::Ready(Ok(()))
    }
}

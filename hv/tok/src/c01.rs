//! C01 (tokio runtime): real tokio `App` on loopback driven by the shared laboratory.

use humphrey::http::cors::Cors;
use humphrey::http::method::Method;
use humphrey::http::{Request, Response, StatusCode};
use humphrey::App;
use hvcommon::args::Args;
use hvcommon::httplab::{self, Lab, Logged};
use hvcommon::report::Report;
use hvcommon::util::{ncpu, par};
use std::net::{SocketAddr, TcpListener, TcpStream};
use std::sync::{Arc, Mutex};
use std::time::Duration;
use tokio_util::sync::CancellationToken;

pub struct LogState {
    pub log: Mutex<Vec<Logged>>,
}

fn record(req: &Request, st: &LogState) {
    let xid = req.headers.get("X-Id").unwrap_or("").to_string();
    st.log.lock().unwrap().push(Logged { xid, method: req.method.to_string(), uri: req.uri.clone(), query: req.query.clone(), version: req.version.clone(), body: req.content.clone() });
}

pub fn build_app(state: LogState) -> App<LogState> {
    App::new_with_config(state)
        .with_route("/r/*", |req: Request, st: Arc<LogState>| async move {
            record(&req, &st);
            Response::new(StatusCode::OK, format!("R|{}|{}|{}", req.method, req.uri, req.query))
        })
        .with_route("/echo", |req: Request, st: Arc<LogState>| async move {
            record(&req, &st);
            tokio::task::yield_now().await;
            Response::new(StatusCode::OK, req.content.clone().unwrap_or_default())
        })
        .with_route("/empty", |req: Request, st: Arc<LogState>| async move {
            record(&req, &st);
            Response::empty(StatusCode::OK)
        })
        .with_route("/cors/a", |req: Request, st: Arc<LogState>| async move {
            record(&req, &st);
            Response::new(StatusCode::OK, "C|/cors/a")
        })
        .with_route("/cors/b", |req: Request, st: Arc<LogState>| async move {
            record(&req, &st);
            Response::new(StatusCode::OK, "C|/cors/b")
        })
        .with_route("/cors/c", |req: Request, st: Arc<LogState>| async move {
            record(&req, &st);
            Response::new(StatusCode::OK, "C|/cors/c")
        })
        .with_route("/panic", |req: Request, st: Arc<LogState>| async move {
            record(&req, &st);
            if req.uri.len() < 1000 {
                panic!("hv-handler-panic");
            }
            Response::empty(StatusCode::OK)
        })
        .with_cors_config("/cors/a", Cors::wildcard())
        .with_cors_config("/cors/b", Cors::new().with_origin("https://a.example").with_origin("https://b.example").with_method(Method::Get).with_method(Method::Post).with_header("X-Custom").with_header("Content-Type"))
        .with_cors_config("/cors/c", Cors::new().with_wildcard_origin())
        .with_host(
            "cors.hv",
            humphrey::SubApp::new()
                .with_cors(Cors::new().with_origin("https://h.example").with_method(Method::Get).with_method(Method::Put).with_header("X-Host"))
                .with_path_aware_route("/pa/*", |req: Request, st: Arc<LogState>, route: &'static str| async move {
                    record(&req, &st);
                    Response::new(StatusCode::OK, format!("P|{}|{}", route, req.uri))
                })
                .with_route("/late", |req: Request, st: Arc<LogState>| async move {
                    record(&req, &st);
                    Response::new(StatusCode::OK, "L|/late")
                }),
        )
}

pub fn free_port() -> u16 {
    hvcommon::net::free_port("127.0.0.1")
}

pub struct TokioLab {
    addr: SocketAddr,
    state: Arc<LogState>,
    cancel: CancellationToken,
    workers: usize,
}

impl TokioLab {
    pub fn new(workers: usize) -> Result<TokioLab, String> {
        let port = free_port();
        let addr: SocketAddr = format!("127.0.0.1:{}", port).parse().unwrap();
        let cancel = CancellationToken::new();
        let app = build_app(LogState { log: Mutex::new(Vec::new()) }).with_shutdown(cancel.clone());
        let state = app.get_state();
        std::thread::spawn(move || {
            let rt = tokio::runtime::Builder::new_multi_thread().worker_threads(workers).enable_all().build().unwrap();
            rt.block_on(async move {
                let _ = app.run(addr).await;
            });
        });
        for _ in 0..400 {
            if TcpStream::connect(addr).is_ok() {
                return Ok(TokioLab { addr, state, cancel, workers });
            }
            std::thread::sleep(Duration::from_millis(5));
        }
        Err(format!("tokio lab app on {} did not start", addr))
    }
}

impl Drop for TokioLab {
    fn drop(&mut self) {
        self.cancel.cancel();
    }
}

impl Lab for TokioLab {
    fn addr(&self) -> SocketAddr {
        self.addr
    }
    fn pool(&self) -> usize {
        self.workers.max(8)
    }
    fn timeout_addr(&self) -> Option<SocketAddr> {
        None
    }
    fn take_log(&self, prefix: &str) -> Vec<Logged> {
        let mut g = self.state.log.lock().unwrap();
        let mut out = Vec::new();
        let mut keep = Vec::new();
        for l in g.drain(..) {
            if l.xid.starts_with(prefix) {
                out.push(l);
            } else {
                keep.push(l);
            }
        }
        *g = keep;
        out
    }
    fn runtime(&self) -> &'static str {
        "tokio"
    }
}

pub fn silence_handler_panics() {
    let prev = std::panic::take_hook();
    std::panic::set_hook(Box::new(move |info| {
        let s = info.payload().downcast_ref::<&str>().map(|s| s.to_string()).or_else(|| info.payload().downcast_ref::<String>().cloned()).unwrap_or_default();
        if !s.contains("hv-handler-panic") {
            prev(info);
        }
    }));
}

pub fn main(args: &Args) {
    let out = args.get("out").expect("--out");
    let seed = args.seed();
    silence_handler_panics();
    let only = args.get("script").map(|s| s.parse::<u64>().unwrap());
    let nscripts: u64 = if args.thorough() { 2000 } else { 120 };
    let reports = par(if only.is_some() { 1 } else { ncpu().min(8) }, move |shard, nsh| {
        let mut r = Report::new();
        let lab = match TokioLab::new(1 + shard % 3) {
            Ok(l) => l,
            Err(e) => {
                r.harness_error(e);
                return r;
            }
        };
        match only {
            Some(k) => httplab::run_all(&mut r, &lab, seed, (k % 1_000_000) as usize, 1_000_000, k + 1, 0, "k"),
            None => httplab::run_all(&mut r, &lab, seed, shard, nsh, nscripts, 0, "k"),
        }
        r
    });
    let mut total = Report::merge_all(reports);
    if only.is_some() {
        total.nontrivial(1);
        total.nontrivial(2);
    }
    total.write(out, "tokio runtime: the same scripts, segmentations, pipelining and panic-isolation rounds as hv c01 against tokio Apps on 1..3 runtime worker threads; the idle/408 case is skipped (the tokio App has no connection-timeout setting)", None, &[]);
}

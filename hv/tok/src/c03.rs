//! C03 (tokio request parser): the same enumerated / truncated / mutated / random inputs as `hv c03`'s
//! request target, through the async parser over the AsyncRead scripted reader, in isolated workers.

use crate::areader::AsyncScripted;
use humphrey::http::Request;
use hvcommon::args::Args;
use hvcommon::c03lab;
use hvcommon::reader::Plan;

pub const TARGETS: [&str; 1] = ["request-tokio"];

pub fn worker(args: &Args) {
    let rt = tokio::runtime::Builder::new_current_thread().enable_all().build().unwrap();
    c03lab::worker(args, &|_t, bytes, delivery| {
        let plan = if delivery == 1 { Plan::Bytewise } else { Plan::Fill };
        let res = rt.block_on(async {
            let mut rd = AsyncScripted::new(bytes, plan, if bytes.len() % 3 == 0 { 2 } else { 0 });
            Request::from_stream(&mut rd, "10.1.2.3:4567".parse().unwrap()).await
        });
        match res {
            Ok(_) => "ok".into(),
            Err(e) => format!("err:{:?}", e),
        }
    });
}

pub fn main(args: &Args) {
    c03lab::main(
        args,
        &TARGETS,
        "tokio request parser: all strings up to length 4 (5 thorough) over the HTTP request alphabet alone and after two valid-message contexts, every prefix of every seed request, structure-aware mutants (numbers -> boundary/huge values, delimiters removed/doubled, multi-byte and invalid UTF-8 at every position), random bytes; each delivered all-at-once and byte-by-byte (every third input additionally with Poll::Pending between reads). non-trivial = at least 2 bytes supplied; distinct = distinct (bytes, delivery)",
        &["same isolation, panic/abort/CPU/allocation monitors as hv c03"],
    );
}

pub fn one(args: &Args) {
    c03lab::one(args);
}

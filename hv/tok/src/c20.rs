//! C20 (tokio runtime): cancelling the token ends `run` and frees the port.

use humphrey::http::{Request, Response, StatusCode};
use humphrey::stream::Stream;
use humphrey::App;
use hvcommon::args::Args;
use hvcommon::report::Report;
use hvcommon::rng::Rng;
use hvcommon::shutlab::{self, RunningApp, Scenario};
use hvcommon::util::{ncpu, par};
use std::collections::HashMap;
use std::net::{SocketAddr, TcpListener, TcpStream};
use std::sync::mpsc::{channel, Receiver};
use std::sync::{Arc, Mutex};
use std::time::{Duration, Instant};
use tokio::io::AsyncReadExt;
use tokio_util::sync::CancellationToken;

pub struct St {
    started: Mutex<HashMap<String, Instant>>,
}

fn qget(q: &str, k: &str) -> Option<String> {
    q.split('&').find_map(|kv| kv.split_once('=').filter(|(a, _)| *a == k).map(|(_, b)| b.to_string()))
}

fn mark(req: &Request, st: &St) -> String {
    let id = qget(&req.query, "id").unwrap_or_default();
    st.started.lock().unwrap().insert(id.clone(), Instant::now());
    id
}

struct TokApp {
    addr: SocketAddr,
    cancel: Option<CancellationToken>,
    done: Receiver<Instant>,
    state: Arc<St>,
    /// keeps the runtime (and with it the in-flight tasks) alive until the scenario has been judged
    stop_rt: Option<tokio::sync::oneshot::Sender<()>>,
}

fn start(workers: usize, bind: &str) -> Result<TokApp, String> {
    let port = hvcommon::net::free_port(bind);
    let addr: SocketAddr = format!("{}:{}", bind, port).parse().unwrap();
    let cancel = CancellationToken::new();
    let (dtx, drx) = channel();
    let (stop_tx, stop_rx) = tokio::sync::oneshot::channel::<()>();
    let app: App<St> = App::new_with_config(St { started: Mutex::new(HashMap::new()) })
        .with_route("/fast", |req: Request, st: Arc<St>| async move {
            let id = mark(&req, &st);
            Response::new(StatusCode::OK, format!("fast:{}", id))
        })
        .with_route("/slow", |req: Request, st: Arc<St>| async move {
            let id = mark(&req, &st);
            let ms: u64 = qget(&req.query, "ms").and_then(|s| s.parse().ok()).unwrap_or(0);
            tokio::time::sleep(Duration::from_millis(ms)).await;
            Response::new(StatusCode::OK, format!("slow:{}", id))
        })
        .with_route("/big", |req: Request, st: Arc<St>| async move {
            mark(&req, &st);
            let kb: usize = qget(&req.query, "kb").and_then(|s| s.parse().ok()).unwrap_or(1);
            Response::new(StatusCode::OK, vec![b'x'; kb * 1024])
        })
        .with_websocket_route("/ws", |req: Request, mut stream: Stream, st: Arc<St>| async move {
            mark(&req, &st);
            let mut b = [0u8; 256];
            while let Ok(n) = stream.read(&mut b).await {
                if n == 0 {
                    break;
                }
            }
        })
        .with_shutdown(cancel.clone());
    let state = app.get_state();
    std::thread::spawn(move || {
        let rt = tokio::runtime::Builder::new_multi_thread().worker_threads(workers.clamp(1, 4)).enable_all().build().unwrap();
        rt.block_on(async move {
            let _ = app.run(addr).await;
            dtx.send(Instant::now()).ok();
            // the property observes in-flight responses with the process (here: the runtime) kept alive
            let _ = tokio::time::timeout(Duration::from_secs(60), stop_rx).await;
        });
    });
    let probe: SocketAddr = if addr.ip().is_unspecified() { format!("{}:{}", if addr.is_ipv4() { "127.0.0.1" } else { "[::1]" }, port).parse().unwrap() } else { addr };
    for _ in 0..400 {
        if let Ok(s) = TcpStream::connect(probe) {
            drop(s);
            return Ok(TokApp { addr, cancel: Some(cancel), done: drx, state, stop_rt: Some(stop_tx) });
        }
        std::thread::sleep(Duration::from_millis(3));
    }
    Err(format!("tokio lab app on {} did not start", addr))
}

impl Drop for TokApp {
    fn drop(&mut self) {
        if let Some(s) = self.stop_rt.take() {
            s.send(()).ok();
        }
    }
}

impl RunningApp for TokApp {
    fn addr(&self) -> SocketAddr {
        self.addr
    }
    fn take_signaller(&mut self) -> Box<dyn FnOnce() + Send> {
        let c = self.cancel.take().expect("signal already sent");
        Box::new(move || c.cancel())
    }
    fn wait_returned(&mut self, timeout: Duration) -> Option<Instant> {
        self.done.recv_timeout(timeout).ok()
    }
    fn handler_started(&self, id: &str) -> Option<Instant> {
        self.state.started.lock().unwrap().get(id).copied()
    }
    fn runtime(&self) -> &'static str {
        "tokio"
    }
}

pub fn main(args: &Args) {
    let out = args.get("out").expect("--out");
    let seed = args.seed();
    let only = args.get("scenario").map(|s| s.parse::<u64>().unwrap());
    let n: u64 = if args.thorough() { 400 } else { 48 };
    let reports = par(if only.is_some() { 1 } else { ncpu().min(8) }, move |shard, nsh| {
        let mut r = Report::new();
        let mut k = only.unwrap_or(shard as u64);
        while k < n || only == Some(k) {
            let mut rng = Rng::derive(seed, 0x2010_0000 + k);
            let sc: Scenario = shutlab::gen_scenario(&mut rng);
            let replay = vec!["c20".to_string(), "--seed".into(), seed.to_string(), "--scenario".into(), k.to_string()];
            match start(sc.pool, sc.bind) {
                Ok(mut app) => {
                    if k < 1 {
                        r.sample(shutlab::scenario_json(&sc));
                    }
                    shutlab::run_scenario(&mut r, &mut app, &sc, &format!("k{}", k), &replay);
                }
                Err(e) => r.inconclusive(e),
            }
            if only.is_some() {
                break;
            }
            k += nsh as u64;
        }
        r
    });
    let mut total = Report::merge_all(reports);
    if only.is_none() || args.get("fdx").is_some() {
        // process-wide (descriptor limit), hence after the sharded part, alone
        let mut r = Report::new();
        for (rounds, in_shortage) in [(1usize, false), (7, true), (3, false)] {
            match start(2, "127.0.0.1") {
                Ok(mut app) => shutlab::fd_exhaustion_scenario(&mut r, &mut app, rounds, in_shortage, &["c20".to_string(), "--fdx".into(), "1".into(), "--scenario".into(), "999999".into()]),
                Err(e) => r.inconclusive(e),
            }
        }
        total = Report::merge_all(vec![total, r]);
    }
    if only.is_some() {
        total.nontrivial(1);
        total.nontrivial(2);
    }
    total.write(out, "tokio runtime: the same generated traffic states and signal timings as hv c20, the signal being CancellationToken::cancel; the runtime is kept alive after run() returns so that in-flight tasks can complete", None, &[]);
}
